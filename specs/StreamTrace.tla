----------------------------- MODULE StreamTrace -----------------------------
(***************************************************************************)
(* Validation of recorded runs of the real stream decoder (hook events of   *)
(* internal/decoder/stream.go read()/reset(), build tag verif) against the  *)
(* index-level window arithmetic of StreamDecoder/StreamIdx.                *)
(*                                                                         *)
(* The trace is a concatenation of runs: {"ev":"begin","doclen":N} starts a *)
(* new Decoder.  Between two recorded events the scanner takes unrecorded   *)
(* steps (Consume, in-place edits of the window); they are inferred: the    *)
(* cursor may move, and length and len(buf) may change by the SAME amount   *)
(* (an in-place edit shifts the tail of the buffer).  Every recorded step   *)
(* must then be exactly the spec's step.  Every broken rule is appended to  *)
(* `bad` with the index of its event and reported at the end; the driver    *)
(* compares them with the known findings (an unlisted rule, or more events  *)
(* than recorded for a listed one, is a violation).                         *)
(***************************************************************************)
EXTENDS Naturals, Integers, Sequences, TLC, Json, IOUtils, StreamIdx

Trace == ndJsonDeserialize(IOEnv.TRACE_FILE)
InitBuf == 512

VARIABLES i,        \* next event
          st,       \* [cursor, length, buflen, bufSize, offset, filled]
          rpos,     \* bytes delivered in this run
          doclen,   \* length of this run's input
          adj,      \* net bytes removed from the window by in-place edits (may be negative)
          afterReset,
          bad,      \* sequence of <<event index, broken rule>> (the known findings of the unchanged tree must not hide others)
          hi,       \* this run's document contains bytes >= 0x80 (multi-byte UTF-8: the decoder may rewrite them in place)
          runs, done
vars == <<i, st, rpos, doclen, adj, afterReset, bad, hi, runs, done>>

Fresh == [cursor |-> 0, length |-> 0, buflen |-> InitBuf, bufSize |-> InitBuf, offset |-> 0, filled |-> FALSE]

Init == i = 1 /\ st = Fresh /\ rpos = 0 /\ doclen = 0 /\ adj = 0 /\ afterReset = FALSE /\ bad = <<>> /\ hi = FALSE /\ runs = 0 /\ done = FALSE

Begin(e) ==
  /\ st' = Fresh /\ rpos' = 0 /\ doclen' = e.doclen /\ adj' = 0 /\ afterReset' = FALSE
  /\ runs' = runs + 1 /\ bad' = bad /\ hi' = e.hi

(* what the unrecorded scanner steps may have done since the last recorded event *)
SilentRule(e) ==
  LET d == st.length - e.plen IN
  IF e.pbs # st.bufSize /\ ~(afterReset /\ e.pbs = st.buflen) THEN "silent:bufSize-changed"
  ELSE IF e.poff # st.offset THEN "silent:offset-changed"
  ELSE IF e.pfil # st.filled THEN "silent:filled-changed"
  ELSE IF st.buflen - e.pblen # d THEN "silent:length-and-buffer-moved-differently"
  ELSE IF e.pcur > e.plen THEN "silent:cursor-beyond-length"
  ELSE IF e.pcur < 0 \/ e.plen < 0 THEN "silent:negative-index"
  ELSE "none"

ReadRule(e) ==
  LET r == ReadIdx(e.plen, e.pblen, e.pbs, e.pfil, e.n) IN
  IF e.plen >= e.pblen THEN "read:no-room-for-sentinel"
  ELSE IF e.n > r.maxn THEN "read:more-bytes-than-room"
  ELSE IF e.blen # r.buflen \/ e.bs # r.bufSize THEN "read:buffer-growth"
  ELSE IF e.len # r.length THEN "read:length"
  ELSE IF e.fil # r.filled THEN "read:filled-flag"
  ELSE IF e.cur # e.pcur \/ e.off # e.poff THEN "read:cursor-or-offset-moved"
  ELSE IF ~e.sent THEN "read:no-sentinel-after-data"
  ELSE IF rpos + e.n > doclen THEN "read:more-than-input"
  ELSE IF e.off + e.len + (adj + (st.length - e.plen)) # rpos + e.n THEN "read:conservation"
  ELSE "none"

ResetRule(e) ==
  LET r == ResetIdx(e.pcur, e.plen, e.pblen, e.poff) IN
  IF e.off # r.offset \/ e.len # r.length \/ e.blen # r.buflen \/ e.cur # r.cursor THEN "reset:arithmetic"
  ELSE IF e.bs # e.pbs \/ e.fil # e.pfil THEN "reset:flags"
  ELSE IF ~e.sent THEN "reset:no-sentinel"
  ELSE "none"

Step(e) ==
  LET s == SilentRule(e)
      m == IF s # "none" THEN s ELSE IF e.ev = "read" THEN ReadRule(e) ELSE ResetRule(e) IN
  /\ bad' = IF m = "none" \/ Len(bad) >= 5000 THEN bad ELSE Append(bad, <<i, IF hi THEN "multibyte-doc:" \o m ELSE m>>)
  /\ st' = [cursor |-> e.cur, length |-> e.len, buflen |-> e.blen, bufSize |-> e.bs, offset |-> e.off, filled |-> e.fil]
  /\ adj' = adj + (st.length - e.plen)
  /\ rpos' = IF e.ev = "read" THEN rpos + e.n ELSE rpos
  /\ afterReset' = (e.ev = "reset")
  /\ UNCHANGED <<doclen, runs, hi>>

Next ==
  \/ /\ i <= Len(Trace)
     /\ i' = i + 1 /\ done' = done
     /\ LET e == Trace[i] IN IF e.ev = "begin" THEN Begin(e) ELSE Step(e)
  \/ /\ i = Len(Trace) + 1 /\ ~done /\ done' = TRUE
     /\ PrintT(<<"TRACE-BADS", ToJson(bad)>>)
     /\ UNCHANGED <<i, st, rpos, doclen, adj, afterReset, bad, hi, runs>>

Spec == Init /\ [][Next]_vars

(* all events consumed (one state per event, the initial state and the final report step) *)
TraceAccepted == TLCGet("stats").diameter - 2 = Len(Trace)
=============================================================================
