------------------------------ MODULE StrCodec ------------------------------
(***************************************************************************)
(* String escaping (encoder) and unescaping (decoder) at the level of       *)
(* tokens (C17).                                                            *)
(*                                                                         *)
(* ENCODER side.  A Go string is a sequence of TOKENS: a maximal well-formed *)
(* UTF-8 scalar or an ill-formed byte group.  Enc(tok, html, norm) is the    *)
(* list of JSON string ITEMS a correct encoder may emit; an item is          *)
(* [esc |-> BOOLEAN, rune |-> class].  What every conforming parser reads    *)
(* back is Meaning(items); the property is                                   *)
(*      Meaning(Enc(s)) = Repl(s)    (ill-formed bytes become U+FFFD)         *)
(* and no item is a RAW control character, quote or backslash, nor - with    *)
(* HTML escaping on - a raw <, >, & or U+2028/U+2029.                         *)
(*                                                                         *)
(* DECODER side.  A JSON string literal is a sequence of ITEMS from the      *)
(* catalogue of harness/jt/items.go; DecItems gives the scalar sequence      *)
(* encoding/json produces: simple escapes, \uXXXX, surrogate pairs joined,   *)
(* lone surrogates replaced by U+FFFD.                                       *)
(*                                                                         *)
(* TLC checks the laws on every token sequence up to MaxLen for the four     *)
(* flag combinations, and exports the token table and the expected scalar    *)
(* sequence of every item sequence up to DecLen.                             *)
(***************************************************************************)
EXTENDS Naturals, Sequences, TLC, Json

CONSTANTS MaxLen, DecLen

(* ---- encoder tokens ---- *)
Tokens == {"pl","q","bs","lt","gt","amp","cn","cb","cu","nul","del","u2","u3","ls","ps","u4",
           "xff","xc0","cont","tr3","sur",
           "tr4","tr42"}      \* a 4-byte sequence cut after its third / second byte (F0 90 80 | F0 90): 3 / 2 ill-formed bytes
WellFormed == {"pl","q","bs","lt","gt","amp","cn","cb","cu","nul","del","u2","u3","ls","ps","u4"}
(* number of bytes of an ill-formed token: each becomes one U+FFFD *)
BadBytes(t) == CASE t = "tr3" -> 2 [] t = "sur" -> 3 [] t = "tr4" -> 3 [] t = "tr42" -> 2 [] OTHER -> 1

Control  == {"cn","cb","cu","nul"}
Struct   == {"q","bs"}
HtmlSet  == {"lt","gt","amp","ls","ps"}

Item(e, r) == [esc |-> e, rune |-> r]
Rep(n, x) == [i \in 1..n |-> x]

(* what a correct encoder emits for one token *)
Enc(t, html, norm) ==
  CASE t \in Control \cup Struct -> <<Item(TRUE, t)>>
    [] t \in HtmlSet -> <<Item(html, t)>>                 \* escaped exactly when HTML escaping is on
    [] t \in WellFormed -> <<Item(FALSE, t)>>
    [] OTHER -> IF norm THEN Rep(BadBytes(t), Item(TRUE, "fffd"))     \* ill-formed bytes: � each
                ELSE <<Item(FALSE, t)>>                                \* normalisation off: bytes are copied

RECURSIVE EncSeq(_, _, _)
EncSeq(s, html, norm) == IF s = <<>> THEN <<>> ELSE Enc(Head(s), html, norm) \o EncSeq(Tail(s), html, norm)

(* what any conforming parser reads back from one item *)
Meaning1(it) == IF it.rune \in WellFormed \/ it.rune = "fffd" THEN <<it.rune>>
                ELSE Rep(BadBytes(it.rune), "fffd")      \* raw ill-formed bytes are replaced when parsed
RECURSIVE Meaning(_)
Meaning(items) == IF items = <<>> THEN <<>> ELSE Meaning1(Head(items)) \o Meaning(Tail(items))

Repl1(t) == IF t \in WellFormed THEN <<t>> ELSE Rep(BadBytes(t), "fffd")
RECURSIVE Repl(_)
Repl(s) == IF s = <<>> THEN <<>> ELSE Repl1(Head(s)) \o Repl(Tail(s))

ForbiddenRaw(it, html) ==
  ~it.esc /\ (it.rune \in Control \cup Struct \/ (html /\ it.rune \in HtmlSet))

(* ---- decoder items ---- *)
Items == {"plain","esc-n","esc-q","esc-bs","esc-sl","esc-b","u-ascii","u-quote","u-bs","u-latin","u-nul","u-ctl","u-2028","u-bmp",
          "u-high","u-low","u-pair","u-pair-upper","mb2","mb3","mb4"}
(* scalar classes produced: the item's own scalar, "supp" for a joined pair, "fffd" for a lone surrogate *)
Single(i) == CASE i = "u-high" -> "HI" [] i = "u-low" -> "LO" [] i \in {"u-pair","u-pair-upper"} -> "supp:" \o i
               [] OTHER -> "sc:" \o i
RECURSIVE DecItems(_)
DecItems(s) ==
  IF s = <<>> THEN <<>>
  ELSE IF Head(s) = "u-high" /\ Len(s) >= 2 /\ s[2] = "u-low" THEN <<"supp:high+low">> \o DecItems(Tail(Tail(s)))
  ELSE IF Head(s) \in {"u-high", "u-low"} THEN <<"fffd">> \o DecItems(Tail(s))
  ELSE <<Single(Head(s))>> \o DecItems(Tail(s))

-----------------------------------------------------------------------------
VARIABLES toks
Init == toks = <<>>
Next == Len(toks) < MaxLen /\ \E t \in Tokens : toks' = Append(toks, t)
Spec == Init /\ [][Next]_toks

Flags == BOOLEAN \X BOOLEAN
RoundTrip  == \A f \in Flags : Meaning(EncSeq(toks, f[1], f[2])) = Repl(toks)
NoForbidden == \A f \in Flags : \A k \in DOMAIN EncSeq(toks, f[1], f[2]) : ~ForbiddenRaw(EncSeq(toks, f[1], f[2])[k], f[1])
(* with normalisation on, the output consists of well-formed scalars only *)
NormalisedIsWellFormed ==
  \A h \in BOOLEAN : \A k \in DOMAIN EncSeq(toks, h, TRUE) : EncSeq(toks, h, TRUE)[k].rune \in WellFormed \cup {"fffd"}

(* ---- exports ---- *)
TokenRows == { [tok |-> t, wellformed |-> t \in WellFormed, bytes |-> IF t \in WellFormed THEN 0 ELSE BadBytes(t),
                must_escape_always |-> t \in Control \cup Struct, must_escape_html |-> t \in HtmlSet] : t \in Tokens }
RECURSIVE SeqsUpTo(_)
SeqsUpTo(n) == IF n = 0 THEN {<<>>} ELSE SeqsUpTo(n - 1) \cup { Append(s, i) : s \in { x \in SeqsUpTo(n - 1) : Len(x) = n - 1 }, i \in Items }
DecRows == { [items |-> s, scalars |-> DecItems(s)] : s \in SeqsUpTo(DecLen) }
ASSUME PrintT(<<"EXPORT-TOKENS", ToJson(TokenRows)>>)
ASSUME PrintT(<<"EXPORT-DEC", ToJson(DecRows)>>)
(* decoder laws, checked once over the exported sequences *)
ASSUME \A s \in SeqsUpTo(DecLen) : \A k \in DOMAIN DecItems(s) : DecItems(s)[k] \notin {"HI", "LO"}
ASSUME \A s \in SeqsUpTo(DecLen) : Len(DecItems(s)) <= Len(s)
=============================================================================
