------------------------------ MODULE TypeCache ------------------------------
(***************************************************************************)
(* The per-type program caches under concurrent first use (C10, and the     *)
(* "own program" half of C14).                                              *)
(*                                                                         *)
(* internal/encoder/compiler_{norace,race}.go, compiler.go and the decoder  *)
(* twins keep, per side ("enc", "dec"):                                     *)
(*   - a slot table indexed by the shifted type address (fast types),        *)
(*   - a copy-on-write map behind an atomic pointer (slow types: descriptors *)
(*     outside the address window, e.g. reflect-created types).             *)
(* A lookup is a sequence of separately scheduled steps, one per critical    *)
(* section of the code (the names in brackets are the hook points of the     *)
(* verif build, at which the harness can park a goroutine):                  *)
(*   guard [lookup] -> (race build: rlock) -> read -> hit: filter -> return  *)
(*                                         -> miss [miss]: compile -> filter *)
(*                                            -> [publish] (race build:      *)
(*                                            wreq, wlock) store -> return   *)
(*   slow path: sload -> hit / compile -> spublish (new map = the snapshot   *)
(*   this goroutine loaded + its own entry, stored atomically).              *)
(* The production build publishes without synchronisation, so two            *)
(* goroutines may both miss, both compile and both store: benign as long as  *)
(* each program is complete before it is stored and belongs to the slot's    *)
(* type.  The race build guards the table with a sync.RWMutex, modelled with *)
(* Go's writer preference (a waiting writer blocks new readers).             *)
(*                                                                         *)
(* Encoder calls may carry a field query.  Filtering needs the query's hash, *)
(* computed lazily by MARSHALLING the query: a nested lookup for the query's *)
(* own type QType.  The design filters after the read lock is released.      *)
(* Named deviations (each must be FOUND by TLC in a *_dev cfg):              *)
(*   "FilterUnderReadLock"  the race build as it was before fix 371b1d0:     *)
(*                          the nested lookup runs with the read lock held   *)
(*                          -> deadlock (a single goroutine suffices);       *)
(*   "SharedSlot"           two fast types map to one slot (what a wrong     *)
(*                          address window / shift produces, see TypeLayout) *)
(*                          -> a call returns another type's program;        *)
(*   "PublishBeforeCompile" the slot is written before the program exists    *)
(*                          -> a reader returns an incomplete program;       *)
(*   "TwoWordSlot"          the production build's decoder table as it was   *)
(*                          before the repair: a slot holds a Go interface   *)
(*                          value (type word + data word) stored by two      *)
(*                          plain writes -> a reader between them gets a     *)
(*                          half-written value (nil-pointer panic in the     *)
(*                          real code).                                      *)
(*                                                                         *)
(* Every behaviour's order of hook-point passages (`sched`) is exported; the *)
(* harness replays it with a cooperative scheduler built on the hooks, on    *)
(* types never used before, and compares every result with the sequential    *)
(* one.                                                                      *)
(***************************************************************************)
EXTENDS Naturals, Sequences, FiniteSets, TLC, Json

CONSTANTS Procs,        \* goroutines
          FastTypes,    \* types inside the address window (slot table)
          SlowTypes,    \* types outside it (copy-on-write map)
          QType,        \* the field query's own type (a fast type), "" when queries are not explored
          Sides,        \* subset of {"enc", "dec"}
          Variant,      \* "norace" or "race"
          MaxCalls,     \* calls per goroutine
          Deviations

Nil == "nil"
Types == FastTypes \cup SlowTypes
Half(t) == "half-" \o t             \* a program whose construction has not finished

(* slot index of a fast type: injective by design *)
Idx(t) == IF "SharedSlot" \in Deviations /\ t \in FastTypes /\ t # QType THEN "shared" ELSE t
Slots == { Idx(t) : t \in FastTypes }

VARIABLES slot,      \* side -> slot index -> program (named by the type it was compiled for) or Nil
          cmap,      \* side -> set of slow types in the current map
          stack,     \* proc -> sequence of frames, innermost last
          plan,      \* proc -> remaining calls
          rw,        \* side -> [readers: proc -> count, writer, waiting]
          hashDone,  \* the shared query's hash has been computed
          results,   \* set of [req, got] of finished top-level calls
          sched,     \* history: procs in the order they pass hook points
          plan0      \* history: the initial plan and whether the query type's program existed already
vars == <<slot, cmap, stack, plan, rw, hashDone, results, sched, plan0>>
view == <<slot, cmap, stack, plan, rw, hashDone, results>>

Frame(side, t, q) == [side |-> side, t |-> t, q |-> q, pc |-> "guard", prog |-> Nil, snap |-> {}, hit |-> FALSE]
Top(p) == stack[p][Len(stack[p])]
SetTop(p, f) == [stack EXCEPT ![p] = [@ EXCEPT ![Len(@)] = f]]
Push(p, parent, f) == [stack EXCEPT ![p] = Append([@ EXCEPT ![Len(@)] = parent], f)]

Calls == { [side |-> s, t |-> t, q |-> q] : s \in Sides, t \in Types \ {QType}, q \in BOOLEAN }
GoodCall(c) == c.q => (c.side = "enc" /\ QType # "")
PlanSeqs == UNION { [1..n -> { c \in Calls : GoodCall(c) }] : n \in 1..MaxCalls }

Init ==
  /\ \E qwarm \in (IF QType = "" THEN {FALSE} ELSE BOOLEAN) :
       /\ slot = [s \in Sides |-> [i \in Slots |-> IF qwarm /\ i = QType /\ s = "enc" THEN QType ELSE Nil]]
       /\ \E pl \in [Procs -> PlanSeqs] :
            /\ plan = pl
            /\ plan0 = [calls |-> pl, qwarm |-> qwarm]
  /\ cmap = [s \in Sides |-> {}]
  /\ stack = [p \in Procs |-> <<>>]
  /\ rw = [s \in Sides |-> [readers |-> [p \in Procs |-> 0], writer |-> Nil, waiting |-> {}]]
  /\ hashDone = FALSE
  /\ results = {}
  /\ sched = <<>>

Gate(p, pt, t) == sched' = Append(sched, <<p, pt, t>>)

(* ---- a goroutine starts its next call ---- *)
Start(p) ==
  /\ stack[p] = <<>> /\ plan[p] # <<>>
  /\ stack' = [stack EXCEPT ![p] = <<Frame(Head(plan[p]).side, Head(plan[p]).t, Head(plan[p]).q)>>]
  /\ plan' = [plan EXCEPT ![p] = Tail(@)]
  /\ UNCHANGED <<slot, cmap, rw, hashDone, results, sched, plan0>>

(* ---- [lookup] range guard ---- *)
Guard(p) ==
  /\ stack[p] # <<>> /\ Top(p).pc = "guard"
  /\ LET f == Top(p) IN
     stack' = SetTop(p, [f EXCEPT !.pc = IF f.t \in SlowTypes THEN "sload" ELSE IF Variant = "race" THEN "rlock" ELSE "read"])
  /\ Gate(p, "lookup", Top(p).t)
  /\ UNCHANGED <<slot, cmap, plan, rw, hashDone, results, plan0>>

(* ---- race build: RLock (blocks behind an active or a WAITING writer) ---- *)
RLock(p) ==
  /\ stack[p] # <<>> /\ Top(p).pc = "rlock"
  /\ LET s == Top(p).side IN
     /\ rw[s].writer = Nil /\ rw[s].waiting = {}
     /\ rw' = [rw EXCEPT ![s].readers[p] = @ + 1]
  /\ stack' = SetTop(p, [Top(p) EXCEPT !.pc = "read"])
  /\ UNCHANGED <<slot, cmap, plan, hashDone, results, sched, plan0>>

(* ---- read the slot; the design releases the read lock right here ---- *)
Read(p) ==
  /\ stack[p] # <<>> /\ Top(p).pc = "read"
  /\ LET f == Top(p)
         v == slot[f.side][Idx(f.t)]
         keep == Variant = "race" /\ "FilterUnderReadLock" \in Deviations /\ v # Nil IN
     /\ stack' = SetTop(p, [f EXCEPT !.prog = v, !.hit = (v # Nil), !.pc = IF v # Nil THEN "filter" ELSE "compile"])
     /\ rw' = IF Variant = "race" /\ ~keep THEN [rw EXCEPT ![f.side].readers[p] = @ - 1] ELSE rw
  /\ UNCHANGED <<slot, cmap, plan, hashDone, results, sched, plan0>>

(* ---- [miss] compile (a private computation) ---- *)
Compile(p) ==
  /\ stack[p] # <<>> /\ Top(p).pc = "compile"
  /\ LET f == Top(p) IN
     IF "PublishBeforeCompile" \in Deviations /\ f.t \in FastTypes
     THEN /\ slot' = [slot EXCEPT ![f.side][Idx(f.t)] = Half(f.t)]          \* the slot already points at the unfinished program
          /\ stack' = SetTop(p, [f EXCEPT !.prog = f.t, !.pc = "filter"])
     ELSE /\ slot' = slot
          /\ stack' = SetTop(p, [f EXCEPT !.prog = f.t, !.pc = IF f.t \in SlowTypes THEN "spublish" ELSE "filter"])
  /\ Gate(p, "miss", Top(p).t)
  /\ UNCHANGED <<cmap, plan, rw, hashDone, results, plan0>>

(* ---- filter by field query: needs the hash, i.e. possibly a nested Marshal of the query ---- *)
AfterFilter(f) ==
  IF f.hit THEN (IF Variant = "race" /\ "FilterUnderReadLock" \in Deviations /\ f.t \in FastTypes THEN "runlock" ELSE "return")
  ELSE "publish"
Filter(p) ==
  /\ stack[p] # <<>> /\ Top(p).pc = "filter"
  /\ LET f == Top(p) IN
     IF f.q /\ ~hashDone
     THEN stack' = Push(p, [f EXCEPT !.pc = "filtered"], Frame("enc", QType, FALSE))   \* Hash() -> Marshal(query)
     ELSE stack' = SetTop(p, [f EXCEPT !.pc = AfterFilter(f)])
  /\ UNCHANGED <<slot, cmap, plan, rw, hashDone, results, sched, plan0>>
Filtered(p) ==
  /\ stack[p] # <<>> /\ Top(p).pc = "filtered"
  /\ hashDone' = TRUE
  /\ stack' = SetTop(p, [Top(p) EXCEPT !.pc = AfterFilter(Top(p))])
  /\ UNCHANGED <<slot, cmap, plan, rw, results, sched, plan0>>
RUnlock(p) ==
  /\ stack[p] # <<>> /\ Top(p).pc = "runlock"
  /\ rw' = [rw EXCEPT ![Top(p).side].readers[p] = @ - 1]
  /\ stack' = SetTop(p, [Top(p) EXCEPT !.pc = "return"])
  /\ UNCHANGED <<slot, cmap, plan, hashDone, results, sched, plan0>>

(* ---- [publish] ---- *)
Publish(p) ==
  /\ stack[p] # <<>> /\ Top(p).pc = "publish"
  /\ LET f == Top(p) IN
     IF Variant = "race"
     THEN /\ rw' = [rw EXCEPT ![f.side].waiting = @ \cup {p}]
          /\ stack' = SetTop(p, [f EXCEPT !.pc = "wlock"])
          /\ slot' = slot
     ELSE IF "TwoWordSlot" \in Deviations /\ f.side = "dec"
     THEN /\ slot' = [slot EXCEPT ![f.side][Idx(f.t)] = Half(f.t)]          \* first word written
          /\ stack' = SetTop(p, [f EXCEPT !.pc = "store2"])
          /\ rw' = rw
     ELSE /\ slot' = [slot EXCEPT ![f.side][Idx(f.t)] = f.prog]
          /\ stack' = SetTop(p, [f EXCEPT !.pc = "return"])
          /\ rw' = rw
  /\ Gate(p, "publish", Top(p).t)
  /\ UNCHANGED <<cmap, plan, hashDone, results, plan0>>
Store2(p) ==
  /\ stack[p] # <<>> /\ Top(p).pc = "store2"
  /\ slot' = [slot EXCEPT ![Top(p).side][Idx(Top(p).t)] = Top(p).prog]      \* second word written
  /\ stack' = SetTop(p, [Top(p) EXCEPT !.pc = "return"])
  /\ UNCHANGED <<cmap, plan, rw, hashDone, results, sched, plan0>>
WLock(p) ==
  /\ stack[p] # <<>> /\ Top(p).pc = "wlock"
  /\ LET s == Top(p).side IN
     /\ rw[s].writer = Nil /\ \A r \in Procs : rw[s].readers[r] = 0
     /\ rw' = [rw EXCEPT ![s].writer = p, ![s].waiting = @ \ {p}]
  /\ stack' = SetTop(p, [Top(p) EXCEPT !.pc = "store"])
  /\ UNCHANGED <<slot, cmap, plan, hashDone, results, sched, plan0>>
Store(p) ==
  /\ stack[p] # <<>> /\ Top(p).pc = "store"
  /\ LET f == Top(p) IN
     /\ slot' = [slot EXCEPT ![f.side][Idx(f.t)] = f.prog]
     /\ rw' = [rw EXCEPT ![f.side].writer = Nil]
     /\ stack' = SetTop(p, [f EXCEPT !.pc = "return"])
  /\ UNCHANGED <<cmap, plan, hashDone, results, sched, plan0>>

(* ---- slow path: atomic load of the map pointer, copy-on-write publish ---- *)
SLoad(p) ==
  /\ stack[p] # <<>> /\ Top(p).pc = "sload"
  /\ LET f == Top(p) IN
     stack' = SetTop(p, [f EXCEPT !.snap = cmap[f.side], !.hit = (f.t \in cmap[f.side]),
                                  !.prog = IF f.t \in cmap[f.side] THEN f.t ELSE Nil,
                                  !.pc = IF f.t \in cmap[f.side] THEN "filter" ELSE "compile"])
  /\ UNCHANGED <<slot, cmap, plan, rw, hashDone, results, sched, plan0>>
SPublish(p) ==
  /\ stack[p] # <<>> /\ Top(p).pc = "spublish"
  /\ LET f == Top(p) IN
     /\ cmap' = [cmap EXCEPT ![f.side] = f.snap \cup {f.t}]      \* entries added by others since the load are dropped (recompiled later)
     /\ stack' = SetTop(p, [f EXCEPT !.pc = "filter", !.hit = TRUE])        \* the slow path filters after it has published
  /\ Gate(p, "publish", Top(p).t)
  /\ UNCHANGED <<slot, plan, rw, hashDone, results, plan0>>

Return(p) ==
  /\ stack[p] # <<>> /\ Top(p).pc = "return"
  /\ stack' = [stack EXCEPT ![p] = SubSeq(@, 1, Len(@) - 1)]
  /\ results' = IF Len(stack[p]) = 1 THEN results \cup {[req |-> Top(p).t, got |-> Top(p).prog]} ELSE results
  /\ UNCHANGED <<slot, cmap, plan, rw, hashDone, sched, plan0>>

Finished == \A p \in Procs : stack[p] = <<>> /\ plan[p] = <<>>
Done == Finished /\ UNCHANGED vars

Step(p) == Start(p) \/ Guard(p) \/ RLock(p) \/ Read(p) \/ Compile(p) \/ Filter(p) \/ Filtered(p) \/ RUnlock(p)
           \/ Publish(p) \/ WLock(p) \/ Store(p) \/ Store2(p) \/ SLoad(p) \/ SPublish(p) \/ Return(p)
Next == (\E p \in Procs : Step(p)) \/ Done
Spec == Init /\ [][Next]_vars
FairSpec == Spec /\ \A p \in Procs : WF_vars(Step(p))

(* Schedule generation.  The hooks of the real code sit at the steps Guard [lookup], Compile [miss] and           *)
(* Publish / SPublish [publish]; a goroutine released at a hook runs on to its next hook (or blocks on the lock).  *)
(* GenSpec therefore gives the steps between hooks priority: its behaviours are exactly the interleavings a        *)
(* scheduler acting at the hooks can produce.  Each hook precedes one group of shared accesses (slot read; the     *)
(* private compilation; slot / map write), so every order of the shared accesses is still generated.               *)
GateStep(p) == Guard(p) \/ Compile(p) \/ Publish(p) \/ SPublish(p)
InternalStep(p) == Start(p) \/ RLock(p) \/ Read(p) \/ Filter(p) \/ Filtered(p) \/ RUnlock(p) \/ WLock(p) \/ Store(p) \/ Store2(p) \/ SLoad(p) \/ Return(p)
GenNext == \/ \E p \in Procs : InternalStep(p)
           \/ (~ \E p \in Procs : ENABLED InternalStep(p)) /\ \E p \in Procs : GateStep(p)
           \/ Done
GenSpec == Init /\ [][GenNext]_vars

-----------------------------------------------------------------------------
(* each call returns the program of its own type, complete *)
OwnProgram == \A r \in results : r.got = r.req
(* a slot only ever holds the program of the type that owns it *)
SlotOwner == \A s \in Sides : \A t \in FastTypes : slot[s][Idx(t)] \in {Nil, t}
(* readers and a writer never overlap; a proc holds at most one read lock *)
LockSane == \A s \in Sides : /\ (rw[s].writer # Nil => \A p \in Procs : rw[s].readers[p] = 0)
                             /\ \A p \in Procs : rw[s].readers[p] <= 1
(* no lock is held across a return to the caller *)
NoLockLeak == \A p \in Procs : stack[p] = <<>> => \A s \in Sides : rw[s].readers[p] = 0 /\ rw[s].writer # p
(* every call terminates (checked under FairSpec) *)
Terminates == <>Finished

Export == Finished => PrintT(<<"SCHED", ToJson([plan |-> plan0.calls, qwarm |-> plan0.qwarm, sched |-> sched])>>)
=============================================================================
