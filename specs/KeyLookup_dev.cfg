\* with the code's original early-match test on the raw key length TLC must FIND the wrong-field counterexample
SPECIFICATION Spec
CONSTANTS
  Chars = {"a","b"}
  MaxName = 2
  MaxFields = 1
  MaxKey = 2
  Deviations = {"RawLenEarlyMatch"}
INVARIANTS Refines
CHECK_DEADLOCK FALSE
