------------------------------ MODULE EncVMTrace ------------------------------
(***************************************************************************)
(* Validation of recorded slot accesses of the real interpreter (hooks in   *)
(* load/store/loadNPtr of the four vm*/util.go, RuntimeContext.Init/Ptr).   *)
(* Events: {"k":"b","plen":N} start of an encoding; {"k":"l"|"s"|"n",       *)
(* "b":frame base slot,"i":slot in frame,"plen":len(ctx.Ptrs)}.             *)
(* Frames are inferred from the frame base: a higher base is a call, a      *)
(* lower one a return to a frame that must be on the stack.  Every access   *)
(* must be inside the array and no load may observe a slot written by a     *)
(* frame that has returned (EncVMRules).  Broken rules are collected with   *)
(* the index of their event and reported at the end.                        *)
(***************************************************************************)
EXTENDS Naturals, Integers, Sequences, TLC, Json, IOUtils, EncVMRules

Trace == ndJsonDeserialize(IOEnv.TRACE_FILE)

VARIABLES i, stack, writer, nextId, bad, runs, done
vars == <<i, stack, writer, nextId, bad, runs, done>>

Init == i = 1 /\ stack = <<[id |-> 1, base |-> 0]>> /\ writer = << >> /\ nextId = 2 /\ bad = <<>> /\ runs = 0 /\ done = FALSE

Begin(e) == /\ stack' = <<[id |-> 1, base |-> 0]>> /\ writer' = << >> /\ nextId' = 2 /\ runs' = runs + 1 /\ bad' = bad

Access(e) ==
  LET b == e.b
      s == e.b + e.i
      isPush == b > TopOf(stack).base
      st1 == IF isPush THEN Append(stack, [id |-> nextId, base |-> b])
             ELSE IF b < TopOf(stack).base THEN PopTo(stack, b) ELSE stack
      rule == IF e.b < 0 \/ e.i < 0 \/ s >= e.plen THEN "access-outside-slot-array"
              ELSE IF st1 = <<>> THEN "return-to-a-frame-that-is-not-on-the-stack"
              ELSE IF e.k # "s" THEN LoadRule(st1, writer, s)
              ELSE "none" IN
  /\ stack' = IF st1 = <<>> THEN <<[id |-> nextId, base |-> b]>> ELSE st1
  /\ nextId' = IF isPush \/ st1 = <<>> THEN nextId + 1 ELSE nextId
  /\ writer' = IF e.k = "s" /\ st1 # <<>> /\ s >= 0
               THEN [x \in DOMAIN writer \cup {s} |-> IF x = s THEN TopOf(st1).id ELSE writer[x]] ELSE writer
  /\ bad' = IF rule = "none" \/ Len(bad) >= 1000 THEN bad ELSE Append(bad, <<i, rule>>)
  /\ runs' = runs

Next ==
  \/ /\ i <= Len(Trace) /\ i' = i + 1 /\ done' = done
     /\ LET e == Trace[i] IN IF e.k = "b" THEN Begin(e) ELSE Access(e)
  \/ /\ i = Len(Trace) + 1 /\ ~done /\ done' = TRUE
     /\ PrintT(<<"TRACE-BADS", ToJson(bad)>>)
     /\ UNCHANGED <<i, stack, writer, nextId, bad, runs>>
Spec == Init /\ [][Next]_vars
TraceAccepted == TLCGet("stats").diameter - 2 = Len(Trace)
=============================================================================
