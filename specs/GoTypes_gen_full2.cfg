SPECIFICATION Spec
CONSTANTS
  MaxSteps = 2
  Leaves = {"bool","int","int8","int16","int32","int64","uint","uint8","uint16","uint32","uint64","uintptr","float32","float64","string","bytes","MarshalerV","MarshalerP","TextV","TextP","Time","Number","Raw","Rec","RecMap","MutualA","UnmarshalerP","TextUnmarshalerP","Empty","PtrField","Scripted"}
  Steps = {"ptr","slice","array0","array1","array2","map_s","map_i","map_t","iface","struct:plain:alone","struct:plain:before-int","struct:plain:before-ptrstr","struct:plain:before-iface","struct:plain:after-int","struct:plain:after-ptrstr","struct:plain:after-iface","struct:omitempty:alone","struct:omitempty:before-int","struct:omitempty:before-ptrstr","struct:omitempty:before-iface","struct:omitempty:after-int","struct:omitempty:after-ptrstr","struct:omitempty:after-iface","struct:string:alone","struct:string:before-int","struct:string:before-ptrstr","struct:string:before-iface","struct:string:after-int","struct:string:after-ptrstr","struct:string:after-iface","struct:omitempty+string:alone","struct:omitempty+string:before-int","struct:omitempty+string:before-ptrstr","struct:omitempty+string:before-iface","struct:omitempty+string:after-int","struct:omitempty+string:after-ptrstr","struct:omitempty+string:after-iface","embedV","embedP","embedV-shadowed","embedP-shadowed"}
INVARIANTS TypeOK EmbedDiscipline Export
CHECK_DEADLOCK FALSE
