\* string / escape / literal alphabet
SPECIFICATION Spec
CONSTANTS
  MaxDepth = 1
  MaxLen = 5
  Alphabet = {"q","bs","u","n","a","hu","oth","CTL","l"}
INVARIANTS TypeOK AgreesWithGrammar RunIsIncremental RejectHasNoStack
PROPERTIES RejectAbsorbing
CHECK_DEADLOCK FALSE
