-------------------------------- MODULE EncVM --------------------------------
(***************************************************************************)
(* Frame discipline of the encoder's opcode interpreter (C08).              *)
(*                                                                         *)
(* The interpreter keeps scratch slots in one array (ctx.Ptrs).  A program  *)
(* addresses slots relative to its frame base.  OpInterface / OpRecursive   *)
(* push a frame for the callee program at  base + extent(caller)  and grow  *)
(* the array to  newBase + extent(callee);  the matching End op returns to  *)
(* the caller's base.  extent(p) is what the compiler DECLARES for program  *)
(* p (TotalLength + 3 / CurLen / NextLen); used(p) is the highest slot p    *)
(* really touches.  Assumption A: used(p) < extent(p).                      *)
(*                                                                         *)
(* TLC explores every sequence of loads, stores, calls and returns for a    *)
(* small set of programs.  Under A: no load ever observes a slot written by *)
(* a frame that has returned (NoStaleLoad), every access is inside the      *)
(* array (InBounds) and a return restores the caller's base.  With the      *)
(* deviation "ExtentTooSmall" (declared extent one short of the slots used, *)
(* as for the recursive/interface length defects) TLC finds the clobber.    *)
(***************************************************************************)
EXTENDS Naturals, Sequences, FiniteSets, TLC, EncVMRules

CONSTANTS Programs,     \* program ids
          UsedP, UsedQ, \* slots really used by program "p" / any other program (indices 0..Used-1)
          MaxDepth, MaxSteps, Deviations

Used(p) == IF p = "p" THEN UsedP ELSE UsedQ
Extent(p) == IF "ExtentTooSmall" \in Deviations THEN Used(p) - 1 ELSE Used(p)

VARIABLES stack,    \* Seq([id, base, prog])
          writer,   \* absolute slot -> frame id
          plen,     \* length of the slot array
          mine,     \* frame id -> absolute slots that frame has stored (a program initialises what it reads)
          nextId, steps, bad
vars == <<stack, writer, plen, mine, nextId, steps, bad>>

Init == /\ \E p \in Programs : stack = <<[id |-> 1, base |-> 0, prog |-> p]>> /\ plen = Used(p)
        /\ writer = << >> /\ mine = [f \in {1} |-> {}] /\ nextId = 2 /\ steps = 0 /\ bad = "none"

Top == TopOf(stack)
Tick == steps < MaxSteps /\ steps' = steps + 1

Store(i) == /\ Tick /\ i < Used(Top.prog)
            /\ writer' = [s \in DOMAIN writer \cup {Top.base + i} |-> IF s = Top.base + i THEN Top.id ELSE writer[s]]
            /\ mine' = [mine EXCEPT ![Top.id] = @ \cup {Top.base + i}]
            /\ bad' = IF bad # "none" THEN bad ELSE IF Top.base + i >= plen THEN "store-outside-array" ELSE "none"
            /\ UNCHANGED <<stack, plen, nextId>>
Load(i) ==  /\ Tick /\ i < Used(Top.prog)
            /\ Top.base + i \in mine[Top.id]                   \* program discipline: a frame reads only what it stored
            /\ bad' = IF bad # "none" THEN bad
                      ELSE IF Top.base + i >= plen THEN "load-outside-array"
                      ELSE LoadRule(stack, writer, Top.base + i)
            /\ UNCHANGED <<stack, writer, plen, mine, nextId>>
Call(q) ==  /\ Tick /\ Len(stack) < MaxDepth
            /\ LET nb == Top.base + Extent(Top.prog) IN
               /\ stack' = Append(stack, [id |-> nextId, base |-> nb, prog |-> q])
               /\ plen' = IF plen < nb + Used(q) THEN nb + Used(q) ELSE plen      \* the array is grown for the callee
            /\ nextId' = nextId + 1
            /\ mine' = [f \in DOMAIN mine \cup {nextId} |-> IF f = nextId THEN {} ELSE mine[f]]
            /\ UNCHANGED <<writer, bad>>
Return ==   /\ Tick /\ Len(stack) > 1
            /\ stack' = SubSeq(stack, 1, Len(stack) - 1)
            /\ UNCHANGED <<writer, plen, mine, nextId, bad>>
Next == (\E i \in 0..3 : Store(i) \/ Load(i)) \/ (\E q \in Programs : Call(q)) \/ Return
Spec == Init /\ [][Next]_vars

NoStaleLoad == bad # "load-of-slot-written-by-a-returned-frame"
InBounds    == bad \notin {"store-outside-array", "load-outside-array"}
FramesDisjoint ==
  \A k \in 1..(Len(stack) - 1) : stack[k].base + Used(stack[k].prog) <= stack[k + 1].base
ReturnRestoresBase == [][Len(stack') < Len(stack) => TopOf(stack') = stack[Len(stack) - 1]]_vars
=============================================================================
