SPECIFICATION Spec
CONSTANTS
  MaxPaths = 2
  MaxHist = 2
  Deviations = {}
INVARIANTS ResultDependsOnQueryOnly StoredTreeUntouched
CHECK_DEADLOCK FALSE
