SPECIFICATION Spec
CONSTANTS
  MaxPaths = 2
  MaxHist = 3
  Deviations = {}
INVARIANTS ResultDependsOnQueryOnly StoredTreeUntouched
CHECK_DEADLOCK FALSE
