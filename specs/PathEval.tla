------------------------------ MODULE PathEval ------------------------------
(***************************************************************************)
(* JSON Path: reference grammar, reference evaluation, and the evaluation   *)
(* cursor kept inside a reusable Path object (C20).                         *)
(*                                                                         *)
(* (a) Grammar (the one documented above CreatePath):                       *)
(*       path := "$" sel*                                                   *)
(*       sel  := "." name | ".." name | "[" digits "]" | "[*]"              *)
(*             | "['" qname "']" | ".\"" qname "\""                          *)
(*     Parse is a recursive-descent parser over a character sequence and     *)
(*     returns the selector list or Bad.                                     *)
(* (b) Eval: child, index, wildcard (elements of an array / member values    *)
(*     of an object), recursive descent with RFC 9535 meaning (every member  *)
(*     of that name at any depth, in document order).                        *)
(* (c) The Path object keeps a cursor that evaluation advances; the design   *)
(*     restores it on every exit.  "NoRestoreOnError" in Deviations models   *)
(*     the code as it is (restored on the success path only): TLC then finds *)
(*     a history whose result differs from the reference.                    *)
(*                                                                         *)
(* Documents are tagged trees; Text renders them as compact JSON so that     *)
(* the exported cases can be replayed into the real library.                 *)
(***************************************************************************)
EXTENDS Naturals, Sequences, TLC, Json

CONSTANTS PathChars, MaxPathLen, Deviations

Bad == <<[kind |-> "BAD", name |-> "", idx |-> 0]>>
NameChars == {"a","b","0","1"}
Digits == {"0","1"}

Sel(k, n) == [kind |-> k, name |-> n, idx |-> 0]

RECURSIVE TakeWhile(_, _)
TakeWhile(s, set) == IF s # <<>> /\ Head(s) \in set THEN <<Head(s)>> \o TakeWhile(Tail(s), set) ELSE <<>>
Drop(s, n) == SubSeq(s, n + 1, Len(s))
RECURSIVE Join(_)
Join(cs) == IF cs = <<>> THEN "" ELSE Head(cs) \o Join(Tail(cs))
(* index literals over {0,1} are read as DECIMAL numbers: "10" is ten.  Only 0, 1, 10, 11 occur within the bounds. *)
DecVal(ds) == IF ds = <<"0">> THEN 0 ELSE IF ds = <<"1">> THEN 1 ELSE IF ds = <<"1","0">> THEN 10 ELSE IF ds = <<"1","1">> THEN 11 ELSE 99

RECURSIVE ParseSels(_)
(* s is what follows "$" (or a previous selector); returns a selector list or Bad *)
ParseSels(s) ==
  IF s = <<>> THEN <<>>
  ELSE LET rest(sel, tail) == LET r == ParseSels(tail) IN IF r = Bad THEN Bad ELSE <<sel>> \o r IN
  IF Head(s) = "." THEN
     LET t == Tail(s) IN
     IF t = <<>> THEN Bad
     ELSE IF Head(t) = "." THEN                       \* ..name
          LET nm == TakeWhile(Tail(t), NameChars) IN
          IF nm = <<>> THEN Bad ELSE rest(Sel("rec", Join(nm)), Drop(Tail(t), Len(nm)))
     ELSE IF Head(t) = "\"" THEN                      \* ."quoted"
          LET q == TakeWhile(Tail(t), NameChars \cup {"."}) IN
          IF q = <<>> \/ Len(Tail(t)) <= Len(q) \/ Tail(t)[Len(q) + 1] # "\"" THEN Bad
          ELSE rest(Sel("child", Join(q)), Drop(Tail(t), Len(q) + 1))
     ELSE LET nm == TakeWhile(t, NameChars) IN        \* .name
          IF nm = <<>> THEN Bad ELSE rest(Sel("child", Join(nm)), Drop(t, Len(nm)))
  ELSE IF Head(s) = "[" THEN
     LET t == Tail(s) IN
     IF t = <<>> THEN Bad
     ELSE IF Head(t) = "*" THEN
          IF Len(t) >= 2 /\ t[2] = "]" THEN rest(Sel("all", ""), Drop(t, 2)) ELSE Bad
     ELSE IF Head(t) = "'" THEN                        \* ['quoted']
          LET q == TakeWhile(Tail(t), NameChars \cup {"."}) IN
          IF q = <<>> \/ Len(Tail(t)) < Len(q) + 2 \/ Tail(t)[Len(q) + 1] # "'" \/ Tail(t)[Len(q) + 2] # "]" THEN Bad
          ELSE rest(Sel("child", Join(q)), Drop(Tail(t), Len(q) + 2))
     ELSE LET ds == TakeWhile(t, Digits) IN            \* [n]: unsigned decimal without leading zeros
          IF ds = <<>> \/ (Len(ds) > 1 /\ ds[1] = "0") \/ Len(t) <= Len(ds) \/ t[Len(ds) + 1] # "]" THEN Bad
          ELSE rest([kind |-> "index", name |-> Join(ds), idx |-> DecVal(ds)], Drop(t, Len(ds) + 1))
  ELSE Bad

Parse(s) == IF s = <<>> \/ Head(s) # "$" THEN Bad ELSE ParseSels(Tail(s))

-----------------------------------------------------------------------------
(* documents: uniform records  [t, keys, vals, v]  *)
Num(n)      == [t |-> "num", keys |-> <<>>, vals |-> <<>>, v |-> n]
Str(x)      == [t |-> "str", keys |-> <<>>, vals |-> <<>>, v |-> x]
Arr(es)     == [t |-> "arr", keys |-> <<>>, vals |-> es, v |-> 0]
Obj(ks, vs) == [t |-> "obj", keys |-> ks, vals |-> vs, v |-> 0]

RECURSIVE Text(_), TextList(_, _, _)
Text(d) ==
  CASE d.t = "num" -> ToString(d.v)
    [] d.t = "str" -> "\"" \o d.v \o "\""
    [] d.t = "arr" -> "[" \o TextList(<<>>, d.vals, 1) \o "]"
    [] d.t = "obj" -> "{" \o TextList(d.keys, d.vals, 1) \o "}"
TextList(ks, vs, i) ==
  IF i > Len(vs) THEN ""
  ELSE (IF i > 1 THEN "," ELSE "") \o (IF ks # <<>> THEN "\"" \o ks[i] \o "\":" ELSE "") \o Text(vs[i]) \o TextList(ks, vs, i + 1)

RECURSIVE Descend(_, _), DescendList(_, _, _)
(* every member value named n at any depth, document order (pre-order) *)
Descend(d, n) ==
  IF d.t = "obj" THEN DescendList(d, n, 1)
  ELSE IF d.t = "arr" THEN DescendList(d, n, 1)
  ELSE <<>>
DescendList(d, n, i) ==
  IF i > Len(d.vals) THEN <<>>
  ELSE (IF d.t = "obj" /\ d.keys[i] = n THEN <<d.vals[i]>> ELSE <<>>) \o Descend(d.vals[i], n) \o DescendList(d, n, i + 1)

Step1(d, sel) ==
  CASE sel.kind = "child" -> IF d.t = "obj" /\ \E i \in DOMAIN d.keys : d.keys[i] = sel.name
                             THEN <<d.vals[CHOOSE i \in DOMAIN d.keys : d.keys[i] = sel.name]>> ELSE <<>>
    [] sel.kind = "index" -> IF d.t = "arr" /\ sel.idx + 1 <= Len(d.vals) THEN <<d.vals[sel.idx + 1]>> ELSE <<>>
    [] sel.kind = "all"   -> IF d.t \in {"arr", "obj"} THEN d.vals ELSE <<>>
    [] sel.kind = "rec"   -> Descend(d, sel.name)

RECURSIVE StepAll(_, _)
StepAll(ds, sel) == IF ds = <<>> THEN <<>> ELSE Step1(Head(ds), sel) \o StepAll(Tail(ds), sel)
RECURSIVE EvalFrom(_, _, _)
EvalFrom(ds, sels, i) == IF i > Len(sels) THEN ds ELSE EvalFrom(StepAll(ds, sels[i]), sels, i + 1)
Eval(sels, d) == EvalFrom(<<d>>, sels, 1)

Docs == <<
  Obj(<<"a","b">>, <<Obj(<<"a","b">>, <<Num(1), Arr(<<Num(2), Obj(<<"a">>, <<Num(3)>>)>>)>>), Arr(<<Obj(<<"a">>, <<Num(4)>>), Obj(<<"a","b">>, <<Arr(<<Num(5)>>), Num(6)>>)>>)>>),
  Arr(<<Arr(<<Num(1), Num(2)>>), Obj(<<"a">>, <<Arr(<<Num(3)>>)>>), Str("s"), Arr(<<Obj(<<"0","1">>, <<Num(7), Num(8)>>)>>)>>),
  Obj(<<"0","1","a.b","b">>, <<Num(5), Obj(<<"a">>, <<Str("x")>>), Num(9), Obj(<<"b">>, <<Obj(<<"b">>, <<Num(0)>>)>>)>>),
  Num(7),
  (* strings that a careless value scanner trips over: ending in an escaped backslash, holding brackets, commas and an escaped quote *)
  Arr(<<Str("c:\\\\"), Str("]"), Obj(<<"a","b">>, <<Str(",\\\"{"), Arr(<<Str("\\\\"), Num(1)>>)>>), Num(9)>>)
>>

RECURSIVE Texts(_)
Texts(ds) == IF ds = <<>> THEN <<>> ELSE <<Text(Head(ds))>> \o Texts(Tail(ds))

-----------------------------------------------------------------------------
(* part 1: enumerate path strings *)
VARIABLES path
Init == path = <<>>
Next == Len(path) < MaxPathLen /\ \E c \in PathChars : path' = Append(path, c)
Spec == Init /\ [][Next]_path

Accepted == Parse(path) # Bad
(* a well-formed path evaluates to sub-documents of the document, in document order: results are values that occur in it *)
ExportPath ==
  PrintT(<<"PATH", ToJson([path |-> Join(path), accept |-> Accepted,
                           results |-> IF Accepted THEN [i \in 1..Len(Docs) |-> Texts(Eval(Parse(path), Docs[i]))] ELSE <<>>])>>)
(* parsing never accepts a string with unbalanced brackets or quotes *)
Balanced ==
  Accepted => LET cnt(c) == Len(SelectSeq(path, LAMBDA x : x = c)) IN cnt("[") = cnt("]") /\ cnt("'") % 2 = 0 /\ cnt("\"") % 2 = 0
(* the root alone selects the document itself *)
RootSelectsAll == path = <<"$">> => \A i \in 1..Len(Docs) : Eval(Parse(path), Docs[i]) = <<Docs[i]>>
ASSUME PrintT(<<"DOCS", ToJson(Texts(Docs))>>)

(* part 2: longer paths, enumerated at the selector level (each selector in its concrete spelling) *)
CONSTANT MaxSelectors
SelTexts == { <<".","a">>, <<".","b">>, <<".",".","a">>, <<".",".","b">>, <<"[","0","]">>, <<"[","1","]">>, <<"[","*","]">>,
              <<"[","'","a",".","b","'","]">>, <<".","\"","b","\"">>, <<".","0">> }
RECURSIVE SelSeqs(_)
SelSeqs(n) == IF n = 0 THEN {<<>>} ELSE SelSeqs(n - 1) \cup { s \o t : s \in { x \in SelSeqs(n - 1) : TRUE }, t \in SelTexts }
LongPaths == { <<"$">> \o s : s \in SelSeqs(MaxSelectors) }
ASSUME \A lp \in LongPaths : Parse(lp) # Bad
ASSUME \A lp \in LongPaths :
  PrintT(<<"PATH", ToJson([path |-> Join(lp), accept |-> TRUE,
                           results |-> [i \in 1..Len(Docs) |-> Texts(Eval(Parse(lp), Docs[i]))]])>>)
=============================================================================
