---------------------------- MODULE StreamDecoder ----------------------------
(***************************************************************************)
(* The refillable window of go-json's stream decoder                        *)
(* (internal/decoder/stream.go: Stream{buf,bufSize,length,offset,cursor,    *)
(* filledBuffer,allRead}; read()/readBuf()/reset()/Reset() and the in-place *)
(* edits of internal/decoder/string.go).                                    *)
(*                                                                         *)
(* The document is abstracted to its byte POSITIONS 1..DocLen; the buffer   *)
(* holds positions (0 = NUL/zero byte).  One action per step of the code:   *)
(*   Read(n, e)    one call of read(): optional doubling, recount of the    *)
(*                 live region, sentinel store, r.Read delivering n bytes   *)
(*                 with result e \in {"ok","eof","fail"}                    *)
(*   Consume       the scanner advances over one byte                       *)
(*   Unescape(k,j) k source bytes at the cursor become j < k bytes in place *)
(*                 (escape sequences): buffer and length shrink by k-j      *)
(*   Reset         reset()+Reset() after a value: drop the consumed prefix  *)
(* A reader process decides n and e; every interleaving is explored.        *)
(***************************************************************************)
EXTENDS Naturals, Sequences, FiniteSets, TLC, StreamIdx

CONSTANTS DocLen,     \* bytes in the input
          InitBuf,    \* initial buffer size (512 in the code)
          MaxBuf      \* exploration bound on the buffer size

VARIABLES buf,        \* Seq(0..DocLen): buffer contents, 0 = NUL
          cursor, length, offset, bufSize, filled, allRead,   \* the Stream fields (cursor, length 0-based as in Go)
          rpos,       \* bytes delivered by the reader so far
          rstate,     \* "open", "eof", "failed"
          gone,       \* history: positions consumed by the scanner or removed by Unescape
          shrunk      \* history: total bytes removed by Unescape
vars == <<buf, cursor, length, offset, bufSize, filled, allRead, rpos, rstate, gone, shrunk>>

Zeros(n) == [i \in 1..n |-> 0]
At(i)    == buf[i + 1]                       \* Go index i
Min(a, b) == IF a < b THEN a ELSE b

Init ==
  /\ buf = Zeros(InitBuf) /\ cursor = 0 /\ length = 0 /\ offset = 0
  /\ bufSize = InitBuf /\ filled = FALSE /\ allRead = FALSE
  /\ rpos = 0 /\ rstate = "open" /\ gone = {} /\ shrunk = 0

(* number of non-NUL bytes from the cursor, at most length - cursor (readBuf) *)
RECURSIVE CountLive(_, _, _)
CountLive(b, i, lim) == IF i >= lim \/ b[i + 1] = 0 THEN 0 ELSE 1 + CountLive(b, i + 1, lim)

(* read(): only called when the scanner sits on a NUL and ~allRead *)
Read(n, e) ==
  /\ ~allRead /\ rstate = "open"
  /\ At(cursor) = 0 \/ cursor < length        \* called at the sentinel, or by readAtLeast with data ahead
  /\ LET grown   == IF filled THEN buf \o Zeros(2 * bufSize - Len(buf)) ELSE buf   \* make(2*bufSize); copy
         newSize == IF filled THEN 2 * bufSize ELSE bufSize
         live    == CountLive(grown, cursor, length)
         len1    == cursor + live
         free    == Len(grown) - len1
         last    == free - 1
     IN /\ free >= 1                                                     \* else buf[last] panics (checked as invariant)
        /\ newSize <= MaxBuf
        /\ n <= last /\ n <= DocLen - rpos
        /\ (e = "ok" => n >= 0) /\ (e = "fail" => TRUE)
        /\ buf' = [i \in 1..Len(grown) |->
                     IF i = Len(grown) THEN 0                            \* buf[last] = nul
                     ELSE IF i > len1 /\ i <= len1 + n THEN rpos + (i - len1)
                     ELSE grown[i]]
        /\ length' = len1 + n
        /\ filled' = (n = last)
        /\ bufSize' = newSize
        /\ allRead' = (e = "eof")
        /\ rpos' = rpos + n
        /\ rstate' = IF e = "eof" THEN "eof" ELSE IF e = "fail" THEN "failed" ELSE "open"
  /\ UNCHANGED <<cursor, offset, gone, shrunk>>

Consume ==
  /\ cursor < length /\ At(cursor) # 0
  /\ cursor' = cursor + 1
  /\ gone' = gone \cup {At(cursor)}
  /\ UNCHANGED <<buf, length, offset, bufSize, filled, allRead, rpos, rstate, shrunk>>

(* k source bytes starting at the cursor are replaced by their first j bytes (j < k) *)
Unescape(k, j) ==
  /\ j < k /\ j >= 1 /\ cursor + k <= length
  /\ \A i \in cursor..(cursor + k - 1) : At(i) # 0
  /\ buf' = SubSeq(buf, 1, cursor + j) \o SubSeq(buf, cursor + k + 1, Len(buf))
  /\ length' = length - (k - j)
  /\ cursor' = cursor + j
  /\ gone' = gone \cup {At(i) : i \in cursor..(cursor + k - 1)}
  /\ shrunk' = shrunk + (k - j)
  /\ UNCHANGED <<offset, bufSize, filled, allRead, rpos, rstate>>

Reset ==
  /\ cursor > 0
  /\ offset' = offset + cursor
  /\ buf' = SubSeq(buf, cursor + 1, Len(buf))
  /\ length' = length - cursor
  /\ cursor' = 0
  /\ bufSize' = Len(buf) - cursor
  /\ UNCHANGED <<filled, allRead, rpos, rstate, gone, shrunk>>

Next ==
  \/ \E n \in 0..DocLen : \E e \in {"ok", "eof", "fail"} : Read(n, e)
  \/ Consume
  \/ \E k \in 2..4 : \E j \in 1..3 : Unescape(k, j)
  \/ Reset

Spec == Init /\ [][Next]_vars

-----------------------------------------------------------------------------
Live == { At(i) : i \in cursor..(length - 1) }

Bounds       == cursor <= length /\ length < Len(buf) /\ Len(buf) <= bufSize
Sentinel     == At(length) = 0                                      \* the scanner always finds a NUL at the end
NoHoles      == \A i \in cursor..(length - 1) : At(i) # 0
(* every delivered byte is either still in the live window or was consumed / unescaped away, exactly once *)
Conservation == /\ Live \cup gone = 1..rpos
                /\ Live \cap gone = {}
                /\ \A i \in cursor..(length - 2) : At(i) < At(i + 1)   \* in document order
(* index form of conservation (what the trace validator re-checks on real runs) *)
IndexConservation == offset + length + shrunk = rpos
(* the real number of input bytes consumed; InputOffset() reports offset+cursor, i.e. misses `shrunk` *)
ConsumedBytes == Cardinality(gone)
OffsetAccounting == offset + cursor + shrunk = ConsumedBytes
(* a read can always store its sentinel *)
ReadNeverPanics == ~allRead => Len(buf) - length >= 1
(* the content-level Read and Reset agree with the index-level arithmetic used for trace validation *)
ReadRefinesIdx ==
  [][(rpos' # rpos \/ allRead' # allRead \/ rstate' # rstate \/ Len(buf') > Len(buf)) =>
       LET r == ReadIdx(length, Len(buf), bufSize, filled, rpos' - rpos) IN
         /\ Len(buf') = r.buflen /\ bufSize' = r.bufSize /\ length' = r.length /\ filled' = r.filled
         /\ rpos' - rpos <= r.maxn]_vars
ResetRefinesIdx ==
  [][(offset' # offset) =>
       LET r == ResetIdx(cursor, length, Len(buf), offset) IN
         /\ offset' = r.offset /\ length' = r.length /\ Len(buf') = r.buflen /\ cursor' = r.cursor]_vars
(* the buffer never shrinks below what is live, and only Reset / Unescape make it smaller *)
GrowthOnly == [][Len(buf') >= Len(buf) \/ cursor' = 0 \/ shrunk' > shrunk]_vars
=============================================================================
