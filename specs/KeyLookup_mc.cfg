SPECIFICATION Spec
CONSTANTS
  Chars = {"a","A","b","_"}
  MaxName = 2
  MaxFields = 2
  MaxKey = 3
  Deviations = {}
INVARIANTS Refines SpellingIrrelevant NeverPrefixOrExtension
CHECK_DEADLOCK FALSE
