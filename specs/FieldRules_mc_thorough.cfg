SPECIFICATION Spec
CONSTANTS
  MaxFields1 = 3
  MaxFields2 = 2
  MaxFields3 = 2
INVARIANTS NamesUnique DirectWins HiddenStayHidden Export
CHECK_DEADLOCK FALSE
