SPECIFICATION Spec
CONSTANTS
  Chars = {"a","A","b"}
  MaxName = 2
  MaxFields = 2
  MaxKey = 2
  Deviations = {}
INVARIANTS Export
CHECK_DEADLOCK FALSE
