\* the tail zero-fill with pointer-sized stores must be FOUND
SPECIFICATION Spec
CONSTANTS
  FieldKinds = {"t1","t2","s8"}
  MaxFields = 2
  Deviations = {"PointerSizedNullStore"}
INVARIANTS WritesInsideAddressed
CHECK_DEADLOCK FALSE
