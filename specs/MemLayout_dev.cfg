\* the tail zero-fill with pointer-sized stores must be FOUND
SPECIFICATION Spec
CONSTANTS
  FieldKinds = {"a4x1", "s8"}
  MaxFields = 2
  Deviations = {"PointerSizedZeroFill"}
INVARIANTS WritesInsideAddressed
CHECK_DEADLOCK FALSE
