SPECIFICATION Spec
CONSTANTS
  MaxPaths = 3
  MaxHist = 3
  Deviations = {}
INVARIANTS ResultDependsOnQueryOnly StoredTreeUntouched
CHECK_DEADLOCK FALSE
