SPECIFICATION Spec
CONSTANTS
  Sizes = {3, 4, 7}
  Align = 1
  MaxTypes = 3
  Start = 8
  Cap = 1000
  Deviations = {"Align16"}
INVARIANTS Injective
CHECK_DEADLOCK FALSE
