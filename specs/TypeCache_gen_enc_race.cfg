SPECIFICATION GenSpec
CONSTANTS
  Procs = {"g1", "g2"}
  FastTypes = {"A", "Q"}
  SlowTypes = {"H", "J"}
  QType = "Q"
  Sides = {"enc"}
  Variant = "race"
  MaxCalls = 1
  Deviations = {}
INVARIANTS OwnProgram SlotOwner Export
