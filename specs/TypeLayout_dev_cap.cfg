SPECIFICATION Spec
CONSTANTS
  Sizes = {3, 4, 7}
  Align = 2
  MaxTypes = 3
  Start = 8
  Cap = 1
  Deviations = {"CappedShift"}
INVARIANTS Injective
CHECK_DEADLOCK FALSE
