------------------------- MODULE JsonTransformExport -------------------------
(* Serialises JsonText's table plus the Compact / Indent emission tables.   *)
EXTENDS JsonTransform, Json

TableRows == { [m |-> m, t |-> t, c |-> c,
                m2 |-> StepFn(m, t, c).mode, op |-> StepFn(m, t, c).op] :
               m \in Modes, t \in Tops, c \in Sym }
ClassRows == { [b |-> x, c |-> ClassOf(x)] : x \in 0..255 }
CompactRows == { [m |-> m, t |-> t, c |-> c, emit |-> CompactEmit(m, t, c)] :
                 m \in Modes, t \in Tops, c \in Sym }
IndentRows == { [m |-> m, t |-> t, c |-> c, need |-> n,
                 emit |-> IndentStep(m, t, c, n).emit, need2 |-> IndentStep(m, t, c, n).need] :
                m \in Modes, t \in Tops, c \in Sym, n \in BOOLEAN }

ASSUME PrintT(<<"EXPORT-TABLE", ToJson(TableRows)>>)
ASSUME PrintT(<<"EXPORT-CLASSES", ToJson(ClassRows)>>)
ASSUME PrintT(<<"EXPORT-NUMDONE", ToJson(NumDone)>>)
ASSUME PrintT(<<"EXPORT-COMPACT", ToJson(CompactRows)>>)
ASSUME PrintT(<<"EXPORT-INDENT", ToJson(IndentRows)>>)
=============================================================================
