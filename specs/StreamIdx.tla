------------------------------ MODULE StreamIdx ------------------------------
(* Index-level arithmetic of the stream window, shared by StreamDecoder (the *)
(* protocol model, where it is checked against the content-level actions)    *)
(* and StreamTrace (validation of recorded runs of the real decoder).        *)
EXTENDS Naturals

(* read(): l = length, bl = len(buf), bs = bufSize, f = filledBuffer, n = bytes delivered.
   Assumes the live region has no embedded NUL (invariant NoHoles of StreamDecoder). *)
ReadIdx(l, bl, bs, f, n) ==
  LET nbl == IF f THEN 2 * bs ELSE bl IN
  [ buflen  |-> nbl,
    bufSize |-> IF f THEN 2 * bs ELSE bs,
    length  |-> l + n,
    maxn    |-> nbl - l - 1,                 \* room before the sentinel byte
    filled  |-> (n = nbl - l - 1) ]

(* reset(): drop the consumed prefix *)
ResetIdx(c, l, bl, o) ==
  [ offset |-> o + c, length |-> l - c, buflen |-> bl - c, cursor |-> 0 ]
=============================================================================
