SPECIFICATION Spec
CONSTANTS
  MaxDigits = 3
  NegX = 45
  MaxX = 39
CHECK_DEADLOCK FALSE
