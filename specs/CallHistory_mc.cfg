SPECIFICATION Spec
CONSTANTS
  Kinds = {"plain","indent","option","fail","panic","decode"}
  MaxCalls = 4
  MaxCtx = 2
  ResetSet = {"buf", "flags", "payload", "indent", "seen", "refs"}
  Deviations = {}
INVARIANTS NoStaleRead ResultsStable
CHECK_DEADLOCK FALSE
