\* an entry point that forgets to re-initialise the indent state: TLC must find the stale read
SPECIFICATION Spec
CONSTANTS
  Kinds = {"plain","indent","fail"}
  MaxCalls = 3
  MaxCtx = 1
  ResetSet = {"buf", "flags", "payload", "seen", "refs"}
  Deviations = {}
INVARIANTS NoStaleRead
CHECK_DEADLOCK FALSE
