---------------------------- MODULE JsonTransform ----------------------------
(***************************************************************************)
(* Compact and Indent as transducers riding on the JsonText recogniser.    *)
(*                                                                         *)
(* Per consumed input byte the transducer appends a (possibly empty) list  *)
(* of output operations:                                                   *)
(*    "copy"   the input byte itself                                       *)
(*    "SP"     one space (after a structural colon, Indent only)           *)
(*    "NL"     newline + prefix + indent x depth                           *)
(*    "NLinc"  depth := depth + 1, then NL   (deferred indent after [ / {) *)
(*    "NLdec"  depth := depth - 1, then NL   (before a non-empty closer)   *)
(* The rules are those of encoding/json (scanner-driven appendCompact /    *)
(* appendIndent): white space outside strings is dropped, except that      *)
(* Indent preserves white space FOLLOWING the top-level value; empty       *)
(* containers stay closed; an invalid text produces no output at all.      *)
(*                                                                         *)
(* TLC checks on all inputs up to MaxLen over the configured alphabet:     *)
(*   output of a valid text is a valid text; Compact and Indent are        *)
(*   idempotent; Compact(Indent(x)) = Compact(x); an invalid text yields   *)
(*   "ERR".  The per-transition emission tables are exported to the Go     *)
(* harness, which applies them to concrete bytes, prefixes and indents.    *)
(***************************************************************************)
EXTENDS JsonText

StrModes == {"S","SE","U1","U2","U3","U4"}

(* white space following the top-level value *)
Trailing(m, t) == t = "-" /\ (m = "AFT" \/ m \in NumDone)

(* ---- Compact: emission depends on (mode, top, class) only ---- *)
CompactEmit(m, t, c) ==
  IF StepFn(m, t, c).mode = "REJ" THEN <<>>
  ELSE IF c \in WS /\ m \notin StrModes THEN <<>>
  ELSE <<"copy">>

(* ---- Indent: emission depends on (mode, top, class, needIndent) ---- *)
IndentStep(m, t, c, need) ==
  LET r == StepFn(m, t, c) IN
  IF r.mode = "REJ" THEN [emit |-> <<>>, need |-> need]
  ELSE IF c \in WS /\ m \notin StrModes
       THEN [emit |-> IF Trailing(m, t) THEN <<"copy">> ELSE <<>>, need |-> need]
  ELSE IF r.op = "pop"
       THEN [emit |-> IF need THEN <<"copy">> ELSE <<"NLdec", "copy">>, need |-> FALSE]
  ELSE LET pre == IF need THEN <<"NLinc">> ELSE <<>> IN
       CASE r.op \in {"pushA", "pushK"} -> [emit |-> pre \o <<"copy">>, need |-> TRUE]
         [] c = "cm" /\ m \notin StrModes -> [emit |-> pre \o <<"copy", "NL">>, need |-> FALSE]
         [] r.op = "toO"                  -> [emit |-> pre \o <<"copy", "SP">>, need |-> FALSE]
         [] OTHER                         -> [emit |-> pre \o <<"copy">>, need |-> FALSE]

-----------------------------------------------------------------------------
(* Whole-string transducers over byte classes.  Output items are either a   *)
(* <<"c", class>> (copied byte), <<"SP", 0>>, or <<"NL", depth>>.          *)

Err == << <<"ERR", 0>> >>        \* the result for an invalid text: no output

RECURSIVE CompactFrom(_, _, _)
CompactFrom(cfg, s, out) ==
  IF s = <<>> THEN (IF Accepting(cfg) THEN out ELSE Err)
  ELSE LET c == Head(s)
           n == Step(cfg, c)
           e == CompactEmit(cfg[1], Top(cfg[2]), c) IN
       IF n[1] = "REJ" THEN Err
       ELSE CompactFrom(n, Tail(s), IF e = <<>> THEN out ELSE Append(out, <<"c", c>>))
CompactOf(s) == CompactFrom(<<"V", <<>>>>, s, <<>>)

RECURSIVE ApplyOps(_, _, _, _)
(* returns <<out, depth>> *)
ApplyOps(ops, c, out, d) ==
  IF ops = <<>> THEN <<out, d>>
  ELSE LET o == Head(ops) IN
       CASE o = "copy"  -> ApplyOps(Tail(ops), c, Append(out, <<"c", c>>), d)
         [] o = "SP"    -> ApplyOps(Tail(ops), c, Append(out, <<"SP", 0>>), d)
         [] o = "NL"    -> ApplyOps(Tail(ops), c, Append(out, <<"NL", d>>), d)
         [] o = "NLinc" -> ApplyOps(Tail(ops), c, Append(out, <<"NL", d + 1>>), d + 1)
         [] o = "NLdec" -> ApplyOps(Tail(ops), c, Append(out, <<"NL", d - 1>>), d - 1)

RECURSIVE IndentFrom(_, _, _, _, _)
IndentFrom(cfg, s, out, need, d) ==
  IF s = <<>> THEN (IF Accepting(cfg) THEN out ELSE Err)
  ELSE LET c == Head(s)
           n == Step(cfg, c)
           r == IndentStep(cfg[1], Top(cfg[2]), c, need)
           a == ApplyOps(r.emit, c, out, d) IN
       IF n[1] = "REJ" THEN Err
       ELSE IndentFrom(n, Tail(s), a[1], r.need, a[2])
IndentOf(s) == IndentFrom(<<"V", <<>>>>, s, <<>>, FALSE, 0)

(* render an output as input again, for prefix = "" and indent = one space *)
RECURSIVE Render(_)
Render(out) ==
  IF out = <<>> THEN <<>>
  ELSE LET h == Head(out) IN
       (IF h[1] = "SP" THEN <<"sp">>
        ELSE IF h[1] = "c" THEN <<h[2]>>
        ELSE <<"wc">> \o [i \in 1..h[2] |-> "sp"]) \o Render(Tail(out))

-----------------------------------------------------------------------------
(* Properties, evaluated in every state of JsonText's transition system     *)
(* (i.e. for every input string up to MaxLen over Alphabet).                *)

ErrorIffInvalid ==
  /\ (CompactOf(inp) = Err) <=> ~Accepts(inp)
  /\ (IndentOf(inp)  = Err) <=> ~Accepts(inp)

OutputIsValid ==
  Accepts(inp) => /\ Accepts(Render(CompactOf(inp)))
                  /\ Accepts(Render(IndentOf(inp)))

CompactIdempotent ==
  Accepts(inp) => CompactOf(Render(CompactOf(inp))) = CompactOf(inp)

IndentIdempotent ==
  Accepts(inp) => IndentOf(Render(IndentOf(inp))) = IndentOf(inp)

CompactAfterIndent ==
  Accepts(inp) => CompactOf(Render(IndentOf(inp))) = CompactOf(inp)

(* Compact output has no white space outside strings: re-indenting it and    *)
(* compacting again is the identity (no information was lost).               *)
CompactDropsOnlySpace ==
  Accepts(inp) => LET co == CompactOf(inp) IN
                    Len(co) <= Len(inp) /\ (\A i \in DOMAIN co : co[i][1] = "c")

(* NL depths never go negative and end at 0 *)
IndentDepthOK ==
  Accepts(inp) => LET io == IndentOf(inp) IN
                    \A i \in DOMAIN io : io[i][1] = "NL" => io[i][2] >= 0
=============================================================================
