SPECIFICATION GenSpec
CONSTANTS
  Procs = {"g1", "g2", "g3"}
  FastTypes = {"A", "B"}
  SlowTypes = {"H", "J"}
  QType = ""
  Sides = {"dec"}
  Variant = "norace"
  MaxCalls = 1
  Deviations = {}
INVARIANTS OwnProgram SlotOwner Export
