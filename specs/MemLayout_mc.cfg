SPECIFICATION Spec
CONSTANTS
  FieldKinds = {"s1","s2","s4","s8","hdr16","hdr24","a2x1","a3x1","a4x1","a2x2","a3x3","a2x4","a2x8","a3x5","a2x12","a2x16","a2x24","a1x64","q1","q2","q4","q8","t1","t2","t4"}
  MaxFields = 2
  Deviations = {}
INVARIANTS WritesInsideAddressed GuardsUntouched ArrayFullyDefined Export
CHECK_DEADLOCK FALSE
