------------------------------ MODULE IntCodec ------------------------------
(***************************************************************************)
(* Exact conversion between JSON integer literals and Go's fixed-width      *)
(* integer kinds (C16).                                                     *)
(*                                                                         *)
(* TLC integers are 32-bit, so numbers are DIGIT SEQUENCES (most            *)
(* significant digit first).  Range bounds are 2^bits (- 1): the powers of   *)
(* two are checked by repeated doubling, and an ASSUME cross-checks the     *)
(* resulting bounds against the familiar decimal constants.                 *)
(*                                                                         *)
(* A literal is [neg, digits, form] with form one of                        *)
(*   "int"        -?digits                                                  *)
(*   "bare-minus" "-" alone                    (not a JSON number)           *)
(*   "plus"       +digits                      (not a JSON number)           *)
(*   "frac"       digits.0   "exp"  digits e0  (numbers, but not integers)   *)
(* Leading zeros make an "int" literal ill-formed unless it is exactly 0.    *)
(*                                                                         *)
(* Fits(lit, kind) is the reference verdict: decoding must succeed with     *)
(* exactly the literal's value iff Fits, and must report an error           *)
(* otherwise.  The transition system walks kind -> literal -> parsed ->     *)
(* printed; every "parsed" state is exported as one conformance case.       *)
(***************************************************************************)
EXTENDS Naturals, Sequences, TLC, Json

CONSTANTS Width,      \* neighbourhood explored around every bound: bound - Width .. bound + Width
          MaxDigits   \* longest literal explored

Kinds == {"int8","int16","int32","int64","uint8","uint16","uint32","uint64"}
Bits(k) == CASE k \in {"int8","uint8"} -> 8 [] k \in {"int16","uint16"} -> 16
             [] k \in {"int32","uint32"} -> 32 [] OTHER -> 64
Signed(k) == k \in {"int8","int16","int32","int64"}

-----------------------------------------------------------------------------
(* digit-sequence arithmetic *)
RECURSIVE StripZ(_)
StripZ(d) == IF Len(d) > 1 /\ d[1] = 0 THEN StripZ(Tail(d)) ELSE d

Less(a, b) ==      \* a < b for stripped sequences
  \/ Len(a) < Len(b)
  \/ /\ Len(a) = Len(b)
     /\ \E i \in 1..Len(a) : a[i] < b[i] /\ \A j \in 1..(i-1) : a[j] = b[j]
Leq(a, b) == a = b \/ Less(a, b)

RECURSIVE AddSmall(_, _)
(* d + n for a small natural n (n < 2^20), least significant digit last *)
AddSmall(d, n) ==
  IF n = 0 THEN d
  ELSE IF d = <<>> THEN AddSmall(<<0>>, n)
  ELSE LET last == d[Len(d)] + (n % 10)
           carry == (n \div 10) + (last \div 10)
           head == SubSeq(d, 1, Len(d) - 1) IN
       IF head = <<>> /\ carry = 0 THEN <<last % 10>>
       ELSE AddSmall(IF head = <<>> THEN <<0>> ELSE head, carry) \o <<last % 10>>

RECURSIVE Double(_)
Double(d) ==
  IF d = <<>> THEN <<>>
  ELSE LET r == Double(SubSeq(d, 1, Len(d) - 1))
           x == 2 * d[Len(d)] IN
       IF x >= 10 THEN AddSmall(IF r = <<>> THEN <<0>> ELSE r, 1) \o <<x - 10>>
       ELSE (IF r = <<>> THEN <<>> ELSE r) \o <<x>>

(* Powers of two.  They are written out and CHECKED by doubling (the ASSUMEs below), eight doublings at a
   time: TLC evaluates operator arguments lazily, and a chain of 64 nested doublings exhausts the JVM stack. *)
D1(x)  == StripZ(Double(x))
D2(x)  == D1(D1(x))
D4(x)  == D2(D2(x))
D7(x)  == D1(D2(D4(x)))
D8(x)  == D4(D4(x))
Two7 == <<1,2,8>>
Two8 == <<2,5,6>>
Two15 == <<3,2,7,6,8>>
Two16 == <<6,5,5,3,6>>
Two24 == <<1,6,7,7,7,2,1,6>>
Two31 == <<2,1,4,7,4,8,3,6,4,8>>
Two32 == <<4,2,9,4,9,6,7,2,9,6>>
Two40 == <<1,0,9,9,5,1,1,6,2,7,7,7,6>>
Two48 == <<2,8,1,4,7,4,9,7,6,7,1,0,6,5,6>>
Two56 == <<7,2,0,5,7,5,9,4,0,3,7,9,2,7,9,3,6>>
Two63 == <<9,2,2,3,3,7,2,0,3,6,8,5,4,7,7,5,8,0,8>>
Two64 == <<1,8,4,4,6,7,4,4,0,7,3,7,0,9,5,5,1,6,1,6>>
ASSUME D7(<<1>>) = Two7 /\ D1(Two7) = Two8 /\ D7(Two8) = Two15 /\ D1(Two15) = Two16 /\ D8(Two16) = Two24
ASSUME D7(Two24) = Two31 /\ D1(Two31) = Two32 /\ D8(Two32) = Two40 /\ D8(Two40) = Two48 /\ D8(Two48) = Two56
ASSUME D7(Two56) = Two63 /\ D1(Two63) = Two64
Pow2(n) == CASE n = 7 -> Two7 [] n = 8 -> Two8 [] n = 15 -> Two15 [] n = 16 -> Two16
             [] n = 31 -> Two31 [] n = 32 -> Two32 [] n = 63 -> Two63 [] n = 64 -> Two64

RECURSIVE SubSmall(_, _)
(* d - n for small n <= value of d *)
SubSmall(d, n) ==
  IF n = 0 THEN d
  ELSE LET last == d[Len(d)]
           m == n % 10
           head == SubSeq(d, 1, Len(d) - 1) IN
       IF last >= m THEN (IF head = <<>> THEN <<>> ELSE SubSmall(head, n \div 10)) \o <<last - m>>
       ELSE SubSmall(head, (n \div 10) + 1) \o <<last + 10 - m>>

(* largest magnitude a kind can hold, for a negative / non-negative literal *)
MaxMag(k, neg) ==
  IF Signed(k) THEN (IF neg THEN Pow2(Bits(k) - 1) ELSE StripZ(SubSmall(Pow2(Bits(k) - 1), 1)))
  ELSE (IF neg THEN <<0>> ELSE StripZ(SubSmall(Pow2(Bits(k)), 1)))

-----------------------------------------------------------------------------
(* rendering *)
DigitChar(x) == CASE x = 0 -> "0" [] x = 1 -> "1" [] x = 2 -> "2" [] x = 3 -> "3" [] x = 4 -> "4"
                  [] x = 5 -> "5" [] x = 6 -> "6" [] x = 7 -> "7" [] x = 8 -> "8" [] x = 9 -> "9"
RECURSIVE DigitsText(_)
DigitsText(d) == IF d = <<>> THEN "" ELSE DigitChar(Head(d)) \o DigitsText(Tail(d))

Text(l) ==
  CASE l.form = "bare-minus" -> "-"
    [] l.form = "plus" -> "+" \o DigitsText(l.digits)
    [] l.form = "frac" -> (IF l.neg THEN "-" ELSE "") \o DigitsText(l.digits) \o ".0"
    [] l.form = "exp"  -> (IF l.neg THEN "-" ELSE "") \o DigitsText(l.digits) \o "e0"
    [] OTHER -> (IF l.neg THEN "-" ELSE "") \o DigitsText(l.digits)

-----------------------------------------------------------------------------
(* reference semantics *)
WellFormedInt(l) ==
  /\ l.form = "int" /\ l.digits # <<>>
  /\ (Len(l.digits) > 1 => l.digits[1] # 0)                 \* no leading zeros

IsZero(d) == StripZ(d) = <<0>>

Fits(l, k) ==
  /\ WellFormedInt(l)
  /\ IF Signed(k) THEN Leq(StripZ(l.digits), MaxMag(k, l.neg))
     ELSE ~l.neg /\ Leq(StripZ(l.digits), MaxMag(k, FALSE))   \* encoding/json: no '-' for unsigned, not even -0

(* canonical printing of the value a fitting literal denotes *)
Canon(l) == IF l.neg /\ ~IsZero(l.digits) THEN "-" \o DigitsText(StripZ(l.digits)) ELSE DigitsText(StripZ(l.digits))

(* why a literal does not fit (conformance signature component) *)
Class(l, k) ==
  CASE l.form = "bare-minus" -> "bare-minus"
    [] l.form = "plus" -> "plus-sign"
    [] l.form = "frac" -> "fraction"
    [] l.form = "exp" -> "exponent"
    [] ~WellFormedInt(l) -> "leading-zero"
    [] ~Signed(k) /\ l.neg -> "negative-into-unsigned"
    [] Fits(l, k) -> (IF StripZ(l.digits) = MaxMag(k, l.neg) THEN "at-bound" ELSE "in-range")
    [] Len(StripZ(l.digits)) > Len(MaxMag(k, l.neg)) -> "more-digits-than-bound"
    [] StripZ(l.digits) = StripZ(AddSmall(MaxMag(k, l.neg), 1)) -> "bound-plus-one"
    [] OTHER -> "beyond-bound-same-digits"

-----------------------------------------------------------------------------
(* literals explored per kind *)
Int(n, d) == [neg |-> n, digits |-> d, form |-> "int"]
Around(k, neg) ==
  LET b == MaxMag(k, neg) IN
    { Int(neg, StripZ(AddSmall(b, i))) : i \in 0..Width } \cup
    { Int(neg, StripZ(SubSmall(b, i))) : i \in { j \in 0..Width : Len(b) > 3 \/ (Len(b) = 3 /\ j <= 100) } }
Ones(n, x) == [i \in 1..n |-> x]
Long(k) ==
  { Int(s, Ones(n, 9)) : n \in 1..MaxDigits, s \in BOOLEAN } \cup
  { Int(s, <<1>> \o Ones(n, 0)) : n \in 0..(MaxDigits - 1), s \in BOOLEAN } \cup
  { Int(s, MaxMag(k, s) \o <<0>>) : s \in BOOLEAN }
Odd ==
  { Int(s, <<0, x>>) : x \in 0..9, s \in BOOLEAN } \cup { Int(s, <<0, 0, 7>>) : s \in BOOLEAN } \cup
  { [neg |-> s, digits |-> <<>>, form |-> "bare-minus"] : s \in {TRUE} } \cup
  { [neg |-> FALSE, digits |-> <<x>>, form |-> "plus"] : x \in {0, 5} } \cup
  { [neg |-> s, digits |-> <<x>>, form |-> f] : x \in {0, 1, 7}, s \in BOOLEAN, f \in {"frac", "exp"} } \cup
  { Int(s, <<x>>) : x \in 0..9, s \in BOOLEAN }
(* interior boundaries: powers of two and of ten inside the range (word-size seams of an implementation) *)
Interior ==
  LET twos == {Two7, Two8, Two15, Two16, Two31, Two32, Two63}
      tens == { <<1>> \o Ones(n, 0) : n \in 1..19 } IN
  { Int(s, StripZ(AddSmall(b, i))) : b \in twos \cup tens, i \in 0..3, s \in BOOLEAN } \cup
  { Int(s, StripZ(SubSmall(b, i))) : b \in twos \cup tens, i \in 1..3, s \in BOOLEAN }
Lits(k) == Around(k, FALSE) \cup Around(k, TRUE) \cup Long(k) \cup Odd \cup Interior

-----------------------------------------------------------------------------
VARIABLES kind, lit, phase
vars == <<kind, lit, phase>>
NoLit == [neg |-> FALSE, digits |-> <<>>, form |-> "none"]

Init == kind \in Kinds /\ lit = NoLit /\ phase = "choose"
Choose == phase = "choose" /\ \E l \in Lits(kind) : lit' = l /\ phase' = "parsed" /\ UNCHANGED kind
PrintStep == phase = "parsed" /\ Fits(lit, kind) /\ phase' = "printed" /\ UNCHANGED <<kind, lit>>
Next == Choose \/ PrintStep
Spec == Init /\ [][Next]_vars

(* laws of the reference *)
(* a smaller magnitude with the same sign fits whenever a larger one does *)
Monotone ==
  phase = "parsed" /\ Fits(lit, kind) =>
    \A l2 \in Lits(kind) : (WellFormedInt(l2) /\ l2.neg = lit.neg /\ Leq(StripZ(l2.digits), StripZ(lit.digits))) => Fits(l2, kind)
(* printing the parsed value and parsing again is the identity on canonical text *)
RoundTrip ==
  phase = "printed" => LET c == Canon(lit) IN
     \/ c = Text(lit)
     \/ (lit.neg /\ IsZero(lit.digits) /\ c = "0")          \* -0 prints as 0
(* the bound itself fits and its successor does not *)
BoundSharp ==
  phase = "choose" => \A s \in BOOLEAN :
     (Signed(kind) \/ ~s) =>
       /\ Fits(Int(s, MaxMag(kind, s)), kind)
       /\ ~Fits(Int(s, StripZ(AddSmall(MaxMag(kind, s), 1))), kind)
(* export: one conformance case per parsed state *)
Export ==
  phase = "parsed" =>
    PrintT(<<"CASE", ToJson([kind |-> kind, text |-> Text(lit), fits |-> Fits(lit, kind),
                             canon |-> IF Fits(lit, kind) THEN Canon(lit) ELSE "", class |-> Class(lit, kind)])>>)

ASSUME DigitsText(MaxMag("int8", FALSE)) = "127" /\ DigitsText(MaxMag("int8", TRUE)) = "128"
ASSUME DigitsText(MaxMag("uint16", FALSE)) = "65535" /\ DigitsText(MaxMag("int32", TRUE)) = "2147483648"
ASSUME DigitsText(MaxMag("int64", FALSE)) = "9223372036854775807"
ASSUME DigitsText(MaxMag("uint64", FALSE)) = "18446744073709551615"
ASSUME DigitsText(StripZ(AddSmall(<<9, 9, 9>>, 1))) = "1000" /\ DigitsText(StripZ(SubSmall(<<1, 0, 0, 0>>, 1))) = "999"
=============================================================================
