------------------------------ MODULE MemLayout ------------------------------
(***************************************************************************)
(* Decoding touches only the destination (C07).                             *)
(*                                                                         *)
(* The destination is a struct laid out inside a larger object, with guard  *)
(* regions before, between and after its fields.  Memory is a byte map:     *)
(* every byte belongs to a guard or to a field.  A document addresses a     *)
(* subset of the fields (each with an "action": how many elements it gives, *)
(* null, or a value of the wrong kind).  The decoder model performs the     *)
(* stores the design prescribes:                                            *)
(*   - a scalar / header field that the document names: one store of the    *)
(*     field's size at the field's offset;                                  *)
(*   - an array field [n]T given k elements: min(k, n) element stores, then *)
(*     the remaining n - k elements are reset, EACH WITH THE ELEMENT SIZE;  *)
(*   - null and absent: no store.                                           *)
(* Invariant WritesInsideAddressed: every byte written belongs to a field   *)
(* the document names.  With the deviation "PointerSizedZeroFill" (the code *)
(* before it was repaired: 8-byte stores for the tail whatever the element  *)
(* size) TLC finds the overwritten guard / neighbour; likewise for          *)
(* "PointerSizedNullStore" (null into a narrow TextUnmarshaler value stored *)
(* a nil pointer) and "WideQuotedStore" (a ",string" member written back    *)
(* through a 64-bit word).                                                  *)
(*                                                                         *)
(* Every explored (layout, document) pair is exported; the harness builds   *)
(* the layout with reflect.StructOf, fills everything with canaries,        *)
(* decodes the corresponding real document and compares every byte that     *)
(* the document does not address.                                           *)
(***************************************************************************)
EXTENDS Naturals, Sequences, FiniteSets, TLC, Json

CONSTANTS FieldKinds,   \* kinds of fields explored (see Size / IsArray)
          MaxFields,
          Deviations

Guard == 8    \* guard bytes between fields in the model

(* kind names: "s<k>" scalar of k bytes; "a<n>x<e>" array of n elements of e bytes; "hdr" a 16/24-byte header (string, slice); *)
(* "q<k>" scalar of k bytes tagged ",string" (the value arrives as a quoted literal); "t<k>" named scalar of k bytes that       *)
(* implements encoding.TextUnmarshaler (a JSON null has no effect on it).                                                       *)
Size(k) ==
  CASE k = "s1" -> 1 [] k = "s2" -> 2 [] k = "s4" -> 4 [] k = "s8" -> 8 [] k = "hdr16" -> 16 [] k = "hdr24" -> 24
    [] k = "q1" -> 1 [] k = "q2" -> 2 [] k = "q4" -> 4 [] k = "q8" -> 8 [] k = "t1" -> 1 [] k = "t2" -> 2 [] k = "t4" -> 4
    [] k = "a2x1" -> 2 [] k = "a3x1" -> 3 [] k = "a4x1" -> 4 [] k = "a2x2" -> 4 [] k = "a3x3" -> 9 [] k = "a2x4" -> 8
    [] k = "a2x8" -> 16 [] k = "a3x5" -> 15 [] k = "a2x12" -> 24 [] k = "a2x16" -> 32 [] k = "a2x24" -> 48 [] k = "a1x64" -> 64
ElemSize(k) ==
  CASE k \in {"a2x1","a3x1","a4x1"} -> 1 [] k = "a2x2" -> 2 [] k = "a3x3" -> 3 [] k = "a2x4" -> 4 [] k = "a2x8" -> 8
    [] k = "a3x5" -> 5 [] k = "a2x12" -> 12 [] k = "a2x16" -> 16 [] k = "a2x24" -> 24 [] k = "a1x64" -> 64 [] OTHER -> 0
Count(k) == IF ElemSize(k) = 0 THEN 0 ELSE Size(k) \div ElemSize(k)
IsArray(k) == ElemSize(k) > 0

Actions == {"absent", "null", "short", "exact", "long", "wrongkind"}

VARIABLES layout,    \* Seq of field kinds
          doc,       \* Seq of actions, one per field
          phase
vars == <<layout, doc, phase>>

RECURSIVE OffsetOf(_, _)
OffsetOf(lay, i) == IF i = 1 THEN Guard ELSE OffsetOf(lay, i - 1) + Size(lay[i - 1]) + Guard
Total(lay) == OffsetOf(lay, Len(lay)) + Size(lay[Len(lay)]) + Guard

FieldBytes(lay, i) == { OffsetOf(lay, i) + b : b \in 0..(Size(lay[i]) - 1) }

(* the stores performed for field i under action a: a set of [off, size] *)
Stores(lay, i, a) ==
  LET k == lay[i]
      off == OffsetOf(lay, i) IN
  IF a = "null" /\ k \in {"t1", "t2", "t4"} /\ "PointerSizedNullStore" \in Deviations
  THEN {[off |-> off, size |-> 8]}                    \* the TextUnmarshaler decoder before it was repaired: null stored a nil POINTER
  ELSE IF a \in {"absent", "null", "wrongkind"} THEN {}
  ELSE IF k \in {"q1", "q2", "q4"} /\ "WideQuotedStore" \in Deviations
  THEN {[off |-> off, size |-> 8]}                    \* a realistic slip: the quoted literal written back through a 64-bit scratch word
  ELSE IF ~IsArray(k) THEN {[off |-> off, size |-> Size(k)]}
  ELSE LET n == Count(k)
           e == ElemSize(k)
           given == IF a = "short" THEN (IF n > 1 THEN n - 1 ELSE 0) ELSE n        \* "long": surplus elements are skipped
           tailSize == IF "PointerSizedZeroFill" \in Deviations THEN 8 ELSE e IN
       { [off |-> off + j * e, size |-> e] : j \in 0..(given - 1) } \cup
       { [off |-> off + j * e, size |-> tailSize] : j \in given..(n - 1) }

Written(lay, d) ==
  UNION { { s.off + b : b \in 0..(s.size - 1) } : s \in UNION { Stores(lay, i, d[i]) : i \in DOMAIN lay } }
Addressed(lay, d) ==
  UNION { FieldBytes(lay, i) : i \in { j \in DOMAIN lay : d[j] \notin {"absent"} } }

Init == layout = <<>> /\ doc = <<>> /\ phase = "layout"
AddField == /\ phase = "layout" /\ Len(layout) < MaxFields
            /\ \E k \in FieldKinds : layout' = Append(layout, k)
            /\ UNCHANGED <<doc, phase>>
StartDoc == phase = "layout" /\ layout # <<>> /\ phase' = "doc" /\ UNCHANGED <<layout, doc>>
AddAction == /\ phase = "doc" /\ Len(doc) < Len(layout)
             /\ \E a \in Actions : doc' = Append(doc, a)
             /\ UNCHANGED <<layout, phase>>
Next == AddField \/ StartDoc \/ AddAction
Spec == Init /\ [][Next]_vars

Complete == phase = "doc" /\ Len(doc) = Len(layout)
WritesInsideAddressed == Complete => Written(layout, doc) \subseteq Addressed(layout, doc)
(* guards are never written and never addressed *)
GuardsUntouched == Complete => \A x \in Written(layout, doc) : \E i \in DOMAIN layout : x \in FieldBytes(layout, i)
(* an array that the document names is written completely (elements, then zeroed tail) *)
ArrayFullyDefined ==
  Complete => \A i \in DOMAIN layout :
     (IsArray(layout[i]) /\ doc[i] \in {"short", "exact", "long"}) => FieldBytes(layout, i) \subseteq Written(layout, doc)
Export == Complete => PrintT(<<"CASE", ToJson([layout |-> layout, doc |-> doc])>>)
=============================================================================
