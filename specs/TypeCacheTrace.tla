--------------------------- MODULE TypeCacheTrace ---------------------------
(***************************************************************************)
(* Validation of recorded lookups of the real per-type caches (hook events  *)
(* of CompileToGetCodeSet / CompileToGetDecoder, build tag verif) against   *)
(* the window rules of TypeLayout and the ownership rules of TypeCache.     *)
(*                                                                         *)
(* One event per return of a lookup: side, path ("fast-hit",                *)
(* "fast-compiled", "slow"), zone of the requested descriptor relative to   *)
(* the window ("in", "below", "above"), rel = address - base (zone "in"),   *)
(* the slot index used, tid = the requested type, prog = the returned       *)
(* program, ptid = the type the program says it was compiled for (encoder;  *)
(* -1 for decoders), range = max - base and shift of the running binary.    *)
(* {"ev":"begin"} starts the events of another binary / process.  Within a  *)
(* process the driver sorts the events by (side, slot or type, sequence) -  *)
(* the rules are order-independent - so that the ownership rules need only  *)
(* the previous event.  Broken rules are collected in `bad`.                *)
(***************************************************************************)
EXTENDS Naturals, Integers, Sequences, TLC, Json, IOUtils

Trace == ndJsonDeserialize(IOEnv.TRACE_FILE)

VARIABLES i, prev, bad, done
vars == <<i, prev, bad, done>>

None == [ev |-> "begin"]
Init == i = 1 /\ prev = None /\ bad = <<>> /\ done = FALSE

RECURSIVE Pow2(_)
Pow2(n) == IF n = 0 THEN 1 ELSE 2 * Pow2(n - 1)

Fast(e) == e.path \in {"fast-hit", "fast-compiled"}

(* rules that concern one lookup *)
Own(e) ==
  IF Fast(e) /\ e.zone # "in" THEN "guard:descriptor-outside-window-on-fast-path"
  ELSE IF ~Fast(e) /\ e.zone = "in" THEN "guard:descriptor-inside-window-on-slow-path"
  ELSE IF Fast(e) /\ e.index # e.rel \div Pow2(e.shift) THEN "index:not-shifted-offset"
  ELSE IF Fast(e) /\ e.index > e.range \div Pow2(e.shift) THEN "index:outside-table"
  ELSE IF e.ptid # -1 /\ e.ptid # e.tid THEN "own:program-compiled-for-another-type"
  ELSE "none"

(* rules that relate a lookup to the previous one of the same slot / type *)
Pair(p, e) ==
  IF p.ev = "begin" \/ p.side # e.side THEN "none"
  ELSE IF Fast(p) /\ Fast(e) /\ p.index = e.index /\ p.tid # e.tid THEN "slot:two-types-share-a-slot"
  ELSE IF p.tid # e.tid /\ p.prog = e.prog THEN "own:two-types-served-by-one-program"
  ELSE "none"

Step(e) ==
  LET m == IF Own(e) # "none" THEN Own(e) ELSE Pair(prev, e) IN
  /\ bad' = IF m = "none" \/ Len(bad) >= 1000 THEN bad ELSE Append(bad, <<i, m>>)
  /\ prev' = e

Next ==
  \/ /\ i <= Len(Trace)
     /\ i' = i + 1 /\ done' = done
     /\ LET e == Trace[i] IN IF e.ev = "begin" THEN (prev' = None /\ bad' = bad) ELSE Step(e)
  \/ /\ i = Len(Trace) + 1 /\ ~done /\ done' = TRUE
     /\ PrintT(<<"TRACE-BADS", ToJson(bad)>>)
     /\ UNCHANGED <<i, prev, bad>>

Spec == Init /\ [][Next]_vars
TraceAccepted == TLCGet("stats").diameter - 2 = Len(Trace)
=============================================================================
