SPECIFICATION Spec
CONSTANTS
  MaxDigits = 2
  NegX = 12
  MaxX = 24
CHECK_DEADLOCK FALSE
