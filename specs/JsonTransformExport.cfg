SPECIFICATION Spec
CONSTANTS
  MaxDepth = 1
  MaxLen = 0
  Alphabet = {"sp"}
CHECK_DEADLOCK FALSE
