\* structural alphabet plus one literal start: tokens of every string up to MaxLen
SPECIFICATION Spec
CONSTANTS
  MaxDepth = 3
  MaxLen = 6
  Alphabet = {"lb","rb","lc","rc","cm","cl","q","z","sp"}
INVARIANTS TypeOK TokensWellFormed StackIsOpenDelims
CHECK_DEADLOCK FALSE
