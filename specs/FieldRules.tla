----------------------------- MODULE FieldRules -----------------------------
(***************************************************************************)
(* Which Go struct fields are the members of the JSON object?  (C01, C02,   *)
(* C15: the part of encoding/json's contract that is pure case analysis.)   *)
(*                                                                         *)
(* A program has three struct types T1, T2, T3.  T1 may embed T2 and T3,    *)
(* T2 may embed T3 (by value or by pointer), so a type can be reached along *)
(* two routes.  A field is                                                  *)
(*    [go |-> Go name, tag |-> json tag name or "" or "-", kind |-> "int"]  *)
(* or [go |-> type name, tag |-> ..., kind |-> "embed", ref |-> k,          *)
(*     ptr |-> BOOLEAN]                                                     *)
(* (an embedded struct with a tag NAME is an ordinary member, not a          *)
(* promotion).  Members(T1) follows the Go rules:                            *)
(*   - breadth first by embedding depth; a type is expanded only at the      *)
(*     first depth at which it is reached; reached k times at that depth,    *)
(*     each of its fields counts k times;                                    *)
(*   - tag "-" hides a field; a tag name renames it and marks it "tagged";   *)
(*   - among the candidates of one JSON name the shallowest wins; several at *)
(*     the shallowest depth: exactly one tagged one wins, otherwise the name *)
(*     is dropped altogether;                                                *)
(*   - the members appear in order of their index paths.                     *)
(* TLC enumerates every program within the bounds, checks the structural     *)
(* laws below and exports program + expected member list; the harness builds *)
(* the types with reflect.StructOf and compares Marshal and Unmarshal with    *)
(* the expectation and with encoding/json.                                    *)
(***************************************************************************)
EXTENDS Naturals, Sequences, FiniteSets, TLC, Json

CONSTANTS MaxFields1, MaxFields2, MaxFields3   \* fields per type

TypeName(k) == IF k = 1 THEN "T1" ELSE IF k = 2 THEN "T2" ELSE "T3"

IntFields == { [go |-> "A", tag |-> "", kind |-> "int", ref |-> 0, ptr |-> FALSE],
               [go |-> "B", tag |-> "", kind |-> "int", ref |-> 0, ptr |-> FALSE],
               [go |-> "B", tag |-> "A", kind |-> "int", ref |-> 0, ptr |-> FALSE],
               [go |-> "C", tag |-> "B", kind |-> "int", ref |-> 0, ptr |-> FALSE],
               [go |-> "A", tag |-> "-", kind |-> "int", ref |-> 0, ptr |-> FALSE] }
EmbedFields(k) == { [go |-> TypeName(r), tag |-> t, kind |-> "embed", ref |-> r, ptr |-> p] :
                      r \in (k + 1)..3, t \in {"", "A"}, p \in BOOLEAN }
Options(k) == IntFields \cup EmbedFields(k)

VARIABLES types,   \* 1..3 -> Seq of fields
          phase    \* which type is being built: 3, 2, 1, then 0 = complete
vars == <<types, phase>>

MaxOf(k) == IF k = 1 THEN MaxFields1 ELSE IF k = 2 THEN MaxFields2 ELSE MaxFields3
Init == types = [k \in 1..3 |-> <<>>] /\ phase = 3
AddField == /\ phase > 0 /\ Len(types[phase]) < MaxOf(phase)
            /\ \E f \in Options(phase) :
                 /\ \A i \in DOMAIN types[phase] : types[phase][i].go # f.go         \* Go forbids duplicate field names
                 /\ types' = [types EXCEPT ![phase] = Append(@, f)]
            /\ UNCHANGED phase
Close == phase > 0 /\ types[phase] # <<>> /\ phase' = phase - 1 /\ UNCHANGED types
Next == AddField \/ Close
Spec == Init /\ [][Next]_vars
Complete == phase = 0

-----------------------------------------------------------------------------
(* candidates: [name, depth, tagged, path (index sequence from T1), count] collected breadth first *)
IsPromotion(f) == f.kind = "embed" /\ f.tag = ""
JsonName(f) == IF f.tag = "" THEN f.go ELSE f.tag

(* one level: `frontier` is a sequence of [t |-> type, path |-> index path]; returns [cands, next] *)
RECURSIVE LevelFields(_, _, _, _)
LevelFields(ty, entry, i, acc) ==
  IF i > Len(ty[entry.t]) THEN acc
  ELSE LET f == ty[entry.t][i]
           path == Append(entry.path, i) IN
       IF f.tag = "-" THEN LevelFields(ty, entry, i + 1, acc)
       ELSE IF IsPromotion(f)
            THEN LevelFields(ty, entry, i + 1, [acc EXCEPT !.next = Append(@, [t |-> f.ref, path |-> path])])
            ELSE LevelFields(ty, entry, i + 1,
                   [acc EXCEPT !.cands = Append(@, [name |-> JsonName(f), depth |-> Len(path), tagged |-> f.tag # "", path |-> path])])

RECURSIVE Level(_, _, _, _)
Level(ty, frontier, k, acc) ==
  IF k > Len(frontier) THEN acc ELSE Level(ty, frontier, k + 1, LevelFields(ty, frontier[k], 1, acc))

(* breadth first; `seen` = types already expanded at an earlier depth.  A type reached several times at one depth   *)
(* is expanded once per route here, which yields its fields once per route: equal names at equal depth annihilate     *)
(* unless exactly one is tagged - the same outcome as Go's multiplicity count.                                        *)
RECURSIVE Collect(_, _, _, _)
Collect(ty, frontier, seen, cands) ==
  IF frontier = <<>> THEN cands
  ELSE LET fr == SelectSeq(frontier, LAMBDA e : e.t \notin seen)
           r == Level(ty, fr, 1, [cands |-> <<>>, next |-> <<>>])
           seen2 == seen \cup { fr[i].t : i \in DOMAIN fr } IN
       Collect(ty, r.next, seen2, cands \o r.cands)

Cands(ty, root) == Collect(ty, << [t |-> root, path |-> <<>>] >>, {}, <<>>)

Wins(cs, i) ==
  LET c == cs[i]
      same == { j \in DOMAIN cs : cs[j].name = c.name }
      mind == CHOOSE d \in { cs[j].depth : j \in same } : \A j \in same : d <= cs[j].depth
      top == { j \in same : cs[j].depth = mind }
      toptag == { j \in top : cs[j].tagged } IN
  /\ c.depth = mind
  /\ IF Cardinality(top) = 1 THEN TRUE
     ELSE Cardinality(toptag) = 1 /\ c.tagged

RECURSIVE PathLess(_, _)
PathLess(a, b) == IF a = <<>> THEN b # <<>> ELSE IF b = <<>> THEN FALSE
                  ELSE IF Head(a) # Head(b) THEN Head(a) < Head(b) ELSE PathLess(Tail(a), Tail(b))

RECURSIVE SortByPath(_)
SortByPath(S) == IF S = {} THEN <<>>
                 ELSE LET m == CHOOSE x \in S : \A y \in S : x = y \/ PathLess(x.path, y.path) IN <<m>> \o SortByPath(S \ {m})

MembersOf(ty, root) ==
  LET cs == Cands(ty, root) IN SortByPath({ cs[i] : i \in { j \in DOMAIN cs : Wins(cs, j) } })

-----------------------------------------------------------------------------
Members(ty) == MembersOf(ty, 1)

(* laws *)
NamesUnique == Complete => LET m == Members(types) IN \A i, j \in DOMAIN m : i # j => m[i].name # m[j].name
(* a direct field of T1 always beats anything promoted *)
DirectWins == Complete => \A i \in DOMAIN types[1] :
   LET f == types[1][i] IN
   (f.tag # "-" /\ ~IsPromotion(f) /\ Cardinality({ j \in DOMAIN types[1] : ~IsPromotion(types[1][j]) /\ types[1][j].tag # "-" /\ JsonName(types[1][j]) = JsonName(f) }) = 1)
      => \E k \in DOMAIN Members(types) : Members(types)[k].path = <<i>>
(* hidden fields never appear *)
HiddenStayHidden == Complete => \A k \in DOMAIN Members(types) :
   LET p == Members(types)[k].path IN Len(p) = 1 => types[1][p[1]].tag # "-"

Export == Complete => PrintT(<<"PROGRAM", ToJson([types |-> types, members |-> [k \in 1..3 |-> MembersOf(types, k)]])>>)
=============================================================================
