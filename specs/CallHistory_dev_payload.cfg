\* the encoder before fix 1b93308: the caller's context.Context stays in the pooled context; a later plain call that reaches a
\* context-aware marshaler reads it: TLC must find the stale read
SPECIFICATION Spec
CONSTANTS
  Kinds = {"plain","option","ctxaware"}
  MaxCalls = 3
  MaxCtx = 1
  ResetSet = {"buf", "flags", "indent", "seen", "refs"}
  Deviations = {}
INVARIANTS NoStaleRead
CHECK_DEADLOCK FALSE
