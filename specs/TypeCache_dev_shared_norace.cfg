SPECIFICATION Spec
CONSTANTS
  Procs = {"g1", "g2"}
  FastTypes = {"A", "B", "Q"}
  SlowTypes = {"H"}
  QType = "Q"
  Sides = {"enc"}
  Variant = "norace"
  MaxCalls = 1
  Deviations = {"SharedSlot"}
VIEW view
INVARIANTS OwnProgram
