\* structural alphabet: brackets, braces, comma, colon, a string delimiter, a digit, whitespace
SPECIFICATION Spec
CONSTANTS
  MaxDepth = 2
  MaxLen = 5
  Alphabet = {"lb","rb","lc","rc","cm","cl","q","z","sp"}
INVARIANTS TypeOK AgreesWithGrammar RunIsIncremental KeyDiscipline ValueDiscipline RejectHasNoStack
PROPERTIES RejectAbsorbing
CHECK_DEADLOCK FALSE
