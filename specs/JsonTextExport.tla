--------------------------- MODULE JsonTextExport ---------------------------
(* Evaluates JsonText's definitions and prints them as JSON for the Go      *)
(* harness: the complete transition table and the byte -> class map.        *)
(* Nothing here adds meaning; it only serialises StepFn, ClassOf and the    *)
(* token label of each transition (TokenStream).                             *)
EXTENDS TokenStream, Json

TableRows == { [m |-> m, t |-> t, c |-> c,
                m2 |-> StepFn(m, t, c).mode, op |-> StepFn(m, t, c).op, tok |-> TokenEvent(m, t, c)] :
               m \in Modes, t \in Tops, c \in Sym }
ClassRows == { [b |-> x, c |-> ClassOf(x)] : x \in 0..255 }

ASSUME PrintT(<<"EXPORT-TABLE", ToJson(TableRows)>>)
ASSUME PrintT(<<"EXPORT-CLASSES", ToJson(ClassRows)>>)
ASSUME PrintT(<<"EXPORT-NUMDONE", ToJson(NumDone)>>)
=============================================================================
