SPECIFICATION Spec
CONSTANTS
  MaxSteps = 2
  Leaves = {"bool","int","int8","int16","int32","int64","uint","uint8","uint16","uint32","uint64","uintptr","float32","float64","string","bytes","MarshalerV","MarshalerP","TextV","TextP","Time","Number","Raw","Rec","RecMap","MutualA","UnmarshalerP","TextUnmarshalerP","Empty","PtrField","Scripted","BothP","BothV"}
  Steps = {"ptr","slice","array0","array1","array2","map_s","map_i","map_t","iface","struct:plain:alone","struct:omitempty:alone","struct:string:alone","struct:omitempty:before-int","struct:plain:after-iface","struct:omitempty+string:after-ptrstr","struct:plain:before-ptrstr","embedV","embedP","embedV-shadowed","embedP-shadowed"}
INVARIANTS TypeOK EmbedDiscipline Export
CHECK_DEADLOCK FALSE
