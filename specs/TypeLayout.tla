------------------------------ MODULE TypeLayout ------------------------------
(***************************************************************************)
(* The address window of the per-type caches (C14).                         *)
(*                                                                         *)
(* internal/runtime/type.go AnalyzeTypeAddr walks the type descriptors the  *)
(* linker LISTS (reflect.typelinks) - and, for listed pointer types, their  *)
(* element - and infers  base = lowest address, max = highest address and   *)
(* an alignment:  shift 6 if every visited address is a multiple of 64 from *)
(* the lowest address seen SO FAR, else 5 likewise for 32, else 0.  A type  *)
(* whose descriptor lies inside [base, max] is cached in slot               *)
(* (addr - base) >> shift of a table with (max - base) >> shift + 1 slots;  *)
(* every other type (reflect-created descriptors on the heap, below or      *)
(* above the window) goes to a map keyed by the exact address.              *)
(*                                                                         *)
(* Addresses are modelled in UNITS of 16 bytes.  A layout is a sequence of  *)
(* descriptors placed upwards from Start; each has a size, is placed at the *)
(* next multiple of Align (optionally after a gap) and is                    *)
(*    "L"  listed,  "P"  a listed pointer type whose element is another     *)
(*    descriptor,  "U"  unlisted (a named type reachable only through an    *)
(*    interface value or as some listed pointer's element).                 *)
(* The order in which the linker lists types is unrelated to addresses, so  *)
(* the inference is evaluated for EVERY permutation of the listed types.    *)
(*                                                                         *)
(* Invariants: every descriptor in the window has a slot inside the table   *)
(* (InTable) and no two descriptors share a slot (Injective); descriptors   *)
(* and heap addresses outside the window never reach the table (Guarded).   *)
(* They hold for Align >= 2 units (32 bytes) and sizes >= 3 units (48       *)
(* bytes): then descriptors are >= 64 bytes apart and no shift <= 6 can     *)
(* merge two of them, whatever the inference concluded.  Named deviations,  *)
(* each FOUND by TLC in a *_dev cfg:                                        *)
(*   "Align16"        descriptors only 16-byte aligned -> two in one slot;  *)
(*   "CappedShift"    shift raised to cap the table size -> two in one slot;*)
(*   "DecUpperOnly"   the decoder's guard as it was before fix 4477a51 (no  *)
(*                    lower bound) -> a heap descriptor BELOW the window    *)
(*                    indexes outside the table (PIE binaries);             *)
(*   "NoPlusOne"      table one slot short -> the highest type is outside.  *)
(***************************************************************************)
EXTENDS Naturals, Sequences, FiniteSets, TLC

CONSTANTS Sizes,        \* descriptor sizes in units
          Align,        \* placement alignment in units
          MaxTypes,
          Start,        \* address of the first descriptor (units, > 0)
          Cap,          \* table size above which "CappedShift" raises the shift
          Deviations

VARIABLES layout,  \* Seq of [size, gap, kind, elem]
          phase
vars == <<layout, phase>>

AlignUp(x, a) == ((x + a - 1) \div a) * a
RECURSIVE AddrOf(_, _)
AddrOf(lay, i) == IF i = 1 THEN AlignUp(Start, Align) + lay[1].gap * Align
                  ELSE AlignUp(AddrOf(lay, i - 1) + lay[i - 1].size, Align) + lay[i].gap * Align

Listed(lay) == { i \in DOMAIN lay : lay[i].kind \in {"L", "P"} }

(* ---- the inference, for one listing order (a sequence of indices) ---- *)
RECURSIVE Infer(_, _, _, _)
Infer(lay, ord, k, acc) ==
  IF k > Len(ord) THEN acc
  ELSE LET i == ord[k]
           a1 == AddrOf(lay, i)
           mn1 == IF a1 < acc.min THEN a1 ELSE acc.min
           mx1 == IF a1 > acc.max THEN a1 ELSE acc.max
           isP == lay[i].kind = "P"
           a2 == IF isP THEN AddrOf(lay, lay[i].elem) ELSE a1
           mn2 == IF a2 < mn1 THEN a2 ELSE mn1
           mx2 == IF a2 > mx1 THEN a2 ELSE mx1 IN
       Infer(lay, ord, k + 1, [min |-> mn2, max |-> mx2,
                               a64 |-> acc.a64 /\ ((a2 - mn2) % 4 = 0),
                               a32 |-> acc.a32 /\ ((a2 - mn2) % 2 = 0)])

Huge == 1000000
Window(lay, ord) ==
  LET r == Infer(lay, ord, 1, [min |-> Huge, max |-> 0, a64 |-> TRUE, a32 |-> TRUE])
      div0 == IF r.a64 THEN 4 ELSE IF r.a32 THEN 2 ELSE 0           \* 0: byte granularity
      rng == r.max - r.min
      slots(d) == IF d = 0 THEN rng * 16 ELSE rng \div d
      div == IF "CappedShift" \in Deviations /\ div0 # 0 /\ slots(div0) > Cap THEN div0 * 2 ELSE div0 IN
  [base |-> r.min, max |-> r.max, div |-> div, valid |-> rng > 0,
   len |-> slots(div) + (IF "NoPlusOne" \in Deviations THEN 0 ELSE 1)]

Index(w, a) == IF a < w.base THEN Huge                      \* unsigned wrap-around
               ELSE IF w.div = 0 THEN (a - w.base) * 16 ELSE (a - w.base) \div w.div
Fast(w, side, a) ==
  /\ w.valid
  /\ a <= w.max
  /\ (a >= w.base \/ (side = "dec" /\ "DecUpperOnly" \in Deviations))

RECURSIVE Perms(_)
Perms(S) == IF S = {} THEN {<<>>} ELSE UNION { { <<x>> \o p : p \in Perms(S \ {x}) } : x \in S }

(* all addresses a lookup may see: every descriptor of the binary, and heap descriptors below / above it *)
Top(lay) == AddrOf(lay, Len(lay)) + lay[Len(lay)].size
Probes(lay) == { AddrOf(lay, i) : i \in DOMAIN lay } \cup {1, Top(lay) + 8}

Init == layout = <<>> /\ phase = "build"
Add == /\ phase = "build" /\ Len(layout) < MaxTypes
       /\ \E sz \in Sizes, g \in {0, 1}, k \in {"L", "U"} :
            layout' = Append(layout, [size |-> sz, gap |-> g, kind |-> k, elem |-> 0])
       /\ UNCHANGED phase
AddPtr == /\ phase = "build" /\ Len(layout) < MaxTypes /\ layout # <<>>
          /\ \E sz \in Sizes, g \in {0, 1}, e \in DOMAIN layout :
               layout' = Append(layout, [size |-> sz, gap |-> g, kind |-> "P", elem |-> e])
          /\ UNCHANGED phase
(* a pointer type may also precede its element in memory: PtrFirst adds the pair (pointer, element) *)
AddPtrFirst == /\ phase = "build" /\ Len(layout) + 1 < MaxTypes
               /\ \E sz \in Sizes, k \in {"L", "U"} :
                    layout' = layout \o << [size |-> sz, gap |-> 0, kind |-> "P", elem |-> Len(layout) + 2],
                                           [size |-> sz, gap |-> 0, kind |-> k, elem |-> 0] >>
               /\ UNCHANGED phase
Close == phase = "build" /\ Listed(layout) # {} /\ phase' = "done" /\ UNCHANGED layout
Next == Add \/ AddPtr \/ AddPtrFirst \/ Close
Spec == Init /\ [][Next]_vars

Complete == phase = "done"
ForAllWindows(P(_)) == \A ord \in Perms(Listed(layout)) : P(Window(layout, ord))

InTable == Complete => ForAllWindows(LAMBDA w :
             \A side \in {"enc", "dec"} : \A a \in Probes(layout) : Fast(w, side, a) => Index(w, a) < w.len)
Injective == Complete => ForAllWindows(LAMBDA w :
             \A side \in {"enc", "dec"} : \A a, b \in Probes(layout) :
                (a # b /\ Fast(w, side, a) /\ Fast(w, side, b)) => Index(w, a) # Index(w, b))
Guarded == Complete => ForAllWindows(LAMBDA w :
             \A side \in {"enc", "dec"} : \A a \in Probes(layout) : Fast(w, side, a) => (w.base <= a /\ a <= w.max))
(* every listed descriptor, and every element of a listed pointer, is inside the window: the fast path is actually used *)
ListedInside == Complete => ForAllWindows(LAMBDA w :
             \A i \in Listed(layout) : w.base <= AddrOf(layout, i) /\ AddrOf(layout, i) <= w.max)
(* the geometric fact the design rests on *)
PitchAtLeast64 == Complete => \A i \in DOMAIN layout : i > 1 => AddrOf(layout, i) - AddrOf(layout, i - 1) >= 4
=============================================================================
