\* the tail zero-fill with pointer-sized stores must be FOUND
SPECIFICATION Spec
CONSTANTS
  FieldKinds = {"q1","q4","s8"}
  MaxFields = 2
  Deviations = {"WideQuotedStore"}
INVARIANTS WritesInsideAddressed
CHECK_DEADLOCK FALSE
