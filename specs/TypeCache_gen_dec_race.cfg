SPECIFICATION GenSpec
CONSTANTS
  Procs = {"g1", "g2"}
  FastTypes = {"A"}
  SlowTypes = {"H", "J"}
  QType = ""
  Sides = {"dec"}
  Variant = "race"
  MaxCalls = 2
  Deviations = {}
INVARIANTS OwnProgram SlotOwner Export
