SPECIFICATION GenSpec
CONSTANTS
  Procs = {"g1", "g2"}
  FastTypes = {"A", "B"}
  SlowTypes = {"H"}
  QType = ""
  Sides = {"dec"}
  Variant = "race"
  MaxCalls = 2
  Deviations = {}
INVARIANTS OwnProgram SlotOwner Export
