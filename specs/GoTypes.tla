------------------------------- MODULE GoTypes -------------------------------
(***************************************************************************)
(* The type grammar shared by C01, C02, C03, C04, C07, C08, C13, C19.       *)
(*                                                                         *)
(* A type is built from a LEAF outwards by a sequence of constructor steps, *)
(* exactly as the encoder's compiler (typeToCode) and the decoder's         *)
(* compiler unfold it inwards:                                              *)
(*   ptr, slice, array0/1/2, map with string / int / TextMarshaler key,     *)
(*   iface  (the value is stored in an interface{}),                        *)
(*   struct (the type so far becomes a member of a struct, with tag options *)
(*           omitempty / string, optionally with a sibling member before or *)
(*           after it),                                                     *)
(*   embed  (the struct so far is embedded by value or by pointer in an     *)
(*           outer struct, optionally with a member of the same name in the *)
(*           outer struct, which must win).                                 *)
(* Leaves are the scalar kinds and the catalogue of named types that        *)
(* reflect cannot create (marshalers with value/pointer receivers,          *)
(* recursive structs, time.Time, json.Number, RawMessage).                  *)
(*                                                                         *)
(* TLC enumerates every construction of at most MaxSteps steps and exports  *)
(* it; -coverage shows that every constructor is taken at every level.      *)
(***************************************************************************)
EXTENDS Naturals, Sequences, TLC, Json

CONSTANTS MaxSteps,    \* constructor steps applied to a leaf
          Leaves,      \* leaves explored by this configuration
          Steps        \* constructor steps explored by this configuration

Scalars == {"bool","int","int8","int16","int32","int64","uint","uint8","uint16","uint32","uint64","uintptr",
            "float32","float64","string","bytes"}
Named   == {"MarshalerV","MarshalerP","TextV","TextP","Time","Number","Raw","Rec","RecMap","MutualA",
            "UnmarshalerP","TextUnmarshalerP","Empty","PtrField","Scripted",
            "BothP","BothV"}     \* types with BOTH MarshalJSON and MarshalText (pointer / value receivers): MarshalJSON must win
AllLeaves == Scalars \cup Named

Simple == {"ptr","slice","array0","array1","array2","map_s","map_i","map_t","iface"}
(* struct steps: "struct:<opts>:<sibling>" *)
StructSteps ==
  { "struct:" \o o \o ":" \o s :
      o \in {"plain","omitempty","string","omitempty+string"},
      s \in {"alone","before-int","before-ptrstr","before-iface","after-int","after-ptrstr","after-iface",
              "mid-int","mid-ptrstr"} }       \* mid: a sibling before AND after (the member is neither first nor last)
EmbedSteps == {"embedV","embedP","embedV-shadowed","embedP-shadowed"}
(* named-member steps: the type so far becomes the member of a struct whose JSON member NAME needs care: characters that HTML *)
(* escaping respells (<, >, &), a multi-byte letter.  The program copies for escaped / unescaped keys and for values reached  *)
(* through interface{} carry the member names pre-rendered, so the name's spelling is part of the type, not of the value.     *)
NameSteps == {"struct-named:lt","struct-named:gt","struct-named:amp","struct-named:mixed","struct-named:u2",
              "map_p"}     \* map[*int]T: a key type Go does not support (neither string, integer nor TextMarshaler): an error, never a document
AllSteps == Simple \cup StructSteps \cup EmbedSteps \cup NameSteps

IsStructStep(s) == s \in StructSteps
(* embedding needs a struct: only directly after a struct step *)
CanApply(t, s) ==
  IF s \in EmbedSteps THEN t.steps # <<>> /\ IsStructStep(t.steps[Len(t.steps)]) ELSE TRUE

VARIABLE ty
Init == \E l \in Leaves : ty = [leaf |-> l, steps |-> <<>>]
Step(s) == /\ Len(ty.steps) < MaxSteps /\ CanApply(ty, s)
           /\ ty' = [ty EXCEPT !.steps = Append(@, s)]
Next == \E s \in Steps : Step(s)
Spec == Init /\ [][Next]_ty

(* The member matrix: every leaf, directly or behind one pointer, as a struct member with every combination of tag options  *)
(* and sibling position (the encoder and decoder have one opcode / decoder per leaf kind x pointer x option x position).   *)
MatrixNext == \E s \in Steps :
                /\ Step(s)
                /\ (s = "ptr" => ty.steps = <<>>)
                /\ (ty.steps # <<>> => ~IsStructStep(ty.steps[Len(ty.steps)]))
MatrixSpec == Init /\ [][MatrixNext]_ty

TypeOK == ty.leaf \in AllLeaves /\ \A i \in DOMAIN ty.steps : ty.steps[i] \in AllSteps
(* an embed step is always preceded by a struct step *)
EmbedDiscipline == \A i \in DOMAIN ty.steps : ty.steps[i] \in EmbedSteps => (i > 1 /\ IsStructStep(ty.steps[i-1]))
Export == PrintT(<<"TYPE", ToJson(ty)>>)

ASSUME Leaves \subseteq AllLeaves /\ Steps \subseteq AllSteps
=============================================================================
