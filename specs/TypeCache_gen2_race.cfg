SPECIFICATION Spec
CONSTANTS
  Procs = {"g1", "g2"}
  FastTypes = {"A", "Q"}
  SlowTypes = {"H"}
  QType = "Q"
  Sides = {"enc"}
  Variant = "race"
  MaxCalls = 2
  Deviations = {}

INVARIANTS OwnProgram Export
