SPECIFICATION Spec
CONSTANTS
  MaxSteps = 3
  Leaves = {"bool","int","int8","int16","int32","int64","uint","uint8","uint16","uint32","uint64","uintptr","float32","float64","string","bytes","MarshalerV","MarshalerP","TextV","TextP","Time","Number","Raw","Rec","RecMap","MutualA","UnmarshalerP","TextUnmarshalerP","Empty","PtrField","Scripted","BothP","BothV"}
  Steps = {"ptr","slice","array1","map_s","iface","struct:plain:alone","struct:omitempty:before-int","embedP"}
INVARIANTS TypeOK EmbedDiscipline Export
CHECK_DEADLOCK FALSE
