SPECIFICATION Spec
CONSTANTS
  Procs = {"g1", "g2"}
  FastTypes = {"A", "Q"}
  SlowTypes = {"H"}
  QType = "Q"
  Sides = {"enc", "dec"}
  Variant = "race"
  MaxCalls = 2
  Deviations = {}
VIEW view
INVARIANTS OwnProgram SlotOwner LockSane NoLockLeak
