\* a declared extent one slot short of the slots used: TLC must FIND the stale load
SPECIFICATION Spec
CONSTANTS
  Programs = {"p", "q"}
  UsedP = 3
  UsedQ = 2
  MaxDepth = 2
  MaxSteps = 5
  Deviations = {"ExtentTooSmall"}
INVARIANTS NoStaleLoad
CHECK_DEADLOCK FALSE
