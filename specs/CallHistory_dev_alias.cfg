\* returning the pooled buffer instead of a copy: TLC must find the clobbered result
SPECIFICATION Spec
CONSTANTS
  Kinds = {"plain"}
  MaxCalls = 2
  MaxCtx = 1
  ResetSet = {"buf", "flags", "payload", "indent", "seen", "refs"}
  Deviations = {"ReturnPooled"}
INVARIANTS ResultsStable
CHECK_DEADLOCK FALSE
