SPECIFICATION Spec
CONSTANTS
  MaxDepth = 3
  MaxLen = 6
  Alphabet = {"lb","rb","lc","rc","cm","cl","q","z","sp"}
INVARIANTS ErrorIffInvalid OutputIsValid CompactIdempotent IndentIdempotent CompactAfterIndent CompactDropsOnlySpace IndentDepthOK
CHECK_DEADLOCK FALSE
