SPECIFICATION Spec
CONSTANTS
  MaxLen = 3
  DecLen = 2
INVARIANTS RoundTrip NoForbidden NormalisedIsWellFormed
CHECK_DEADLOCK FALSE
