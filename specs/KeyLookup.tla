------------------------------ MODULE KeyLookup ------------------------------
(***************************************************************************)
(* Which struct field does an object key select? (C15)                      *)
(*                                                                         *)
(* Reference (encoding/json): Select(fields, key) - an exact match of the   *)
(* DECODED key wins; otherwise the first field (in declaration order)       *)
(* whose name is equal under case folding; otherwise none.                  *)
(*                                                                         *)
(* Implementation-shaped half: go-json's bitmap matcher                     *)
(* (internal/decoder/struct.go tryOptimize / decodeKeyByBitmapUint8):       *)
(* field names are lower-cased and sorted; bit i of bitmap[pos][c] is set   *)
(* when sorted field i has byte c at position pos.  The key is read byte by *)
(* byte (escapes decoded first), lower-cased, and AND-ed into curBit; at    *)
(* the closing quote the lowest set bit names the candidate, which is       *)
(* accepted only if the key is at least as long as the candidate ("early    *)
(* match" otherwise).  The matcher is only used when no two names collide   *)
(* after lower-casing (otherwise the implementation falls back to a map).   *)
(*                                                                         *)
(* Key characters are ITEMS: <<c, esc>> with esc = TRUE when the character  *)
(* is spelled as a \uXXXX escape (6 raw bytes instead of 1).  The constant  *)
(* Deviations may contain "RawLenEarlyMatch": the key length used by the    *)
(* early-match test is then the RAW (escaped) length, as in the code before *)
(* it is repaired - TLC then finds the wrong-field counterexample.          *)
(***************************************************************************)
EXTENDS Naturals, Sequences, FiniteSets, TLC, Json

CONSTANTS Chars,        \* alphabet of name / key characters
          MaxName,      \* longest field name
          MaxFields,    \* most fields
          MaxKey,       \* longest key
          Deviations

(* case folding on the alphabet: upper-case letters fold to their lower-case partner *)
Lower(c) == CASE c = "A" -> "a" [] c = "B" -> "b" [] OTHER -> c
RECURSIVE LowerSeq(_)
LowerSeq(s) == IF s = <<>> THEN <<>> ELSE <<Lower(Head(s))>> \o LowerSeq(Tail(s))

RECURSIVE SeqsOfLen(_)
SeqsOfLen(n) == IF n = 0 THEN {<<>>} ELSE { Append(s, c) : s \in SeqsOfLen(n - 1), c \in Chars }
Names == UNION { SeqsOfLen(n) : n \in 1..MaxName }

(* ---- reference ---- *)
KeyText(items) == [i \in DOMAIN items |-> items[i][1]]
Select(fields, items) ==
  LET k == KeyText(items)
      exact == { i \in DOMAIN fields : fields[i] = k }
      fold  == { i \in DOMAIN fields : LowerSeq(fields[i]) = LowerSeq(k) } IN
  IF exact # {} THEN CHOOSE i \in exact : \A j \in exact : i <= j
  ELSE IF fold # {} THEN CHOOSE i \in fold : \A j \in fold : i <= j
  ELSE 0

(* ---- bitmap matcher ---- *)
RECURSIVE LexLess(_, _)
LexLess(a, b) ==        \* byte order on the model alphabet: the order of the strings "A" < "B" < "_" < "a" < "b"
  LET rank(c) == CASE c = "A" -> 1 [] c = "B" -> 2 [] c = "_" -> 3 [] c = "a" -> 4 [] c = "b" -> 5 [] OTHER -> 6 IN
  IF a = <<>> THEN b # <<>>
  ELSE IF b = <<>> THEN FALSE
  ELSE IF rank(Head(a)) # rank(Head(b)) THEN rank(Head(a)) < rank(Head(b))
  ELSE LexLess(Tail(a), Tail(b))

Eligible(fields) == \A i, j \in DOMAIN fields : i # j => LowerSeq(fields[i]) # LowerSeq(fields[j])

(* position of field i among the lower-cased names in sorted order (1-based) *)
Rank(fields, i) == 1 + Cardinality({ j \in DOMAIN fields : LexLess(LowerSeq(fields[j]), LowerSeq(fields[i])) })

RawLen(items) == LET n == Len(items) IN
  n + 5 * Cardinality({ i \in DOMAIN items : items[i][2] })

BitmapSelect(fields, items) ==
  LET k == LowerSeq(KeyText(items))
      (* fields still compatible with every key byte read (a field shorter than the key drops out) *)
      cand == { i \in DOMAIN fields :
                  /\ Len(fields[i]) >= Len(k)
                  /\ \A p \in DOMAIN k : LowerSeq(fields[i])[p] = k[p] }
      klen == IF "RawLenEarlyMatch" \in Deviations THEN RawLen(items) ELSE Len(k) IN
  IF k = <<>> \/ cand = {} THEN 0
  ELSE LET best == CHOOSE i \in cand : \A j \in cand : Rank(fields, i) <= Rank(fields, j) IN
       IF klen < Len(fields[best]) THEN 0 ELSE best

-----------------------------------------------------------------------------
VARIABLES fields, key, phase
vars == <<fields, key, phase>>

Init == fields = <<>> /\ key = <<>> /\ phase = "fields"
AddField == /\ phase = "fields" /\ Len(fields) < MaxFields
            /\ \E n \in Names : (\A i \in DOMAIN fields : fields[i] # n) /\ fields' = Append(fields, n)
            /\ UNCHANGED <<key, phase>>
StartKey == phase = "fields" /\ fields # <<>> /\ phase' = "key" /\ UNCHANGED <<fields, key>>
AddItem == /\ phase = "key" /\ Len(key) < MaxKey
           /\ \E c \in Chars, e \in BOOLEAN : key' = Append(key, <<c, e>>)
           /\ UNCHANGED <<fields, phase>>
Next == AddField \/ StartKey \/ AddItem
Spec == Init /\ [][Next]_vars

(* the matcher implements the reference wherever the implementation uses it *)
Refines == (phase = "key" /\ key # <<>> /\ Eligible(fields)) => BitmapSelect(fields, key) = Select(fields, key)
(* the spelling of a key never matters *)
SpellingIrrelevant ==
  (phase = "key") => Select(fields, key) = Select(fields, [i \in DOMAIN key |-> <<key[i][1], FALSE>>])
(* a key selects a field only if it equals the field's name up to case *)
NeverPrefixOrExtension ==
  (phase = "key" /\ Select(fields, key) # 0) => LowerSeq(fields[Select(fields, key)]) = LowerSeq(KeyText(key))

Export == (phase = "key" /\ key # <<>>) =>
  PrintT(<<"CASE", ToJson([fields |-> fields, key |-> key, expect |-> Select(fields, key), eligible |-> Eligible(fields)])>>)
=============================================================================
