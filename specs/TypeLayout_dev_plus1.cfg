SPECIFICATION Spec
CONSTANTS
  Sizes = {3, 4, 7}
  Align = 2
  MaxTypes = 3
  Start = 8
  Cap = 1000
  Deviations = {"NoPlusOne"}
INVARIANTS InTable
CHECK_DEADLOCK FALSE
