SPECIFICATION Spec
CONSTANTS
  Sizes = {3, 4, 7}
  Align = 2
  MaxTypes = 4
  Start = 8
  Cap = 1000
  Deviations = {}
INVARIANTS InTable Injective Guarded ListedInside PitchAtLeast64
CHECK_DEADLOCK FALSE
