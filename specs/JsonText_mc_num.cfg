\* number alphabet
SPECIFICATION Spec
CONSTANTS
  MaxDepth = 1
  MaxLen = 6
  Alphabet = {"mi","pl","dt","z","d","e","E","sp","cm","lb","rb"}
INVARIANTS TypeOK AgreesWithGrammar RunIsIncremental RejectHasNoStack
PROPERTIES RejectAbsorbing
CHECK_DEADLOCK FALSE
