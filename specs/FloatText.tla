------------------------------ MODULE FloatText ------------------------------
(***************************************************************************)
(* The text of a floating-point member (C01, C04, C16's sibling for floats). *)
(*                                                                         *)
(* encoding/json prints a finite float by its SHORTEST decimal              *)
(* representation  d1.d2...dn x 10^X  (d1 # 0, dn # 0 unless n = 1) in one  *)
(* of two layouts:                                                           *)
(*   - plain decimal when  -6 <= X < 21 :  digits, padded with zeros up to  *)
(*     the decimal point, or "0." followed by -X-1 zeros and the digits;    *)
(*   - exponent form otherwise:  d1[.d2...dn]e(+|-)XX  with at least two    *)
(*     exponent digits, except that a NEGATIVE exponent below ten loses its *)
(*     leading zero ("1e-07" is written "1e-7").                            *)
(* Zero prints as 0 / -0.  The thresholds are the same for float32.         *)
(* Text(sign, D, X) is that function; TLC enumerates every digit string of  *)
(* up to MaxDigits digits and every exponent in MinX..MaxX, checks the laws *)
(* below and exports number + text.  The harness parses the text into a     *)
(* float64 / float32, encodes it in several positions and compares with the *)
(* exported text and with encoding/json.                                    *)
(***************************************************************************)
EXTENDS Integers, Sequences, TLC, Json

CONSTANTS MaxDigits, NegX, MaxX     \* exponents range over -NegX..MaxX (a cfg file cannot hold a negative number)
MinX == -NegX

DigitChar(d) == CASE d = 0 -> "0" [] d = 1 -> "1" [] d = 2 -> "2" [] d = 3 -> "3" [] d = 4 -> "4"
                  [] d = 5 -> "5" [] d = 6 -> "6" [] d = 7 -> "7" [] d = 8 -> "8" [] d = 9 -> "9"
RECURSIVE Digits(_), Zeros(_), Nat2(_)
Digits(D) == IF D = <<>> THEN "" ELSE DigitChar(Head(D)) \o Digits(Tail(D))
Zeros(n) == IF n <= 0 THEN "" ELSE "0" \o Zeros(n - 1)
Nat2(n) == IF n < 10 THEN DigitChar(n) ELSE Nat2(n \div 10) \o DigitChar(n % 10)

Plain(D, X) ==
  LET n == Len(D) IN
  IF X >= 0
  THEN IF n <= X + 1 THEN Digits(D) \o Zeros(X + 1 - n)
       ELSE Digits(SubSeq(D, 1, X + 1)) \o "." \o Digits(SubSeq(D, X + 2, n))
  ELSE "0." \o Zeros(-X - 1) \o Digits(D)

Expo(D, X) ==
  LET mant == IF Len(D) = 1 THEN Digits(D) ELSE Digits(<<D[1]>>) \o "." \o Digits(Tail(D))
      ax == IF X < 0 THEN -X ELSE X
      es == IF X < 0 THEN (IF ax < 10 THEN Nat2(ax) ELSE Nat2(ax))        \* negative: the padding zero is removed
            ELSE (IF ax < 10 THEN "0" \o Nat2(ax) ELSE Nat2(ax)) IN
  mant \o "e" \o (IF X < 0 THEN "-" ELSE "+") \o es

UsesExponent(X) == X < -6 \/ X >= 21
Text(neg, D, X) == (IF neg THEN "-" ELSE "") \o (IF UsesExponent(X) THEN Expo(D, X) ELSE Plain(D, X))

RECURSIVE SeqsOfLen(_)
SeqsOfLen(n) == IF n = 0 THEN {<<>>} ELSE { Append(s, d) : s \in SeqsOfLen(n - 1), d \in 0..9 }
Shortest(D) == D[1] # 0 /\ (Len(D) = 1 \/ D[Len(D)] # 0)
DigitStrings == { D \in UNION { SeqsOfLen(n) : n \in 1..MaxDigits } : Shortest(D) }

VARIABLE done
Init == done = FALSE
Next == ~done /\ done' = TRUE
Spec == Init /\ [][Next]_done

(* laws *)
ASSUME \A D \in DigitStrings, X \in MinX..MaxX :
   (* the plain layout never needs an exponent marker and the exponent layout has exactly one; both keep every digit *)
   /\ UsesExponent(X) => Expo(D, X) # Plain(D, X)
   /\ PrintT(<<"FLOAT", ToJson([digits |-> D, x |-> X, text |-> Text(FALSE, D, X), neg |-> Text(TRUE, D, X)])>>)
(* the two thresholds *)
ASSUME Text(FALSE, <<1>>, 20) = "100000000000000000000" /\ Text(FALSE, <<1>>, 21) = "1e+21"
ASSUME Text(FALSE, <<1>>, -6) = "0.000001" /\ Text(FALSE, <<1>>, -7) = "1e-7" /\ Text(FALSE, <<1, 5>>, -10) = "1.5e-10"
ASSUME Text(TRUE, <<1, 2, 3>>, 1) = "-12.3" /\ Text(FALSE, <<1, 2, 3>>, 2) = "123" /\ Text(FALSE, <<1, 2, 3>>, 4) = "12300"
=============================================================================
