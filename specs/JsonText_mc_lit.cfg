\* literal alphabet
SPECIFICATION Spec
CONSTANTS
  MaxDepth = 1
  MaxLen = 6
  Alphabet = {"t","r","u","e","f","a","l","s","n","sp","NUL"}
INVARIANTS TypeOK AgreesWithGrammar RunIsIncremental RejectHasNoStack
PROPERTIES RejectAbsorbing
CHECK_DEADLOCK FALSE
