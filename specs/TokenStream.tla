----------------------------- MODULE TokenStream -----------------------------
(***************************************************************************)
(* The token sequence of a JSON text (Decoder.Token, C09).                  *)
(*                                                                         *)
(* encoding/json's Decoder.Token returns, for a valid text, the delimiters  *)
(* [ ] { } and the scalar values (object keys are returned as strings);     *)
(* commas and colons are not tokens.  The sequence is a function of the     *)
(* run of JsonText's automaton: a transition that pushes a container emits  *)
(* its opening delimiter, a transition that pops emits the closing one of   *)
(* the container on top of the stack, and a transition that STARTS a scalar *)
(* (from a mode that expects a value or a key) emits the scalar's kind.  No *)
(* transition does two of these, so TokenEvent labels the transition table  *)
(* and is exported with it; the harness derives the expected token kinds of *)
(* every document from the table and compares them with encoding/json       *)
(* (third voice) and with the library, whole and under every single cut.     *)
(***************************************************************************)
EXTENDS JsonText

ValueModes == {"V", "A0", "K0", "K"}
TokenEvent(m, t, c) ==
  LET r == StepFn(m, t, c) IN
  CASE r.mode = "REJ"  -> ""
    [] r.op = "pushA"  -> "["
    [] r.op = "pushK"  -> "{"
    [] r.op = "pop"    -> IF t = "A" THEN "]" ELSE "}"
    [] m \in ValueModes /\ r.mode = "S" -> "str"
    [] m \in ValueModes /\ r.mode \in {"NM", "N0", "NI"} -> "num"
    [] m \in ValueModes /\ r.mode = "T1" -> "true"
    [] m \in ValueModes /\ r.mode = "F1" -> "false"
    [] m \in ValueModes /\ r.mode = "L1" -> "null"
    [] OTHER -> ""

RECURSIVE TokensFrom(_, _)
TokensFrom(cfg, s) ==
  IF s = <<>> \/ cfg[1] = "REJ" THEN <<>>
  ELSE LET e == TokenEvent(cfg[1], Top(cfg[2]), Head(s)) IN
       (IF e = "" THEN <<>> ELSE <<e>>) \o TokensFrom(Step(cfg, Head(s)), Tail(s))
Tokens(s) == TokensFrom(<<"V", <<>>>>, s)

(* closing delimiters match the opening ones *)
RECURSIVE Matched(_, _)
Matched(toks, st) ==
  IF toks = <<>> THEN st = <<>>
  ELSE LET x == Head(toks) IN
       IF x \in {"[", "{"} THEN Matched(Tail(toks), Append(st, x))
       ELSE IF x = "]" THEN st # <<>> /\ st[Len(st)] = "[" /\ Matched(Tail(toks), SubSeq(st, 1, Len(st) - 1))
       ELSE IF x = "}" THEN st # <<>> /\ st[Len(st)] = "{" /\ Matched(Tail(toks), SubSeq(st, 1, Len(st) - 1))
       ELSE Matched(Tail(toks), st)

(* an accepted text yields a matched, non-empty token sequence; exactly one top-level value *)
TokensWellFormed == Accepting(<<mode, stack>>) => (Tokens(inp) # <<>> /\ Matched(Tokens(inp), <<>>))
(* the open delimiters of a prefix are exactly the automaton's stack *)
RECURSIVE OpenOf(_, _)
OpenOf(toks, st) ==
  IF toks = <<>> THEN st
  ELSE LET x == Head(toks) IN
       IF x \in {"[", "{"} THEN OpenOf(Tail(toks), Append(st, x))
       ELSE IF x \in {"]", "}"} THEN OpenOf(Tail(toks), SubSeq(st, 1, Len(st) - 1))
       ELSE OpenOf(Tail(toks), st)
StackIsOpenDelims ==
  mode # "REJ" => LET o == OpenOf(Tokens(inp), <<>>) IN
                  Len(o) = Len(stack) /\ \A i \in DOMAIN o : (o[i] = "[") <=> (stack[i] = "A")
(* one event per transition at most: labelling the table loses nothing *)
ASSUME \A m \in Modes, t \in Tops, c \in Sym :
   LET r == StepFn(m, t, c) IN
   ~(r.op \in {"pushA", "pushK", "pop"} /\ m \in ValueModes /\ r.mode \in {"S", "NM", "N0", "NI", "T1", "F1", "L1"})
=============================================================================
