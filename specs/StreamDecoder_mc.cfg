SPECIFICATION Spec
CONSTANTS
  DocLen = 9
  InitBuf = 3
  MaxBuf = 24
INVARIANTS Bounds Sentinel NoHoles Conservation IndexConservation OffsetAccounting ReadNeverPanics
PROPERTIES GrowthOnly ReadRefinesIdx ResetRefinesIdx
CHECK_DEADLOCK FALSE
