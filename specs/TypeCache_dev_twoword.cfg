SPECIFICATION Spec
CONSTANTS
  Procs = {"g1", "g2"}
  FastTypes = {"A", "B"}
  SlowTypes = {"H"}
  QType = ""
  Sides = {"dec"}
  Variant = "norace"
  MaxCalls = 1
  Deviations = {"TwoWordSlot"}
VIEW view
INVARIANTS OwnProgram
