----------------------------- MODULE CallHistory -----------------------------
(***************************************************************************)
(* Results depend only on the arguments (C11); no aliasing between caller   *)
(* data and library buffers (C12).                                          *)
(*                                                                         *)
(* The library keeps pooled scratch contexts.  A context has FIELDS (output *)
(* buffer, option flags, option payload such as colour scheme / debug       *)
(* writer / context, indent settings, seen-pointer stack, keep-alive refs,  *)
(* decoder option flags, slice scratch arrays).  Each field carries the id  *)
(* of the call that last wrote it.  A call                                  *)
(*   Take    a context (a released one, or a fresh one),                    *)
(*   Reset   the fields the entry point re-initialises,                     *)
(*   Use     reads the fields its kind needs and writes those it changes,   *)
(*   Release the context (or leaks it when the call panics).                *)
(* The design invariant is NoStaleRead: a call never reads a field last     *)
(* written by an EARLIER call.  Which fields an entry point resets is the   *)
(* parameter ResetSet; with the full set the invariant holds, and TLC shows *)
(* for every field that dropping it from ResetSet breaks the invariant      *)
(* (so every field matters).  Returned buffers are modelled by ownership:   *)
(* Return hands a COPY to the caller unless the deviation "ReturnPooled" is *)
(* on, in which case a later call's write to the pooled buffer changes an   *)
(* earlier result (invariant ResultsStable).                                *)
(*                                                                         *)
(* Every explored history (sequence of call kinds) is exported; the harness *)
(* executes it in ONE process and compares each call with the same call     *)
(* made first in a fresh process.                                           *)
(***************************************************************************)
EXTENDS Naturals, Sequences, FiniteSets, TLC, Json

CONSTANTS Kinds,        \* call kinds explored
          MaxCalls,     \* history length
          MaxCtx,       \* contexts ever created
          ResetSet,     \* fields re-initialised at the start of every call
          Deviations

Fields == {"buf", "flags", "payload", "indent", "seen", "refs"}
(* fields a kind reads and writes (failing kinds stop half-way: they write but do not clean up) *)
Reads(k)  == CASE k \in {"plain", "fail"} -> {"buf", "flags", "seen", "refs"}
               [] k = "indent" -> {"buf", "flags", "indent", "seen", "refs"}
               [] k = "option" -> {"buf", "flags", "payload", "seen", "refs"}
               [] k = "ctxaware" -> {"buf", "flags", "payload", "seen", "refs"}   \* a plain call that reaches a context-aware (un)marshaler
               [] OTHER -> {"buf", "flags"}
Writes(k) == CASE k = "indent" -> {"buf", "indent", "seen", "refs"}
               [] k = "option" -> {"buf", "flags", "payload", "seen", "refs"}
               [] k = "fail" -> {"buf", "seen", "refs"}
               [] OTHER -> {"buf", "seen", "refs"}
Panics(k) == k = "panic"

VARIABLES pool,      \* released contexts
          tag,       \* ctx -> field -> id of the call that last wrote it (0 = never)
          nctx, hist,
          stale,     \* a stale read happened
          owner,     \* result id -> "caller" or the ctx whose buffer it aliases
          clobbered  \* some earlier result was overwritten
vars == <<pool, tag, nctx, hist, stale, owner, clobbered>>

Init == pool = {} /\ tag = << >> /\ nctx = 0 /\ hist = <<>> /\ stale = FALSE /\ owner = << >> /\ clobbered = FALSE

Call(k, c, isFresh) ==
  LET id == Len(hist) + 1
      t0 == IF isFresh THEN [f \in Fields |-> id] ELSE tag[c]            \* a fresh context is zero-initialised by this call
      t1 == [f \in Fields |-> IF f \in ResetSet THEN id ELSE t0[f]]       \* Reset
      staleRead == \E f \in Reads(k) : t1[f] # id /\ t1[f] # 0
      t2 == [f \in Fields |-> IF f \in Writes(k) THEN id ELSE t1[f]] IN
  /\ Len(hist) < MaxCalls
  /\ hist' = Append(hist, k)
  /\ stale' = (stale \/ staleRead)
  /\ tag' = [x \in DOMAIN tag \cup {c} |-> IF x = c THEN t2 ELSE tag[x]]
  /\ pool' = IF Panics(k) THEN pool \ {c} ELSE pool \cup {c}              \* a panicking call leaks its context
  /\ clobbered' = (clobbered \/ \E r \in DOMAIN owner : owner[r] = c)     \* writing buf of c changes results that alias it
  /\ owner' = [r \in DOMAIN owner \cup {id} |-> IF r = id THEN (IF "ReturnPooled" \in Deviations THEN c ELSE 0) ELSE owner[r]]
  /\ UNCHANGED nctx

Reuse(k) == \E c \in pool : Call(k, c, FALSE)
FreshStep(k) ==
  /\ nctx < MaxCtx
  /\ LET c == nctx + 1
         id == Len(hist) + 1 IN
     /\ Len(hist) < MaxCalls
     /\ hist' = Append(hist, k)
     /\ stale' = stale
     /\ tag' = [x \in DOMAIN tag \cup {c} |-> IF x = c THEN [f \in Fields |-> id] ELSE tag[x]]
     /\ pool' = IF Panics(k) THEN pool ELSE pool \cup {c}
     /\ clobbered' = clobbered
     /\ owner' = [r \in DOMAIN owner \cup {id} |-> IF r = id THEN (IF "ReturnPooled" \in Deviations THEN c ELSE 0) ELSE owner[r]]
     /\ nctx' = nctx + 1
Next == \E k \in Kinds : Reuse(k) \/ FreshStep(k)
Spec == Init /\ [][Next]_vars

NoStaleRead   == ~stale
ResultsStable == ~clobbered
Export == PrintT(<<"HISTORY", ToJson(hist)>>)
=============================================================================
