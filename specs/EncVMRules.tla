----------------------------- MODULE EncVMRules -----------------------------
(* State updates of the encoder's frame discipline, shared by EncVM (the     *)
(* protocol model) and EncVMTrace (validation of recorded slot accesses).    *)
(* A frame is [id, base]; `writer` maps an absolute slot to the id of the    *)
(* frame that last stored into it (0 = not written in this encoding).        *)
EXTENDS Naturals, Sequences

TopOf(stack) == stack[Len(stack)]
OnStack(stack, id) == \E k \in DOMAIN stack : stack[k].id = id

(* the frame an access with frame base b belongs to: same base = current frame; higher = a push; lower = a return *)
RECURSIVE PopTo(_, _)
PopTo(stack, b) == IF stack = <<>> THEN <<>> ELSE IF TopOf(stack).base = b THEN stack ELSE PopTo(SubSeq(stack, 1, Len(stack) - 1), b)

(* rule broken by a load of absolute slot s, or "none" *)
LoadRule(stack, writer, s) ==
  IF s \notin DOMAIN writer \/ writer[s] = 0 THEN "none"                 \* never stored in this encoding: set up outside load/store
  ELSE IF ~OnStack(stack, writer[s]) THEN "load-of-slot-written-by-a-returned-frame"
  ELSE "none"
=============================================================================
