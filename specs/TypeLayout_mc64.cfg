SPECIFICATION Spec
CONSTANTS
  Sizes = {3, 5}
  Align = 4
  MaxTypes = 4
  Start = 8
  Cap = 1000
  Deviations = {}
INVARIANTS InTable Injective Guarded ListedInside PitchAtLeast64
CHECK_DEADLOCK FALSE
