SPECIFICATION Spec
CONSTANTS
  Procs = {"g1", "g2", "g3"}
  FastTypes = {"A", "Q"}
  SlowTypes = {"H"}
  QType = "Q"
  Sides = {"enc"}
  Variant = "norace"
  MaxCalls = 1
  Deviations = {}
VIEW view
INVARIANTS OwnProgram SlotOwner LockSane NoLockLeak
