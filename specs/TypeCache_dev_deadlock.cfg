SPECIFICATION Spec
CONSTANTS
  Procs = {"g1"}
  FastTypes = {"A", "Q"}
  SlowTypes = {"H"}
  QType = "Q"
  Sides = {"enc"}
  Variant = "race"
  MaxCalls = 2
  Deviations = {"FilterUnderReadLock"}
VIEW view
INVARIANTS OwnProgram
