SPECIFICATION Spec
CONSTANTS
  PathChars = {"$", ".", "[", "]", "*", "'", "\"", "0", "1", "a", "b"}
  MaxPathLen = 6
  Deviations = {}
  MaxSelectors = 3
INVARIANTS Balanced RootSelectsAll ExportPath
CHECK_DEADLOCK FALSE
