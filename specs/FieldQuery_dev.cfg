\* the in-place filtering slip must be FOUND by TLC
SPECIFICATION Spec
CONSTANTS
  MaxPaths = 1
  MaxHist = 3
  Deviations = {"InPlaceFilter"}
INVARIANTS ResultDependsOnQueryOnly
CHECK_DEADLOCK FALSE
