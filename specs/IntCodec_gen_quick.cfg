\* conformance cases: every literal within Width of every bound, long literals, ill-formed forms
SPECIFICATION Spec
CONSTANTS
  Width = 130
  MaxDigits = 25
INVARIANTS RoundTrip BoundSharp Export
CHECK_DEADLOCK FALSE
