\* strings, escapes and numbers next to structure and white space
SPECIFICATION Spec
CONSTANTS
  MaxDepth = 2
  MaxLen = 6
  Alphabet = {"lb","rb","cm","q","bs","d","dt","sp","wc","n"}
INVARIANTS ErrorIffInvalid OutputIsValid CompactIdempotent IndentIdempotent CompactAfterIndent CompactDropsOnlySpace IndentDepthOK
CHECK_DEADLOCK FALSE
