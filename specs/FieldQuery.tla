------------------------------ MODULE FieldQuery ------------------------------
(***************************************************************************)
(* Field queries project exactly the selected fields (C19).                 *)
(*                                                                         *)
(* A query is a set of SELECTOR PATHS into the struct tree, e.g.            *)
(* {<<"X">>, <<"P","A">>, <<"P","C","D">>}: field X entirely, and of P only *)
(* A and, inside C, D.  Project(doc, q) is the reference: the document       *)
(* Marshal produces, restricted to the selected struct members - the same    *)
(* sub-query applying through pointers, slices, maps and interfaces; names   *)
(* that do not exist select nothing.                                        *)
(*                                                                         *)
(* The per-type cache of filtered programs is modelled as a state machine:   *)
(* `stored` is the type's full field tree from which every filtered program  *)
(* is derived, `cache` maps a query's text to the program compiled for it.   *)
(* Encode(q) uses the cached program or derives one from `stored`.  The      *)
(* design leaves `stored` untouched; the named deviation "InPlaceFilter"     *)
(* narrows `stored` while filtering (a realistic slip) and TLC then finds a  *)
(* history in which a later query sees too few fields.                       *)
(***************************************************************************)
EXTENDS Naturals, Sequences, FiniteSets, TLC, Json

CONSTANTS MaxPaths,     \* selector paths per query
          MaxHist,      \* encodings per history
          Deviations

(* ---- documents: uniform records; "obj" = struct (filterable), "map" = Go map (transparent) ---- *)
Num(n)      == [t |-> "num", keys |-> <<>>, vals |-> <<>>, v |-> n, s |-> ""]
Str(x)      == [t |-> "str", keys |-> <<>>, vals |-> <<>>, v |-> 0, s |-> x]
Null        == [t |-> "null", keys |-> <<>>, vals |-> <<>>, v |-> 0, s |-> ""]
Arr(es)     == [t |-> "arr", keys |-> <<>>, vals |-> es, v |-> 0, s |-> ""]
Obj(ks, vs) == [t |-> "obj", keys |-> ks, vals |-> vs, v |-> 0, s |-> ""]
Map(ks, vs) == [t |-> "map", keys |-> ks, vals |-> vs, v |-> 0, s |-> ""]

J(d, e)    == Obj(<<"D","E">>, <<Num(d), Num(e)>>)
I(a, b, c) == Obj(<<"A","B","C">>, <<Num(a), Str(b), c>>)
(* type T struct{ X int; P *I; V I; S []I; M map[string]I; F interface{}; K *CI }  with I{A int; B string; C J}, J{D, E int};   *)
(* CI has the shape of I and a context-aware marshaler MarshalJSON(ctx) that forwards ctx to MarshalContext: the sub-query of K  *)
(* must reach it through the context.                                                                                         *)
Value1 == Obj(<<"X","P","V","S","M","F","K">>,
              << Num(1), I(2, "p", J(3, 4)), I(5, "v", J(6, 7)),
                 Arr(<<I(8, "s", J(9, 1)), I(2, "t", J(3, 4))>>),
                 Map(<<"k1","k2">>, <<I(5, "m", J(6, 7)), I(8, "n", J(9, 1))>>),
                 I(2, "f", J(3, 4)), I(7, "k", J(8, 9)) >>)
Value2 == Obj(<<"X","P","V","S","M","F","K">>,
              << Num(0), Null, I(0, "", J(0, 0)), Arr(<<>>), Map(<<>>, <<>>), Null, Null >>)
Values == <<Value1, Value2>>

RECURSIVE Text(_), TextList(_, _, _)
Text(d) ==
  CASE d.t = "num" -> ToString(d.v)
    [] d.t = "str" -> "\"" \o d.s \o "\""
    [] d.t = "null" -> "null"
    [] d.t = "arr" -> "[" \o TextList(<<>>, d.vals, 1) \o "]"
    [] OTHER -> "{" \o TextList(d.keys, d.vals, 1) \o "}"
TextList(ks, vs, i) ==
  IF i > Len(vs) THEN ""
  ELSE (IF i > 1 THEN "," ELSE "") \o (IF ks # <<>> THEN "\"" \o ks[i] \o "\":" ELSE "") \o Text(vs[i]) \o TextList(ks, vs, i + 1)

(* ---- queries as sets of selector paths ---- *)
AllPaths == { <<"X">>, <<"Z">>, <<"P">>, <<"P","A">>, <<"P","B">>, <<"P","C">>, <<"P","C","D">>, <<"P","C","Q">>, <<"P","Q">>,
              <<"V">>, <<"V","A">>, <<"V","C","E">>, <<"S">>, <<"S","A">>, <<"S","C","D">>, <<"M">>, <<"M","B">>, <<"F">>, <<"F","A">>,
              <<"K">>, <<"K","A">>, <<"K","C","E">> }

Heads(q) == { p[1] : p \in q }
(* a path of length 1 selects the whole member; otherwise only the sub-paths *)
Whole(q, n) == <<n>> \in q
Sub(q, n) == { Tail(p) : p \in { x \in q : x[1] = n /\ Len(x) > 1 } }

RECURSIVE Project(_, _), ProjectList(_, _, _)
Project(d, q) ==
  CASE d.t = "obj" ->
         LET keep == SelectSeq([i \in 1..Len(d.keys) |-> i], LAMBDA i : d.keys[i] \in Heads(q)) IN
         Obj([k \in 1..Len(keep) |-> d.keys[keep[k]]],
             [k \in 1..Len(keep) |-> IF Whole(q, d.keys[keep[k]]) THEN d.vals[keep[k]]
                                      ELSE Project(d.vals[keep[k]], Sub(q, d.keys[keep[k]]))])
    [] d.t = "arr" -> Arr(ProjectList(d.vals, q, 1))
    [] d.t = "map" -> Map(d.keys, ProjectList(d.vals, q, 1))
    [] OTHER -> d
ProjectList(vs, q, i) == IF i > Len(vs) THEN <<>> ELSE <<Project(vs[i], q)>> \o ProjectList(vs, q, i + 1)

(* the query in go-json's JSON spelling: ["X",{"P":["A",{"C":["D"]}]}] ; member order follows a fixed name order *)
NameOrder == <<"X","Z","P","V","S","M","F","K","A","B","C","Q","D","E">>
RECURSIVE QText(_), QItems(_, _, _)
QText(q) == "[" \o QItems(q, 1, TRUE) \o "]"
QItems(q, i, first) ==
  IF i > Len(NameOrder) THEN ""
  ELSE LET n == NameOrder[i] IN
       IF n \notin Heads(q) THEN QItems(q, i + 1, first)
       ELSE (IF first THEN "" ELSE ",") \o
            (IF Whole(q, n) THEN "\"" \o n \o "\"" ELSE "{\"" \o n \o "\":" \o QText(Sub(q, n)) \o "}") \o
            QItems(q, i + 1, FALSE)

Queries == { q \in SUBSET AllPaths : Cardinality(q) >= 1 /\ Cardinality(q) <= MaxPaths }

-----------------------------------------------------------------------------
(* cache protocol: histories of queries on one type *)
NoQuery == {}
VARIABLES stored,   \* paths of the type's full field tree still present in the stored Code tree
          cache,    \* query text -> set of paths the cached program emits
          last,     \* [q, emitted] of the last Encode
          steps
vars == <<stored, cache, last, steps>>

FullTree == AllPaths \ {<<"Z">>, <<"P","Q">>, <<"P","C","Q">>}     \* the three names that do not exist
(* what a program derived from tree `tr` under query q emits (as the set of leaf-most selected paths of tr) *)
Emit(tr, q) == { p \in tr : \E s \in q : Len(s) <= Len(p) /\ SubSeq(p, 1, Len(s)) = s }

Init == stored = FullTree /\ cache = << >> /\ last = [q |-> NoQuery, emitted |-> FullTree] /\ steps = 0
Encode(q) ==
  LET key == QText(q) IN
  IF key \in DOMAIN cache
  THEN /\ last' = [q |-> q, emitted |-> cache[key]] /\ UNCHANGED <<stored, cache>>
  ELSE LET prog == Emit(stored, q) IN
       /\ cache' = [k \in DOMAIN cache \cup {key} |-> IF k = key THEN prog ELSE cache[k]]
       /\ last' = [q |-> q, emitted |-> prog]
       /\ stored' = IF "InPlaceFilter" \in Deviations
                    THEN { p \in stored : p[1] \notin Heads(q) \/ Whole(q, p[1]) \/ p \in prog }   \* the stored tree is narrowed
                    ELSE stored
EncodePlain == last' = [q |-> NoQuery, emitted |-> stored] /\ UNCHANGED <<stored, cache>>
HistQueries == { q \in Queries : Cardinality(q) <= 2 /\ \A p \in q : p[1] \in {"X","P","K"} }
Next == steps < MaxHist /\ steps' = steps + 1 /\ ((\E q \in HistQueries : Encode(q)) \/ EncodePlain)
Spec == Init /\ [][Next]_vars

(* every encoding emits exactly what its own query selects from the FULL tree, whatever came before *)
ResultDependsOnQueryOnly ==
  last.emitted = IF last.q = NoQuery THEN FullTree ELSE Emit(FullTree, last.q)
StoredTreeUntouched == stored = FullTree

-----------------------------------------------------------------------------
ASSUME \A q \in Queries :
  PrintT(<<"QUERY", ToJson([query |-> QText(q), paths |-> q,
                            expect |-> [i \in 1..Len(Values) |-> Text(Project(Values[i], q))]])>>)
ASSUME PrintT(<<"PLAIN", ToJson([i \in 1..Len(Values) |-> Text(Values[i])])>>)
(* projection laws *)
ASSUME \A q \in Queries : \A i \in 1..Len(Values) : Project(Project(Values[i], q), q) = Project(Values[i], q)
ASSUME \A i \in 1..Len(Values) : Project(Values[i], { <<"X">>, <<"P">>, <<"V">>, <<"S">>, <<"M">>, <<"F">>, <<"K">> }) = Values[i]
=============================================================================
