SPECIFICATION Spec
CONSTANTS
  Programs = {"p", "q"}
  UsedP = 3
  UsedQ = 2
  MaxDepth = 3
  MaxSteps = 7
  Deviations = {}
INVARIANTS NoStaleLoad InBounds FramesDisjoint
PROPERTIES ReturnRestoresBase
CHECK_DEADLOCK FALSE
