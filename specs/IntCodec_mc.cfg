\* laws of the reference on a small neighbourhood (Monotone is quadratic in the number of literals)
SPECIFICATION Spec
CONSTANTS
  Width = 12
  MaxDigits = 25
INVARIANTS Monotone RoundTrip BoundSharp
CHECK_DEADLOCK FALSE
