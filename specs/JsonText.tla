------------------------------ MODULE JsonText ------------------------------
(***************************************************************************)
(* RFC 8259 recogniser as a pushdown transition system over BYTE CLASSES.  *)
(*                                                                         *)
(* This module is the reference language for C03, C05, C06, C09 and C18.   *)
(* It is written twice on purpose:                                         *)
(*   - StepFn / Byte : the operational automaton (one action per input     *)
(*     byte, exactly what a scanner does), whose transition TABLE is       *)
(*     exported to the Go harness (the harness has no JSON grammar of its  *)
(*     own: it runs this table with an unbounded stack);                   *)
(*   - IsJSON : a declarative, recursive-descent definition of the same    *)
(*     language, used by TLC to check the automaton on every string up to  *)
(*     MaxLen over the configured alphabet.                                *)
(*                                                                         *)
(* Transitions depend only on (mode, top of stack, byte class), so the     *)
(* automaton TLC explores with a small MaxDepth is valid for any depth.    *)
(***************************************************************************)
EXTENDS Naturals, Sequences, FiniteSets, TLC

CONSTANTS MaxDepth,   \* nesting limit (10000 in encoding/json and go-json)
          MaxLen,     \* longest input explored by TLC
          Alphabet    \* the byte classes explored by this configuration

(* Byte classes: a partition of 0..255.  Names are identifiers so that they *)
(* survive JSON export unchanged.                                          *)
Sym == {"lb","rb","lc","rc","cm","cl","q","bs","sl","mi","pl","dt","z","d",
        "e","E","a","b","f","l","n","r","s","t","u","hl","hu",
        "sp","wc","NUL","CTL","HI","oth"}

ClassOf(x) ==
  CASE x = 91 -> "lb" [] x = 93 -> "rb" [] x = 123 -> "lc" [] x = 125 -> "rc"
    [] x = 44 -> "cm" [] x = 58 -> "cl" [] x = 34 -> "q"   [] x = 92 -> "bs"
    [] x = 47 -> "sl" [] x = 45 -> "mi" [] x = 43 -> "pl"  [] x = 46 -> "dt"
    [] x = 48 -> "z"  [] x \in 49..57 -> "d"
    [] x = 101 -> "e" [] x = 69 -> "E"  [] x = 97 -> "a"   [] x = 98 -> "b"
    [] x = 102 -> "f" [] x = 108 -> "l" [] x = 110 -> "n"  [] x = 114 -> "r"
    [] x = 115 -> "s" [] x = 116 -> "t" [] x = 117 -> "u"
    [] x \in {99, 100} -> "hl"                      \* c d
    [] x \in {65, 66, 67, 68, 70} -> "hu"           \* A B C D F
    [] x = 32 -> "sp" [] x \in {9, 10, 13} -> "wc"
    [] x = 0 -> "NUL"
    [] x \in (1..31) \ {9, 10, 13} -> "CTL"
    [] x \in 128..255 -> "HI"
    [] OTHER -> "oth"

WS      == {"sp", "wc"}
Digit   == {"z", "d"}
Hex     == {"z","d","a","b","e","E","f","hl","hu"}
SimpleEsc == {"q","bs","sl","b","f","n","r","t"}       \* \" \\ \/ \b \f \n \r \t

Modes == {"V","A0","K0","K","CL","AFT",
          "S","SE","U1","U2","U3","U4",
          "NM","N0","NI","ND","NF","NE","NS","NX",
          "T1","T2","T3","F1","F2","F3","F4","L1","L2","L3",
          "REJ"}
NumDone == {"N0","NI","NF","NX"}            \* a number may end here
Tops    == {"-","A","K","O"}                \* empty, array, object@key, object@value
Ops     == {"none","pushA","pushK","pop","toO","toK"}

R(m, o) == [mode |-> m, op |-> o]
Rej     == R("REJ", "none")

(* start of a value; ws handled by the caller *)
ValueStart(c) ==
  CASE c = "lb" -> R("A0", "pushA")
    [] c = "lc" -> R("K0", "pushK")
    [] c = "q"  -> R("S",  "none")
    [] c = "mi" -> R("NM", "none")
    [] c = "z"  -> R("N0", "none")
    [] c = "d"  -> R("NI", "none")
    [] c = "t"  -> R("T1", "none")
    [] c = "f"  -> R("F1", "none")
    [] c = "n"  -> R("L1", "none")
    [] OTHER    -> Rej

(* after a complete value: what may follow is decided by the top of stack *)
After(t, c) ==
  CASE c \in WS               -> R("AFT", "none")
    [] t = "A" /\ c = "cm"    -> R("V",   "none")
    [] t = "A" /\ c = "rb"    -> R("AFT", "pop")
    [] t = "O" /\ c = "cm"    -> R("K",   "toK")
    [] t = "O" /\ c = "rc"    -> R("AFT", "pop")
    [] OTHER                  -> Rej

StrEnd(t) == IF t = "K" THEN R("CL", "none") ELSE R("AFT", "none")

StepFn(m, t, c) ==
  CASE m = "REJ" -> Rej
    [] m = "V"   -> IF c \in WS THEN R("V", "none") ELSE ValueStart(c)
    [] m = "A0"  -> IF c \in WS THEN R("A0", "none")
                    ELSE IF c = "rb" THEN R("AFT", "pop") ELSE ValueStart(c)
    [] m = "K0"  -> IF c \in WS THEN R("K0", "none")
                    ELSE IF c = "rc" THEN R("AFT", "pop")
                    ELSE IF c = "q" THEN R("S", "none") ELSE Rej
    [] m = "K"   -> IF c \in WS THEN R("K", "none")
                    ELSE IF c = "q" THEN R("S", "none") ELSE Rej
    [] m = "CL"  -> IF c \in WS THEN R("CL", "none")
                    ELSE IF c = "cl" THEN R("V", "toO") ELSE Rej
    [] m = "AFT" -> After(t, c)
    \* strings ---------------------------------------------------------
    [] m = "S"   -> CASE c = "q"  -> StrEnd(t)
                      [] c = "bs" -> R("SE", "none")
                      [] c \in {"wc", "NUL", "CTL"} -> Rej     \* raw control character
                      [] OTHER    -> R("S", "none")
    [] m = "SE"  -> IF c \in SimpleEsc THEN R("S", "none")
                    ELSE IF c = "u" THEN R("U1", "none") ELSE Rej
    [] m = "U1"  -> IF c \in Hex THEN R("U2", "none") ELSE Rej
    [] m = "U2"  -> IF c \in Hex THEN R("U3", "none") ELSE Rej
    [] m = "U3"  -> IF c \in Hex THEN R("U4", "none") ELSE Rej
    [] m = "U4"  -> IF c \in Hex THEN R("S",  "none") ELSE Rej
    \* numbers ---------------------------------------------------------
    [] m = "NM"  -> IF c = "z" THEN R("N0", "none")
                    ELSE IF c = "d" THEN R("NI", "none") ELSE Rej
    [] m = "N0"  -> CASE c = "dt" -> R("ND", "none")
                      [] c \in {"e","E"} -> R("NE", "none")
                      [] OTHER -> After(t, c)                 \* leading zero: digit rejects
    [] m = "NI"  -> CASE c \in Digit -> R("NI", "none")
                      [] c = "dt" -> R("ND", "none")
                      [] c \in {"e","E"} -> R("NE", "none")
                      [] OTHER -> After(t, c)
    [] m = "ND"  -> IF c \in Digit THEN R("NF", "none") ELSE Rej
    [] m = "NF"  -> CASE c \in Digit -> R("NF", "none")
                      [] c \in {"e","E"} -> R("NE", "none")
                      [] OTHER -> After(t, c)
    [] m = "NE"  -> CASE c \in {"pl","mi"} -> R("NS", "none")
                      [] c \in Digit -> R("NX", "none")
                      [] OTHER -> Rej
    [] m = "NS"  -> IF c \in Digit THEN R("NX", "none") ELSE Rej
    [] m = "NX"  -> IF c \in Digit THEN R("NX", "none") ELSE After(t, c)
    \* literals --------------------------------------------------------
    [] m = "T1"  -> IF c = "r" THEN R("T2", "none") ELSE Rej
    [] m = "T2"  -> IF c = "u" THEN R("T3", "none") ELSE Rej
    [] m = "T3"  -> IF c = "e" THEN R("AFT", "none") ELSE Rej
    [] m = "F1"  -> IF c = "a" THEN R("F2", "none") ELSE Rej
    [] m = "F2"  -> IF c = "l" THEN R("F3", "none") ELSE Rej
    [] m = "F3"  -> IF c = "s" THEN R("F4", "none") ELSE Rej
    [] m = "F4"  -> IF c = "e" THEN R("AFT", "none") ELSE Rej
    [] m = "L1"  -> IF c = "u" THEN R("L2", "none") ELSE Rej
    [] m = "L2"  -> IF c = "l" THEN R("L3", "none") ELSE Rej
    [] m = "L3"  -> IF c = "l" THEN R("AFT", "none") ELSE Rej

Top(st) == IF st = <<>> THEN "-" ELSE st[Len(st)]

ApplyOp(st, o) ==
  CASE o = "none"  -> st
    [] o = "pushA" -> Append(st, "A")
    [] o = "pushK" -> Append(st, "K")
    [] o = "pop"   -> SubSeq(st, 1, Len(st) - 1)
    [] o = "toO"   -> [st EXCEPT ![Len(st)] = "O"]
    [] o = "toK"   -> [st EXCEPT ![Len(st)] = "K"]

(* one scanner step on configuration <<mode, stack>> *)
Step(cfg, c) ==
  LET r == StepFn(cfg[1], Top(cfg[2]), c) IN
  IF r.mode = "REJ" THEN <<"REJ", <<>>>>
  ELSE IF r.op \in {"pushA","pushK"} /\ Len(cfg[2]) = MaxDepth THEN <<"REJ", <<>>>>
  ELSE <<r.mode, ApplyOp(cfg[2], r.op)>>

Accepting(cfg) == (cfg[1] = "AFT" \/ cfg[1] \in NumDone) /\ cfg[2] = <<>>

RECURSIVE RunFrom(_, _)
RunFrom(cfg, s) == IF s = <<>> THEN cfg ELSE RunFrom(Step(cfg, Head(s)), Tail(s))
Run(s)     == RunFrom(<<"V", <<>>>>, s)
Accepts(s) == Accepting(Run(s))

-----------------------------------------------------------------------------
(* Declarative definition of the same language (independent of StepFn).    *)

Sub(s, i, j) == SubSeq(s, i, j)
IsWS(s)     == \A i \in DOMAIN s : s[i] \in WS
AllDigits(s) == s # <<>> /\ \A i \in DOMAIN s : s[i] \in Digit

IsInt(s)  == s = <<"z">> \/ (s # <<>> /\ s[1] = "d" /\ \A i \in DOMAIN s : s[i] \in Digit)
IsFrac(s) == s = <<>> \/ (Len(s) >= 2 /\ s[1] = "dt" /\ AllDigits(Tail(s)))
IsExp(s)  == s = <<>> \/ (Len(s) >= 2 /\ s[1] \in {"e","E"} /\
                           (AllDigits(Tail(s)) \/
                            (Len(s) >= 3 /\ s[2] \in {"pl","mi"} /\ AllDigits(Sub(s, 3, Len(s))))))
IsUNum(s) == \E i \in 1..Len(s) : \E j \in i..Len(s) :
                IsInt(Sub(s, 1, i)) /\ IsFrac(Sub(s, i+1, j)) /\ IsExp(Sub(s, j+1, Len(s)))
IsNumber(s) == IsUNum(s) \/ (s # <<>> /\ s[1] = "mi" /\ IsUNum(Tail(s)))

RECURSIVE IsBody(_)
IsBody(s) ==
  \/ s = <<>>
  \/ s[1] \notin {"q","bs","wc","NUL","CTL"} /\ IsBody(Tail(s))
  \/ Len(s) >= 2 /\ s[1] = "bs" /\ s[2] \in SimpleEsc /\ IsBody(Sub(s, 3, Len(s)))
  \/ Len(s) >= 6 /\ s[1] = "bs" /\ s[2] = "u" /\ (\A k \in 3..6 : s[k] \in Hex)
       /\ IsBody(Sub(s, 7, Len(s)))
IsString(s) == Len(s) >= 2 /\ s[1] = "q" /\ s[Len(s)] = "q" /\ IsBody(Sub(s, 2, Len(s) - 1))

IsLit(s) == s \in {<<"t","r","u","e">>, <<"f","a","l","s","e">>, <<"n","u","l","l">>}

RECURSIVE IsValueD(_, _), IsElemD(_, _), IsElemsD(_, _), IsMemberD(_, _), IsMembersD(_, _)
(* the second argument is the nesting depth already used *)
IsValueD(s, d) ==
  \/ IsLit(s) \/ IsNumber(s) \/ IsString(s)
  \/ /\ Len(s) >= 2 /\ s[1] = "lb" /\ s[Len(s)] = "rb" /\ d < MaxDepth
     /\ LET in == Sub(s, 2, Len(s) - 1) IN IsWS(in) \/ IsElemsD(in, d + 1)
  \/ /\ Len(s) >= 2 /\ s[1] = "lc" /\ s[Len(s)] = "rc" /\ d < MaxDepth
     /\ LET in == Sub(s, 2, Len(s) - 1) IN IsWS(in) \/ IsMembersD(in, d + 1)
IsElemD(s, d) ==
  \E i \in 1..Len(s) : \E j \in i..Len(s) :
     IsWS(Sub(s, 1, i-1)) /\ IsValueD(Sub(s, i, j), d) /\ IsWS(Sub(s, j+1, Len(s)))
IsElemsD(s, d) ==
  \/ IsElemD(s, d)
  \/ \E i \in 1..Len(s) : s[i] = "cm" /\ IsElemD(Sub(s, 1, i-1), d) /\ IsElemsD(Sub(s, i+1, Len(s)), d)
IsMemberD(s, d) ==
  \E i \in 1..Len(s) : \E j \in i..Len(s) : \E k \in (j+1)..Len(s) :
     /\ IsWS(Sub(s, 1, i-1)) /\ IsString(Sub(s, i, j)) /\ IsWS(Sub(s, j+1, k-1))
     /\ s[k] = "cl" /\ IsElemD(Sub(s, k+1, Len(s)), d)
IsMembersD(s, d) ==
  \/ IsMemberD(s, d)
  \/ \E i \in 1..Len(s) : s[i] = "cm" /\ IsMemberD(Sub(s, 1, i-1), d) /\ IsMembersD(Sub(s, i+1, Len(s)), d)

IsJSON(s) == IsElemD(s, 0)       \* one value optionally surrounded by whitespace

-----------------------------------------------------------------------------
(* The transition system TLC explores: feed one byte class at a time.      *)

VARIABLES mode, stack, inp
vars == <<mode, stack, inp>>

Init == mode = "V" /\ stack = <<>> /\ inp = <<>>

Byte(c) ==
  /\ Len(inp) < MaxLen
  /\ LET n == Step(<<mode, stack>>, c) IN mode' = n[1] /\ stack' = n[2]
  /\ inp' = Append(inp, c)

Next == \E c \in Alphabet : Byte(c)
Spec == Init /\ [][Next]_vars

TypeOK == mode \in Modes /\ Len(stack) <= MaxDepth /\ \A i \in DOMAIN stack : stack[i] \in Tops \ {"-"}

(* the automaton and the declarative grammar agree on every explored input *)
AgreesWithGrammar == Accepting(<<mode, stack>>) <=> IsJSON(inp)
(* iterated Step equals the incremental state (Run is what the harness does) *)
RunIsIncremental  == Run(inp) = <<mode, stack>>
(* strings/keys: K on top only while a key or its colon is pending *)
KeyDiscipline == (mode \in {"K0","K","CL"}) => Top(stack) = "K"
ValueDiscipline == (mode \in {"V","A0","AFT"} \cup NumDone) => Top(stack) # "K"
(* rejection is absorbing, and discards the stack *)
RejectAbsorbing == [][mode = "REJ" => mode' = "REJ"]_vars
RejectHasNoStack == mode = "REJ" => stack = <<>>

(* StepFn is total and closed over Modes/Tops/Sym (checked once, as an assumption) *)
ASSUME \A m \in Modes, t \in Tops, c \in Sym :
          StepFn(m, t, c).mode \in Modes /\ StepFn(m, t, c).op \in Ops
ASSUME \A x \in 0..255 : ClassOf(x) \in Sym
ASSUME Alphabet \subseteq Sym
=============================================================================
