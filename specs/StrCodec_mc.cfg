SPECIFICATION Spec
CONSTANTS
  MaxLen = 4
  DecLen = 3
INVARIANTS RoundTrip NoForbidden NormalisedIsWellFormed
CHECK_DEADLOCK FALSE
