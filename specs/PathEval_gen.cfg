SPECIFICATION Spec
CONSTANTS
  PathChars = {"$", ".", "[", "]", "*", "'", "\"", "0", "1", "a", "b"}
  MaxPathLen = 5
  Deviations = {}
  MaxSelectors = 2
INVARIANTS Balanced RootSelectsAll ExportPath
CHECK_DEADLOCK FALSE
