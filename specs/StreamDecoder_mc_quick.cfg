SPECIFICATION Spec
CONSTANTS
  DocLen = 5
  InitBuf = 3
  MaxBuf = 12
INVARIANTS Bounds Sentinel NoHoles Conservation IndexConservation OffsetAccounting ReadNeverPanics
PROPERTIES GrowthOnly ReadRefinesIdx ResetRefinesIdx
CHECK_DEADLOCK FALSE
