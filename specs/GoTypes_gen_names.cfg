SPECIFICATION Spec
CONSTANTS
  MaxSteps = 2
  Leaves = {"int","string","MarshalerV","Rec","Empty"}
  Steps = {"struct-named:lt","struct-named:gt","struct-named:amp","struct-named:mixed","struct-named:u2","map_p","ptr","slice","iface","map_s"}
INVARIANTS TypeOK Export
CHECK_DEADLOCK FALSE
