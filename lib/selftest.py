"""./check selftest [C08|C09|C14 ...] - demonstrations that the trace specifications are bound to the code.

For each property with a recorded-trace binding the real library (built from /repo's working tree with the hooks on) is run,
its hook events are recorded exactly as the registered check records them, and TLC validates

  (0) the pristine recording                    - must break no rule (on a tree where the property holds),
  (1) the recording with ONE logged field changed - must break a rule,
  (2) the recording with ONE event removed (what a lost hook call looks like) or one foreign event inserted - must break a rule.

(1) and (2) show that the trace specification constrains the logged state and not only the length of the trace.  This command
is a maintenance aid, not a registered check: exit 0 = every demonstration behaved as stated, 2 otherwise.
"""
import glob, json, os, re, shutil, time
import vlib


def _concat(tdir, pattern):
    lines = []
    for p in sorted(glob.glob(os.path.join(tdir, pattern))):
        for line in open(p):
            if line.endswith("\n"):
                lines.append(line)
    return lines


def _rules(out):
    return sorted(s for s in out.sigs if s.startswith("trace|"))


def _variant(scratch, name, fname, lines):
    d = scratch.sub(name)
    with open(os.path.join(d, fname), "w") as f:
        f.writelines(lines)
    return d


def _show(tag, what, rules, want_empty):
    ok = (not rules) if want_empty else bool(rules)
    print("  %-10s %-74s -> %s %s" % (tag, what, ", ".join(r.split("|", 1)[1] for r in rules) or "no rule broken",
                                      "ok" if ok else "UNEXPECTED"))
    return ok


def _setnum(line, key, fn):
    m = re.search(r'"%s":(-?\d+)' % key, line)
    return line[:m.start(1)] + str(fn(int(m.group(1)))) + line[m.end(1):]


def c09(scratch):
    from props import c09 as m
    table, _ = vlib.export_jsontext(scratch)
    binary = vlib.build_harness(scratch)
    tdir = scratch.sub("traces")
    job = dict(prop="C09", tier="quick", seed=vlib.seed(), params=dict(table=table, trace_dir=tdir, trace_every=3, level=1))
    vlib.run_workers(scratch, binary, "c09", job, case_timeout=60, total_timeout=600)
    lines = _concat(tdir, "trace-*.ndjson")[:40000]
    while lines and '"begin"' not in lines[-1]:
        lines.pop()
    lines.pop()
    ok = True
    out = vlib.WorkerOutcome()
    m.validate_traces(scratch, _variant(scratch, "t0", "trace-0-0.ndjson", lines), out)
    ok &= _show("C09 (0)", "%d recorded window events, unchanged" % len(lines), _rules(out), True)
    k = next(i for i, l in enumerate(lines) if i > 200 and '"ev":"read"' in l and re.search(r'"n":[1-9]', l)
             and '"begin"' not in lines[i + 1])   # a read inside a run: something is recorded after it
    mut = list(lines)
    mut[k] = _setnum(mut[k], "len", lambda v: v + 1)
    out = vlib.WorkerOutcome()
    m.validate_traces(scratch, _variant(scratch, "t1", "trace-0-0.ndjson", mut), out)
    ok &= _show("C09 (1)", "event %d: window length after a read reported one too large" % (k + 1), _rules(out), False)
    mut = lines[:k] + lines[k + 1:]
    out = vlib.WorkerOutcome()
    m.validate_traces(scratch, _variant(scratch, "t2", "trace-0-0.ndjson", mut), out)
    ok &= _show("C09 (2)", "event %d (a read that delivered bytes) removed, as if the hook were missing" % (k + 1), _rules(out), False)
    return ok


def c08(scratch):
    from props import c08 as m
    binary = vlib.build_harness(scratch)
    tdir = scratch.sub("slots")
    job = dict(prop="C08", tier="quick", seed=vlib.seed(), params=dict(trace_dir=tdir, depths=[0, 1, 2], trace_depth=2, trace_every=3))
    vlib.run_workers(scratch, binary, "c08", job, case_timeout=120, total_timeout=900)
    lines = _concat(tdir, "slots-*.ndjson")[:60000]
    while lines and not lines[-1].startswith('{"k":"b"'):
        lines.pop()
    lines.pop()
    ok = True
    out = vlib.WorkerOutcome()
    m.validate_traces(scratch, _variant(scratch, "t0", "slots-0-0.ndjson", lines), out, 10 ** 9)
    ok &= _show("C08 (0)", "%d recorded slot accesses, unchanged" % len(lines), _rules(out), True)
    k = next(i for i, l in enumerate(lines) if i > 500 and l.startswith('{"k":"l"'))
    plen = int(re.search(r'"plen":(\d+)', lines[k]).group(1))
    mut = list(lines)
    mut[k] = _setnum(_setnum(mut[k], "b", lambda v: 0), "i", lambda v: plen)
    out = vlib.WorkerOutcome()
    m.validate_traces(scratch, _variant(scratch, "t1", "slots-0-0.ndjson", mut), out, 10 ** 9)
    ok &= _show("C08 (1)", "event %d: a load reported at slot len(Ptrs)" % (k + 1), _rules(out), False)
    # a store by a called frame, then (after the return to the frame below) a load of that very slot by the caller
    ins = None
    for i, l in enumerate(lines):
        if i > 500 and l.startswith('{"k":"s"'):
            e = json.loads(l)
            if e["b"] > 0:
                for j in range(i + 1, min(i + 4000, len(lines))):
                    f = json.loads(lines[j])
                    if f["k"] == "b":
                        break
                    if f["b"] < e["b"] and e["b"] + e["i"] - f["b"] >= 0:
                        ins = (j, json.dumps(dict(k="l", b=f["b"], i=e["b"] + e["i"] - f["b"], plen=f["plen"]), separators=(",", ":")) + "\n")
                        break
            if ins:
                break
    if ins is None:
        print("  C08 (2)    no called frame in the recording")
        return False
    mut = lines[:ins[0] + 1] + [ins[1]] + lines[ins[0] + 1:]
    out = vlib.WorkerOutcome()
    m.validate_traces(scratch, _variant(scratch, "t2", "slots-0-0.ndjson", mut), out, 10 ** 9)
    ok &= _show("C08 (2)", "after event %d: inserted load of a slot last stored by a frame that has returned" % (ins[0] + 1), _rules(out), False)
    return ok


def c14(scratch):
    from props import c14 as m
    import gentypes
    tdir = scratch.sub("cache")
    binary = gentypes.build(scratch, 200)
    job = dict(prop="C14", tier="quick", seed=vlib.seed(), params=dict(trace_dir=tdir, reflect_every=7, warm_every=9, label="production"))
    vlib.run_workers(scratch, binary, "c14", job, shards=1, case_timeout=120, total_timeout=900, env={"GOMAXPROCS": "4"})
    files = sorted(glob.glob(os.path.join(tdir, "cache-*.ndjson")))
    fname = os.path.basename(files[0])
    lines = _concat(tdir, "cache-*.ndjson")
    ok = True
    out = vlib.WorkerOutcome()
    m.validate_traces(scratch, _variant(scratch, "t0", fname, lines), out)
    ok &= _show("C14 (0)", "%d recorded cache lookups, unchanged" % len(lines), _rules(out), True)
    k = next(i for i, l in enumerate(lines) if i > 300 and '"path":"fast-' in l)
    mut = list(lines)
    mut[k] = _setnum(mut[k], "index", lambda v: v + 1)
    out = vlib.WorkerOutcome()
    m.validate_traces(scratch, _variant(scratch, "t1", fname, mut), out)
    ok &= _show("C14 (1)", "event %d: table index reported one too large" % (k + 1), _rules(out), False)
    e = json.loads(lines[k])
    mut = list(lines)
    mut[k] = _setnum(mut[k], "ptid", lambda v: e["tid"] + 1)
    out = vlib.WorkerOutcome()
    m.validate_traces(scratch, _variant(scratch, "t2", fname, mut), out)
    ok &= _show("C14 (2)", "event %d: the returned program reported as compiled for another type" % (k + 1), _rules(out), False)
    return ok


def main(which):
    todo = [w.upper() for w in which] or ["C08", "C09", "C14"]
    fns = dict(C08=c08, C09=c09, C14=c14)
    allok = True
    t0 = time.time()
    for w in todo:
        if w not in fns:
            print("no trace binding to demonstrate for %s" % w)
            return 2
        with vlib.Scratch("verif-selftest-") as sc:
            try:
                allok &= fns[w](sc)
            except vlib.Infra as ex:
                print("INFRA: %s" % ex)
                allok = False
    print("selftest %s (%.0f s)" % ("ok" if allok else "FAILED", time.time() - t0))
    return 0 if allok else 2
