#!/bin/sh
# usage: lib/mutant.sh <seeded-dir-or-patch> <Cxx> [tier]
# Applies a seeded change to /repo, runs the property's check (evidence goes to a scratch dir), and reverts /repo.
set -u
src="$1"; prop="$2"; tier="${3:-quick}"
src=$(realpath "$src"); patch="$src"; [ -d "$src" ] && patch="$src/patch.diff"
cd /verif
if [ -n "$(git -C /repo status --porcelain --untracked-files=no)" ]; then echo "/repo is not clean"; exit 3; fi
git -C /repo apply "$patch" || { echo "patch does not apply"; exit 3; }
ev=$(mktemp -d)
VERIF_EVIDENCE_DIR="$ev" ./check "$prop" "$tier" > "$ev/out.txt" 2>&1
rc=$?
git -C /repo checkout -- .
grep -E "^VIOLATION|^  signature|^INFRA" "$ev/out.txt" | head -${MUT_LINES:-12}
tail -1 "$ev/out.txt"
rm -rf "$ev"
echo "mutant exit=$rc"
exit $rc
