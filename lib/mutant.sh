#!/bin/sh
# usage: lib/mutant.sh <seeded-dir-or-patch> <Cxx> [tier]
# Runs one property's check against a seeded change.  By default the change is applied to a scratch copy of /repo
# (VERIF_REPO), so that nothing else running against /repo is disturbed; MUT_INPLACE=1 applies it to /repo itself
# (git -C /repo apply ... ; git -C /repo checkout -- .) as the task brief describes.  Evidence goes to a scratch dir.
set -u
src="$1"; prop="$2"; tier="${3:-quick}"
src=$(realpath "$src"); patch="$src"; [ -d "$src" ] && patch="$src/patch.diff"
cd /verif
ev=$(mktemp -d)
if [ "${MUT_INPLACE:-0}" = 1 ]; then
  if [ -n "$(git -C /repo status --porcelain --untracked-files=no)" ]; then echo "/repo is not clean"; exit 3; fi
  git -C /repo apply "$patch" || { echo "patch does not apply"; exit 3; }
  VERIF_EVIDENCE_DIR="$ev" ./check "$prop" "$tier" > "$ev/out.txt" 2>&1
  rc=$?
  git -C /repo checkout -- .
else
  copy=$(mktemp -d /tmp/mutrepo.XXXXXX)
  git -C /repo archive HEAD | tar -x -C "$copy"
  ( cd "$copy" && git init -q . && git apply "$patch" ) || { echo "patch does not apply"; rm -rf "$copy" "$ev"; exit 3; }
  VERIF_REPO="$copy" VERIF_EVIDENCE_DIR="$ev" ./check "$prop" "$tier" > "$ev/out.txt" 2>&1
  rc=$?
  rm -rf "$copy"
fi
grep -E "^VIOLATION|^  signature|^INFRA" "$ev/out.txt" | head -${MUT_LINES:-12}
tail -1 "$ev/out.txt"
rm -rf "$ev"
echo "mutant exit=$rc"
exit $rc
