# see the generator inlined in git history (commit introducing harness/c08/types_gen.go); shape grid: 6 member kinds x fields-before {0,1,3,4,7} x fields-after {0,1,4}
