"""Common machinery of the go-json verification framework (python3, stdlib only).

 - Scratch: per-run temporary directory (removed on exit)
 - run_tlc: run TLC on a module/config inside the scratch directory and parse its output
 - build_harness: build the Go worker binary against /repo's current working tree
 - run_workers: crash-isolating supervisor for the worker protocol (harness/wk)
 - Findings: matcher for known_findings.json
 - write_evidence / finish: evidence file + exit status
"""
import json, os, re, shutil, struct, subprocess, sys, tempfile, time, threading

VERIF = os.path.dirname(os.path.dirname(os.path.abspath(__file__)))
REPO = os.environ.get("VERIF_REPO", "/repo")
SPECS = os.path.join(VERIF, "specs")
HARNESS = os.path.join(VERIF, "harness")
EVIDENCE = os.environ.get("VERIF_EVIDENCE_DIR") or os.path.join(VERIF, "evidence")
NCPU = int(os.environ.get("VERIF_CPUS", "16"))

GOENV = dict(GOFLAGS="-mod=mod", GOPROXY="off", GOSUMDB="off", GOTOOLCHAIN="local")


class Infra(Exception):
    """An infrastructure problem (TLC failure, build failure, timeout): exit 2, never a violation."""


def seed():
    try:
        return int(os.environ.get("VERIF_SEED", "1"))
    except ValueError:
        return 1


class Scratch:
    def __init__(self, prefix="verif-"):
        base = os.environ.get("VERIF_SCRATCH_BASE") or tempfile.gettempdir()
        self.path = tempfile.mkdtemp(prefix=prefix, dir=base)

    def sub(self, name):
        p = os.path.join(self.path, name)
        os.makedirs(p, exist_ok=True)
        return p

    def cleanup(self):
        shutil.rmtree(self.path, ignore_errors=True)

    def __enter__(self):
        return self

    def __exit__(self, *a):
        self.cleanup()


# --------------------------------------------------------------------------- TLC

class TlcResult:
    def __init__(self):
        self.generated = 0
        self.distinct = 0
        self.depth = 0
        self.ok = False
        self.errors = []
        self.prints = {}      # tag -> list of decoded JSON payloads (from PrintT(<<tag, ToJson(x)>>))
        self.raw = ""
        self.wall = 0.0
        self.coverage = {}    # action name -> count (when -coverage is on)
        self.postcondition_failed = False
        self.cmd = ""


_PRINT_RE = re.compile(r'^<<"([A-Za-z0-9_-]+)", (".*")>>$')


def _untla(s):
    """Decode a TLA+ string literal as printed by TLC into a python string."""
    # TLC prints \" and \\ (and keeps other characters raw); json.loads handles these
    return json.loads(s)


def run_tlc(scratch, module, cfg, workers=None, timeout=600, extra=None, env=None, coverage=False,
            mode_args=None, keep_raw=False, want_prints=True, files=None):
    """Run TLC on specs/<module>.tla with specs/<cfg>.  Returns TlcResult; raises Infra on failure."""
    wd = scratch.sub("tlc-" + module + "-" + os.path.splitext(os.path.basename(cfg))[0])
    for f in os.listdir(SPECS):
        if f.endswith(".tla") or f.endswith(".cfg"):
            shutil.copy(os.path.join(SPECS, f), wd)
    for f in (files or []):
        shutil.copy(f, wd)
    meta = os.path.join(wd, "meta")
    tmpd = os.path.join(wd, "jtmp")
    os.makedirs(tmpd, exist_ok=True)
    w = workers or NCPU
    cmd = ["tlc", "-workers", str(w), "-metadir", meta, "-config", cfg]
    if coverage:
        cmd += ["-coverage", "1"]
    cmd += (mode_args or [])
    cmd += (extra or [])
    cmd += [module + ".tla"]
    e = dict(os.environ)
    jto = e.get("JAVA_TOOL_OPTIONS", "")
    # bounded heap: several TLC runs and 16 worker processes share the machine (the JVM default is a quarter of the RAM each)
    e["JAVA_TOOL_OPTIONS"] = (jto + " -Djava.io.tmpdir=" + tmpd + " -Xss64m -Xmx" + os.environ.get("VERIF_TLC_XMX", "4g")).strip()
    if env:
        e.update(env)
    res = TlcResult()
    res.cmd = " ".join(cmd)
    t0 = time.time()
    try:
        p = subprocess.run(["timeout", str(timeout)] + cmd, cwd=wd, env=e, stdout=subprocess.PIPE,
                           stderr=subprocess.STDOUT, text=True, errors="replace")
    except Exception as ex:  # pragma: no cover
        raise Infra("cannot run TLC: %s" % ex)
    res.wall = time.time() - t0
    out = p.stdout
    if keep_raw:
        res.raw = out
    if p.returncode == 124:
        raise Infra("TLC timed out after %ss: %s" % (timeout, res.cmd))
    for line in out.splitlines():
        m = re.search(r"(\d+) states generated, (\d+) distinct states found", line)
        if m:
            res.generated, res.distinct = int(m.group(1)), int(m.group(2))
        m = re.search(r"depth of the complete state graph search is (\d+)", line)
        if m:
            res.depth = int(m.group(1))
        if line.startswith("Error:") or "is violated" in line or "Invariant" in line and "violated" in line:
            res.errors.append(line.strip())
        if "is false" in line and "Postcondition" in line or "POSTCONDITION" in line and "false" in line:
            res.postcondition_failed = True
            res.errors.append(line.strip())
        if want_prints and line.startswith('<<"'):
            m = _PRINT_RE.match(line)
            if m:
                try:
                    res.prints.setdefault(m.group(1), []).append(json.loads(_untla(m.group(2))))
                except Exception as ex:
                    res.errors.append("unparsable print %s: %s" % (m.group(1), ex))
        if coverage:
            m = re.match(r"^<(\w+) line \d+, col \d+ to line \d+, col \d+ of module (\w+)>: (\d+):(\d+)", line)
            if m:
                res.coverage[m.group(2) + "!" + m.group(1)] = res.coverage.get(m.group(2) + "!" + m.group(1), 0) + int(m.group(4))
    res.ok = ("Model checking completed. No error has been found." in out or
              ("Finished in" in out and not res.errors and "-simulate" in res.cmd))
    if not res.ok and not res.errors:
        res.errors.append("TLC did not complete (exit %d)" % p.returncode)
    if not keep_raw:
        res.raw = out[-4000:]
    return res


def require_tlc_ok(res, what):
    if not res.ok or res.errors:
        raise Infra("TLC failed on %s: %s\n%s" % (what, "; ".join(res.errors[:5]), res.raw[-1500:]))


# --------------------------------------------------------------------------- Go harness

def build_harness(scratch, tags=("verif",), race=False, gcflags=None, name="vharness"):
    """Build the worker binary from harness/ against REPO's working tree."""
    out = os.path.join(scratch.path, name + ("-race" if race else ""))
    src = HARNESS
    if REPO != "/repo":
        # alternate repo location (self-tests against scratch copies): copy the harness and re-point the replace
        src = os.path.join(scratch.path, "harness-src")
        if not os.path.exists(src):
            shutil.copytree(HARNESS, src)
            gm = open(os.path.join(src, "go.mod")).read().replace("=> /repo", "=> " + REPO)
            open(os.path.join(src, "go.mod"), "w").write(gm)
    e = dict(os.environ)
    e.update(GOENV)
    cmd = ["go", "build", "-o", out]
    if tags:
        cmd += ["-tags", ",".join(tags)]
    if race:
        cmd += ["-race"]
    if gcflags:
        cmd += ["-gcflags=" + gcflags]
    cmd += ["./cmd/vharness"]
    p = subprocess.run(cmd, cwd=src, env=e, stdout=subprocess.PIPE, stderr=subprocess.STDOUT, text=True)
    if p.returncode != 0:
        raise Infra("harness build failed:\n" + p.stdout[-3000:])
    return out


def _limit_memory():
    """preexec: cap a worker's address space so that a runaway allocation dies quickly instead of exhausting the machine."""
    try:
        import resource
        lim = int(os.environ.get("VERIF_WORKER_AS_GB", "12")) << 30
        resource.setrlimit(resource.RLIMIT_AS, (lim, lim))
    except Exception:
        pass


class WorkerOutcome:
    def __init__(self):
        self.evaluations = 0
        self.nontrivial = 0
        self.counters = {}
        self.sigs = {}       # sig -> dict(count, counted, examples, details)
        self.samples = []
        self.notes = {}
        self.crashes = []    # dict(idx, kind, case, stderr)
        self.infra = []

    def merge_sum(self, s):
        self.evaluations += s.get("evaluations", 0)
        self.nontrivial += s.get("nontrivial", 0)
        for k, v in (s.get("counters") or {}).items():
            self.counters[k] = self.counters.get(k, 0) + v
        for sig, st in (s.get("sigs") or {}).items():
            cur = self.sigs.setdefault(sig, dict(count=0, counted=st.get("counted", False), examples=[], details=[], fine={}))
            cur["count"] += st.get("count", 0)
            cur["counted"] = cur["counted"] or st.get("counted", False)
            for fs, n in (st.get("fine") or {}).items():
                cur["fine"][fs] = cur["fine"].get(fs, 0) + n
            for ex, de in zip(st.get("examples") or [], st.get("details") or []):
                if len(cur["examples"]) < 3:
                    cur["examples"].append(ex)
                    cur["details"].append(de)
        for sm in s.get("samples") or []:
            if len(self.samples) < 6:
                self.samples.append(sm)

    def add_sig(self, sig, counted, example, detail):
        cur = self.sigs.setdefault(sig, dict(count=0, counted=counted, examples=[], details=[]))
        cur["count"] += 1
        if len(cur["examples"]) < 3:
            cur["examples"].append(example)
            cur["details"].append(detail)


def _read_cur(path):
    try:
        with open(path, "rb") as f:
            b = f.read(8)
        if len(b) < 8:
            return None
        v = struct.unpack("<Q", b)[0]
        if v >= (1 << 64) - 2:
            return None
        return v
    except OSError:
        return None


def _read_tick(path):
    try:
        with open(path, "rb") as f:
            b = f.read(16)
        return b
    except OSError:
        return None


def _parse_lines(text, outcome):
    """Merge every summary line; returns (saw final summary, index to resume from after the last checkpoint)."""
    final, nxt = False, None
    for line in text.splitlines():
        line = line.strip()
        if not line or not line.startswith("{"):
            continue
        try:
            o = json.loads(line)
        except ValueError:
            continue
        k = o.get("k")
        if k == "sum":
            outcome.merge_sum(o)
            if o.get("final"):
                final = True
            elif o.get("next") is not None and o.get("next") >= 0:
                nxt = o.get("next")
        elif k == "note":
            outcome.notes.setdefault(o.get("key"), []).append(o.get("v"))
    return final, nxt


def _classify_death(rc, err):
    if "stack overflow" in err or "goroutine stack exceeds" in err:
        return "fatal:stack-overflow"
    if "out of memory" in err or "cannot allocate memory" in err:
        return "fatal:out-of-memory"
    if "unexpected signal" in err or "SIGSEGV" in err or "unexpected fault address" in err:
        return "fatal:segv"
    if "fatal error: all goroutines are asleep" in err:
        return "fatal:deadlock"
    if "concurrent map" in err:
        return "fatal:concurrent-map"
    if "fatal error:" in err:
        m = re.search(r"fatal error: (.*)", err)
        return "fatal:" + (m.group(1)[:40] if m else "other")
    if "panic:" in err:
        return "panic-escaped"
    if "DATA RACE" in err:
        return "data-race"
    return "exit-%s" % rc


def run_single(binary, runner, job, scratch, timeout=60, env=None, tag="single"):
    """Run one worker process to completion; returns (rc, stdout, stderr, timed_out)."""
    jp = os.path.join(scratch.path, "job-%s-%d.json" % (tag, time.time_ns()))
    with open(jp, "w") as f:
        json.dump(job, f)
    e = dict(os.environ)
    if env:
        e.update(env)
    try:
        p = subprocess.run([binary, runner, jp], stdout=subprocess.PIPE, stderr=subprocess.PIPE, text=True,
                           errors="replace", timeout=timeout, env=e, preexec_fn=_limit_memory)
        return p.returncode, p.stdout, p.stderr, False
    except subprocess.TimeoutExpired as ex:
        so = ex.stdout.decode("utf8", "replace") if isinstance(ex.stdout, bytes) else (ex.stdout or "")
        se = ex.stderr.decode("utf8", "replace") if isinstance(ex.stderr, bytes) else (ex.stderr or "")
        return -9, so, se, True
    finally:
        try:
            os.unlink(jp)
        except OSError:
            pass


def run_workers(scratch, binary, runner, base_job, shards=None, case_timeout=30, total_timeout=1500, env=None,
                max_crashes=200, confirm=True, max_hangs=3):
    """Run `shards` worker processes over the job's case space with crash isolation.

    A worker that dies or stalls marks the case it was executing (read from its cur-file); the case is
    re-run alone to confirm, and the shard resumes after it.  Returns WorkerOutcome."""
    shards = shards or NCPU
    outcome = WorkerOutcome()
    lock = threading.Lock()
    deadline = time.time() + total_timeout
    e = dict(os.environ)
    e.setdefault("GOMAXPROCS", "2")   # one worker process per core: keep each runtime small
    e.setdefault("GOMEMLIMIT", "3GiB")  # 16 workers share the machine: collect garbage before the heap gets large
    if env:
        e.update(env)

    def one_shard(si):
        resume = 0
        skip = []
        nhang = [0]
        while True:
            cur = os.path.join(scratch.path, "cur-%s-%d" % (runner, si))
            job = dict(base_job)
            job.update(shard=si, shards=shards, resume=resume, only=-1, cur_file=cur, skip=skip)
            jp = os.path.join(scratch.path, "job-%s-%d.json" % (runner, si))
            with open(jp, "w") as f:
                json.dump(job, f)
            outp = os.path.join(scratch.path, "out-%s-%d-%d" % (runner, si, len(skip)))
            errp = outp + ".err"
            hung = False
            with open(outp, "w") as fo, open(errp, "w") as fe:
                p = subprocess.Popen([binary, runner, jp], stdout=fo, stderr=fe, env=e, preexec_fn=_limit_memory)
                last_idx, last_change = None, time.time()
                while True:
                    try:
                        p.wait(timeout=0.5)
                        break
                    except subprocess.TimeoutExpired:
                        pass
                    ci = _read_tick(cur)
                    now = time.time()
                    if ci != last_idx:
                        last_idx, last_change = ci, now
                    elif now - last_change > case_timeout:
                        if p.poll() is not None:
                            break
                        hung = True
                        p.kill()
                        p.wait()
                        break
                    if now > deadline:
                        p.kill()
                        p.wait()
                        with lock:
                            outcome.infra.append("total timeout in shard %d" % si)
                        return
            text = open(outp, errors="replace").read()
            err = open(errp, errors="replace").read()
            os.unlink(outp)
            os.unlink(errp)
            with lock:
                final, nxt = _parse_lines(text, outcome)
            if p.returncode == 0 and final and not hung:
                return
            if p.returncode in (64, 65):
                with lock:
                    outcome.infra.append("worker %d: %s" % (si, err[-500:]))
                return
            idx = _read_cur(cur)
            kind = "hang" if hung else _classify_death(p.returncode, err)
            if idx is None:
                with lock:
                    outcome.infra.append("worker %d died (%s) outside a case: %s" % (si, kind, err[-800:]))
                return
            with lock:
                outcome.crashes.append(dict(idx=idx, kind=kind, stderr=err[-1500:], shard=si, shards=shards,
                                            win_from=(nxt if nxt is not None else resume)))
            if len(skip) >= max_crashes:
                with lock:
                    outcome.infra.append("worker %d: more than %d crashes" % (si, max_crashes))
                return
            if kind == "hang":
                nhang[0] += 1
                if nhang[0] >= max_hangs:
                    # every hang costs the full stall timeout: a few of them settle the verdict, the rest of the shard is not explored
                    with lock:
                        outcome.notes.setdefault("shards_stopped_after_hangs", []).append(si)
                    return
            # resume from the last checkpoint (results before it are already merged), skipping the killer
            if nxt is not None:
                resume = nxt
            skip = skip + [idx]

    threads = [threading.Thread(target=one_shard, args=(i,)) for i in range(shards)]
    for t in threads:
        t.start()
    for t in threads:
        t.join()

    # confirm each crash alone
    confirmed = []
    if confirm:
        for c in outcome.crashes:
            job = dict(base_job)
            job.update(shard=0, shards=1, resume=0, only=c["idx"], cur_file="")
            job["skip"] = []
            rc, so, se, to = run_single(binary, runner, job, scratch, timeout=max(case_timeout * 2, 60), env=env,
                                        tag="confirm")
            case = None
            for line in so.splitlines():
                if line.startswith("{"):
                    try:
                        o = json.loads(line)
                        if o.get("k") == "case":
                            case = o.get("case")
                    except ValueError:
                        pass
            c["case"] = case
            if to:
                c["confirmed"] = True
                c["kind2"] = "hang"
            elif rc != 0:
                c["confirmed"] = True
                c["kind2"] = _classify_death(rc, se)
                c["stderr"] = se[-1500:]
            else:
                c["confirmed"] = False
                if c.get("kind") != "fatal:out-of-memory" and not c.get("kind", "").startswith("hang"):
                    _localise(scratch, binary, runner, base_job, c, case_timeout, env)
            confirmed.append(c)
    return outcome


def _localise(scratch, binary, runner, base_job, c, case_timeout, env):
    """A worker died (heap corruption noticed by the collector, a fault) in a case that passes when run alone: the damage was
    done by an EARLIER case of the same process.  Re-run the window since the last checkpoint with the collector running
    almost continuously, so that the process dies right after the culprit, then confirm the culprit alone the same way."""
    e2 = dict(env or {})
    e2["GOGC"] = "1"
    job = dict(base_job)
    cur = os.path.join(scratch.path, "cur-localise")
    job.update(shard=c["shard"], shards=c.get("shards", 1), resume=c.get("win_from", 0), only=-1, until=c["idx"], cur_file=cur, skip=[])
    rc, so, se, to = run_single(binary, runner, job, scratch, timeout=max(case_timeout * 20, 600), env=e2, tag="window")
    if rc == 0 or to:
        return
    y = _read_cur(cur)
    if y is None:
        return
    for cand in (y, y - c.get("shards", 1)):
        if cand < 0:
            continue
        j2 = dict(base_job)
        j2.update(shard=0, shards=1, resume=0, only=cand, cur_file="", skip=[])
        rc2, so2, se2, to2 = run_single(binary, runner, j2, scratch, timeout=max(case_timeout * 2, 60), env=e2, tag="confirm")
        if rc2 != 0 and not to2:
            case = None
            for line in so2.splitlines():
                if line.startswith("{"):
                    try:
                        o = json.loads(line)
                        if o.get("k") == "case":
                            case = o.get("case")
                    except ValueError:
                        pass
            c.update(idx=cand, case=case, confirmed=True, kind2=_classify_death(rc2, se2), stderr=se2[-1500:], localised=True)
            return


# --------------------------------------------------------------------------- findings

class Findings:
    """known_findings.json (root-cause entries, reviewed by hand) + findings_extent/<prop>.json (for the
    deterministic parts of a check: how many cases each fine-grained signature of a known finding had when it was
    recorded).  A divergence is a violation when its signature is not listed, or when a fine-grained signature has
    more cases than recorded (fewer is fine: somebody repaired part of it)."""

    def __init__(self, prop):
        self.prop = prop
        self.path = os.path.join(VERIF, "known_findings.json")
        self.extent_path = os.path.join(VERIF, "findings_extent", prop + ".json")
        self.entries = []
        try:
            data = json.load(open(self.path))
            self.entries = [e for e in data.get("findings", []) if e.get("property") == prop]
        except (OSError, ValueError):
            pass
        self.known = {e["signature"]: e for e in self.entries if e.get("status") == "known"}
        try:
            self.extent = json.load(open(self.extent_path))
        except (OSError, ValueError):
            self.extent = {}

    def classify(self, sigs, tier):
        """sigs: sig -> dict(count, counted, examples, details, fine).  Returns (known_seen, violations)."""
        known_seen, violations = [], []
        ext = self.extent.get(tier)
        for sig in sorted(sigs):
            st = sigs[sig]
            e = self.known.get(sig)
            if e is None:
                violations.append((sig, st, "signature not listed in known_findings.json"))
                continue
            bad = None
            if st.get("counted") and ext is not None:
                rec = ext.get(sig) or {}
                fine = st.get("fine") or {}
                for fs in sorted(fine):
                    if fine[fs] > rec.get(fs, 0):
                        bad = "fine signature %s has %d case(s), %d recorded for this known finding" % (fs, fine[fs], rec.get(fs, 0))
                        break
            if bad:
                violations.append((sig, st, bad))
            else:
                known_seen.append((sig, st, e))
        return known_seen, violations

    def record(self, sigs, tier, describe=None):
        """Maintenance only (./check record): merge the observed signatures into the two files."""
        try:
            data = json.load(open(self.path))
        except (OSError, ValueError):
            data = {"findings": []}
        if os.environ.get("VERIF_RECORD_PRUNE"):
            # drop known entries of this property that this run no longer observes (after a fix: commit)
            data["findings"] = [e for e in data["findings"]
                                if not (e.get("property") == self.prop and e.get("status") == "known" and e["signature"] not in sigs)]
        by = {(e["property"], e["signature"]): e for e in data["findings"] if e.get("status") == "known"}
        for sig in sorted(sigs):
            st = sigs[sig]
            key = (self.prop, sig)
            if key in by and by[key].get("status") == "known":
                continue
            ex = st["examples"][0] if st["examples"] else None
            wit = ex.get("text") if isinstance(ex, dict) and "text" in ex else json.dumps(ex)[:200]
            tgt = ex.get("target") if isinstance(ex, dict) else None
            wf = describe(sig, st) if describe else (st["details"] or [""])[0][:200]
            ent = dict(property=self.prop, signature=sig, witness=wit, what_fails=wf, status="known")
            if tgt:
                ent["call_site"] = tgt
            data["findings"].append(ent)
        data["findings"].sort(key=lambda e: (e["property"], e["signature"]))
        with open(self.path, "w") as f:
            json.dump(data, f, indent=1)
            f.write("\n")
        ext = dict(self.extent)
        cur = {}
        for sig in sorted(sigs):
            st = sigs[sig]
            if st.get("counted"):
                cur[sig] = dict(sorted((st.get("fine") or {}).items()))
        ext[tier] = cur
        os.makedirs(os.path.dirname(self.extent_path), exist_ok=True)
        with open(self.extent_path, "w") as f:
            json.dump(ext, f, indent=0, sort_keys=True)
            f.write("\n")


# --------------------------------------------------------------------------- evidence / exit

def write_replay(prop, n, runner, params, case, sig, detail):
    d = os.path.join(EVIDENCE, "replays")
    os.makedirs(d, exist_ok=True)
    p = os.path.join(d, "%s-%d.json" % (prop, n))
    with open(p, "w") as f:
        json.dump(dict(property=prop, runner=runner, params=params, case=case, signature=sig, detail=detail), f, indent=1)
    return p


def clear_replays(prop):
    d = os.path.join(EVIDENCE, "replays")
    if os.path.isdir(d):
        for f in os.listdir(d):
            if f.startswith(prop + "-"):
                os.unlink(os.path.join(d, f))


def write_evidence(prop, tier, level, coverage, assumptions, wall, violations, extra=None):
    os.makedirs(EVIDENCE, exist_ok=True)
    ev = dict(property_id=prop, tier=tier, seed=seed(), level=level, coverage=coverage,
              assumptions=assumptions, wall_s=round(wall, 2), violations=violations)
    if extra:
        ev.update(extra)
    tmp = os.path.join(EVIDENCE, prop + ".json.tmp")
    with open(tmp, "w") as f:
        json.dump(ev, f, indent=1, sort_keys=True)
    os.replace(tmp, os.path.join(EVIDENCE, prop + ".json"))


def report(prop, tier, findings, outcome, runner, params, record=False):
    """Print KNOWN-FINDING / VIOLATION lines.  Returns number of violations."""
    sigs = dict(outcome.sigs)
    # confirmed crashes become signatures of their own
    for c in outcome.crashes:
        if c.get("confirmed"):
            cs = (c.get("case") or {})
            sig = "crash|%s|%s" % (c.get("kind2") or c.get("kind"), cs.get("target", cs.get("kind", "?")) if isinstance(cs, dict) else "?")
            cur = sigs.setdefault(sig, dict(count=0, counted=False, examples=[], details=[]))
            cur["count"] += 1
            if len(cur["examples"]) < 3:
                cur["examples"].append(c.get("case"))
                cur["details"].append((c.get("stderr") or "")[-600:])
    if os.environ.get("VERIF_DUMP_CRASHES"):
        with open(os.environ["VERIF_DUMP_CRASHES"], "w") as f:
            json.dump([dict(kind=c.get("kind2") or c.get("kind"), confirmed=c.get("confirmed"), case=c.get("case")) for c in outcome.crashes], f)
    oracle = {s: v for s, v in sigs.items() if s.startswith("ORACLE|")}
    for s in oracle:
        del sigs[s]
    known_seen, violations = findings.classify(sigs, tier)
    for sig, st, e in known_seen:
        print("KNOWN-FINDING: property=%s %s [%s; %d case(s) this run; witness %s]" % (
            prop, e.get("what_fails", sig), sig, st["count"], e.get("witness", "?")))
    clear_replays(prop)
    n = 0
    for sig, st, why in violations:
        n += 1
        ex = st["examples"][0] if st["examples"] else None
        path = write_replay(prop, n, runner, params, ex, sig, (st["details"] or [""])[0] + " -- " + why)
        print("VIOLATION property=%s replay=%s" % (prop, path))
        print("  signature: %s (%d case(s)); %s" % (sig, st["count"], why))
        if ex is not None:
            print("  example: %s" % json.dumps(ex)[:300])
    return n, known_seen, violations, oracle, sigs


# --------------------------------------------------------------------------- helpers shared by property modules

def tlc_parallel(scratch, runs, timeout=900, coverage=False):
    """runs: list of (module, cfg, workers).  Runs them concurrently; returns list of TlcResult (all must be ok)."""
    results = [None] * len(runs)
    errs = []

    def go(i, r):
        try:
            results[i] = run_tlc(scratch, r[0], r[1], workers=r[2], timeout=timeout, coverage=coverage)
        except Infra as ex:
            errs.append(str(ex))

    ts = [threading.Thread(target=go, args=(i, r)) for i, r in enumerate(runs)]
    for t in ts:
        t.start()
    for t in ts:
        t.join()
    if errs:
        raise Infra("; ".join(errs))
    for r, res in zip(runs, results):
        require_tlc_ok(res, "%s/%s" % (r[0], r[1]))
    return results


def export_jsontext(scratch, transform=False):
    """Have TLC evaluate JsonText's transition table and byte-class map (and, with transform=True, the Compact /
    Indent emission tables of JsonTransform); returns the path of a JSON file."""
    mod = "JsonTransformExport" if transform else "JsonTextExport"
    res = run_tlc(scratch, mod, mod + ".cfg", workers=1, timeout=120)
    require_tlc_ok(res, mod)
    try:
        tab = res.prints["EXPORT-TABLE"][0]
        cls = res.prints["EXPORT-CLASSES"][0]
        nd = res.prints["EXPORT-NUMDONE"][0]
    except (KeyError, IndexError):
        raise Infra("JsonTextExport printed no table: " + res.raw[-800:])
    d = dict(table=tab, classes=cls, numdone=nd)
    if transform:
        try:
            d["compact"] = res.prints["EXPORT-COMPACT"][0]
            d["indent"] = res.prints["EXPORT-INDENT"][0]
        except (KeyError, IndexError):
            raise Infra("JsonTransformExport printed no emission tables")
    p = os.path.join(scratch.path, "jsontext-table%s.json" % ("-x" if transform else ""))
    with open(p, "w") as f:
        json.dump(d, f)
    return p, res


def record_entries(prop, tier, sigs):
    """Render observed signatures as known_findings entries (maintenance aid)."""
    out = []
    for sig in sorted(sigs):
        st = sigs[sig]
        ex = st["examples"][0] if st["examples"] else None
        wit = ex.get("text") if isinstance(ex, dict) and "text" in ex else json.dumps(ex)[:160]
        e = dict(property=prop, signature=sig, witness=wit, what_fails=(st["details"] or [""])[0][:160], status="known")
        if st.get("counted"):
            e["max_count"] = {tier: st["count"]}
        out.append(e)
    return out


def conclude(prop, tier, level, t0, outcome, findings, runner, params, coverage, assumptions, record=False,
             tlc_results=(), extra_cov=None, describe=None):
    """Shared tail of every check: classify divergences, print lines, write evidence, compute exit status."""
    nviol, known_seen, violations, oracle, sigs = report(prop, tier, findings, outcome, runner, params)
    states = sum(r.distinct for r in tlc_results)
    trans = sum(r.generated for r in tlc_results)
    cov = dict(coverage)
    cov.setdefault("evaluations", outcome.evaluations)
    cov.setdefault("distinct_nontrivial", outcome.nontrivial)
    cov.setdefault("samples", outcome.samples[:4] or [{"note": "no sample recorded"}])
    if tlc_results:
        cov["states"] = states
        cov["transitions"] = trans
        cov["tlc_runs"] = [dict(cmd=r.cmd, generated=r.generated, distinct=r.distinct, wall_s=round(r.wall, 1)) for r in tlc_results]
    cov["library_calls"] = outcome.counters.get("calls", 0)
    cov["known_findings_seen"] = [dict(signature=s, count=st["count"]) for s, st, e in known_seen]
    cov["oracle_disagreements"] = sum(v["count"] for v in oracle.values())
    cov["crashes_observed"] = len(outcome.crashes)
    cov["crashes_unconfirmed"] = len([c for c in outcome.crashes if not c.get("confirmed")])
    if extra_cov:
        cov.update(extra_cov)
    write_evidence(prop, tier, level, cov, assumptions, time.time() - t0, nviol)
    if record:
        findings.record(sigs, tier, describe=describe)
        print("recorded %d signature(s) for %s/%s" % (len(sigs), prop, tier))
    status = 0
    if oracle:
        for s, v in oracle.items():
            print("INFRA: specification and encoding/json disagree: %s (%d) e.g. %s" % (s, v["count"], json.dumps(v["examples"][:1])[:200]))
        status = 2
    if outcome.infra:
        for m in outcome.infra:
            print("INFRA: %s" % m)
        status = 2
    unconf = [c for c in outcome.crashes if not c.get("confirmed")]
    # a long-lived worker that reaches its address-space cap (reflect-built types are never freed) is restarted after the case it
    # was executing; when that case passes alone the death was the harness's own memory, neither a finding nor a failed run
    restarts = [c for c in unconf if c.get("kind") == "fatal:out-of-memory"]
    unconf = [c for c in unconf if c.get("kind") != "fatal:out-of-memory"]
    if restarts:
        print("note: %d worker restart(s) at the per-process memory cap (the interrupted case passes when run alone)" % len(restarts))
    if unconf:
        print("INFRA: %d worker death(s) not reproduced when re-run alone (first: %s)" % (len(unconf), json.dumps(unconf[0])[:400]))
        status = 2
    if nviol:
        status = 1
    print("%s %s: %d evaluations, %d library calls, %d known finding signature(s), %d violation(s), %.1fs" % (
        prop, tier, outcome.evaluations, outcome.counters.get("calls", 0), len(known_seen), nviol, time.time() - t0))
    return status


def generic_replay(scratch, rp, runner):
    binary = build_harness(scratch)
    job = dict(prop=rp["property"], tier="quick", seed=seed(), shard=0, shards=1, resume=0, only=-1, cur_file="",
               params=rp.get("params") or {}, replay=rp.get("case"))
    return binary, job


def finish_replay(prop, binary, runner, job, scratch, timeout=300, env=None):
    rc, so, se, to = run_single(binary, runner, job, scratch, timeout=timeout, env=env)
    out = WorkerOutcome()
    _parse_lines(so, out)
    if rc != 0 or to:
        print("replay: worker died or hung (rc=%s)\n%s" % (rc, se[-1500:]))
        return 1
    if out.sigs:
        for s, st in out.sigs.items():
            print("replay reproduces: %s -- %s" % (s, (st["details"] or [""])[0]))
        return 1
    print("replay: no divergence")
    return 0
