#!/usr/bin/env python3
"""Regenerates MANIFEST.json from the table below (single source of truth for the interface file)."""
import json, os

HERE = os.path.dirname(os.path.dirname(os.path.abspath(__file__)))

CHECKS = {
    "C01": dict(
        level="exploration",
        text="GoTypes.tla is the type grammar as a construction state machine (leaf, then ptr/slice/array/map/iface/struct-with-tag-"
             "options/embedding steps); TLC enumerates every construction up to 2 (quick) / 3 (thorough) steps and exports it. The "
             "harness realises each with reflect (plus a catalogue of named marshaler / recursive types), generates values in 6-7 "
             "deterministic modes and compares Marshal, MarshalIndent and Encoder (no HTML escape) with encoding/json, reaching the "
             "value directly, through a pointer and through interface{}. Divergences are minimised structurally; the minimal "
             "construction is the finding's signature and the original cases its recorded extent.",
        note="exploration: encoding/json is the trusted oracle; the TLA+ spec supplies the enumerated type space, not the byte-level "
             "semantics. Two type families on which the unchanged encoder is memory-unsafe ([1]T with pointer-shaped T; top-level **X) "
             "are excluded from comparison and covered by isolated witnesses (known findings).",
        technique="TLC-enumerated type constructions (GoTypes.tla) realised with reflect; differential encoding against encoding/json with structural minimisation",
        engine="GoTypes", design="8/C01"),
    "C02": dict(
        level="exploration",
        text="Destination types are the constructions TLC enumerates from GoTypes.tla; documents are encoding/json's encodings of "
             "generated values plus every single-node mutation (24 replacement values incl. integer/float range boundaries, unknown, "
             "duplicate and case-changed members, surplus and missing elements), decoded into zeroed and pre-populated destinations "
             "with Unmarshal, Decoder, UseNumber and DisallowUnknownFields. go-json and encoding/json must agree on error/no-error "
             "and, on success, be deeply equal. Divergences are reduced jointly over document and type.",
        note="exploration: encoding/json is the trusted oracle; only valid documents are used (C05 covers invalid ones).",
        technique="TLC-enumerated destination types; differential decoding of derived and mutated documents against encoding/json with joint document/type reduction",
        engine="GoTypes", design="8/C02"),
    "C03": dict(
        level="model_checking",
        text="Every byte sequence any of 7 entry point / option sets returns with err == nil, for every TLC-enumerated type "
             "construction and value mode (including NaN/Inf in every float position, 20 json.Number payloads and 28 scripted marshaler "
             "outputs), is run through the JsonText recogniser that TLC model-checks against its declarative grammar and exports as a "
             "table; it must be accepted and be valid UTF-8 (while normalisation is on), and values encoding/json refuses as "
             "unrepresentable must produce an error.",
        note="trusted: TLC, JsonText.tla (third voice encoding/json.Valid), encoding/json's refusal as the definition of unrepresentable.",
        technique="TLC-exported RFC 8259 recogniser used as a monitor over encoder outputs for TLC-enumerated types and unrepresentable values",
        engine="JsonText", design="8/C03"),
    "C04": dict(
        level="exploration",
        text="For every TLC-enumerated round-trippable type construction and value mode, Unmarshal(Marshal(v)), a two-document "
             "Encoder->Decoder stream and Unmarshal(MarshalIndent(v)) must be deeply equal to v, wherever encoding/json's own round "
             "trip is.",
        note="exploration: reflect.DeepEqual is the oracle; the value space is the deterministic value modes of the harness (integer "
             "extremes of every width, floats needing 17 digits, strings with every escape class).",
        technique="TLC-enumerated type constructions; Marshal/Unmarshal round trip with DeepEqual, filtered by encoding/json's own round trip",
        engine="GoTypes", design="8/C04"),
    "C05": dict(
        level="model_checking",
        text="JsonText.tla (RFC 8259 pushdown recogniser) is model-checked by TLC against its own declarative grammar on every "
             "string up to length 5-7 over four reduced alphabets; TLC then exports the transition table and the harness replays "
             "every byte-class string up to length 4 (quick) / 5 (thorough) plus mutated generated texts into Valid, Unmarshal and "
             "Decoder.Decode with 21 destinations; the real code's accept/reject verdict must equal the specification's "
             "(encoding/json.Valid is a third voice).",
        note="trusted: TLC, the JsonText specification (cross-checked against encoding/json.Valid on every enumerated string), "
             "one representative byte per byte class in the exhaustive part. Known divergences of the unchanged tree are listed "
             "in known_findings.json with their recorded extent in findings_extent/C05.json.",
        technique="TLA+ recogniser spec model-checked by TLC; TLC-exported automaton replayed exhaustively into the decoder",
        engine="JsonText", design="8/C05"),
    "C11": dict(
        level="model_checking",
        text="CallHistory.tla models pooled scratch contexts whose fields carry the id of the call that last wrote them (take / reset / "
             "use / release, panicking calls leak their context); TLC checks NoStaleRead and ResultsStable on all histories of abstract "
             "kinds and finds the stale read when a field is dropped from the reset set. Instantiated with the harness's ~65 concrete call "
             "kinds (every entry point x option set, 17 failing kinds, persistent Encoder / Decoder / Path / FieldQuery handles) it "
             "enumerates all histories of length <= 2 and simulates long ones (60 / 300 calls); each history runs in one process (GC "
             "off, GOMAXPROCS=1, so the pool hands back the context just released) and every call's result is compared with the same "
             "call made first in a fresh process.",
        note="trusted: TLC; the cold table (one fresh process per call kind); deterministic sync.Pool reuse with GC off in the production build.",
        technique="TLA+ pooled-context model (with named deviations) model-checked by TLC; TLC-enumerated and simulated call histories replayed against a cold-process oracle",
        engine="CallHistory", design="8/C11"),
    "C12": dict(
        level="model_checking",
        text="The same TLC-generated call histories as C11, replayed with ownership checks: every slice returned by a Marshal function "
             "and every decoded value (strings, []byte, RawMessage, json.Number, interface{} contents, struct fields) is snapshotted; "
             "after each decode the caller's input is overwritten, every second returned slice is scribbled over, and after every later "
             "call all earlier snapshots are re-checked (and results still compared with the cold table). CallHistory.tla's "
             "ResultsStable invariant and its ReturnPooled deviation are the design-level counterpart checked by TLC.",
        note="trusted: TLC; snapshots are encoding/json renderings of the decoded values.",
        technique="TLA+ ownership invariant (ReturnPooled deviation) checked by TLC; TLC-generated histories replayed with snapshot / overwrite / re-check of every result",
        engine="CallHistory", design="8/C12"),
    "C13": dict(
        level="model_checking",
        text="Relations R1 (MarshalIndent = Indent o Marshal for 5 prefix/indent pairs), R2 (Colorize with empty/default/custom scheme "
             "= plain after removing markers, with and without indent), R3 (UnorderedMap permutes only), R4 (DisableHTMLEscape changes "
             "only the spelling of < > &), R5 (Encoder.Encode, EncodeContext, MarshalNoEscape, MarshalContext, MarshalWithOption, "
             "DebugWith = Marshal) and R6 (top level = behind pointer = inside interface{} where encoding/json agrees) are evaluated "
             "for every TLC-enumerated type construction and value mode.",
        note="the relations are checked between go-json's own outputs; encoding/json.Indent is the reference Indent (itself matched "
             "against JsonTransform.tla in C18).",
        technique="TLC-enumerated type constructions; metamorphic relations between encoder variants with structural minimisation",
        engine="GoTypes", design="8/C13"),
    "C15": dict(
        level="model_checking",
        text="KeyLookup.tla states the reference selection rule (exact match, then first case-folded match) and models go-json's "
             "bitmap matcher (lower-cased sorted names, per-position bit sets, lowest candidate, early-match length test); TLC checks "
             "that the matcher refines the reference for every eligible name set and key over {a,A,b,_} (names <= 2, keys <= 3, raw or "
             "escaped items) and that the code's original raw-length test does not (named deviation must yield its counterexample). "
             "TLC-emitted (names, key items, expected field) cases are replayed into reflect-built structs padded to the 1..8 / 9..16 / "
             ">16 field regimes, in buffer, stream and one-byte-stream mode; a larger name/key space (13-symbol alphabet, >64-byte names) "
             "and ~1000 embedded-struct conflict shapes use encoding/json as the oracle.",
        note="trusted: TLC, KeyLookup.tla (cross-checked with encoding/json on every emitted case; disagreement = exit 2), "
             "encoding/json as the yardstick the property names.",
        technique="TLA+ refinement check of the bitmap matcher against the reference rule; TLC-emitted key-selection cases replayed into real structs; encoding/json differential for the wider space",
        engine="KeyLookup", design="8/C15"),
    "C16": dict(
        level="model_checking",
        text="IntCodec.tla states integer literal semantics on digit sequences (bounds derived by doubling, length-then-lexicographic "
             "comparison, well-formedness of JSON integers); TLC checks monotonicity of Fits, print/parse round trip and sharpness of "
             "every bound, and emits one conformance case per explored (kind, literal): every literal within 130 (quick) / 1100 "
             "(thorough) of each bound of the 8 kinds, interior powers of two and ten, 1..25-digit literals and ill-formed forms. Each "
             "case is replayed in 7 positions (plain, pointer, slice element, map key, ,string member, Decoder stream, struct field) "
             "and for int/uint/uintptr; the stored value must equal the specification's canonical text, or an error must be returned. "
             "Encoding is swept against strconv (outside the model).",
        note="trusted: TLC, IntCodec.tla (math/big re-derives every verdict; disagreement = exit 2), strconv for the encoder sweep.",
        technique="TLA+ digit-sequence spec model-checked by TLC; TLC-emitted (kind, literal, verdict) cases replayed into the decoder; strconv sweep for the printer",
        engine="IntCodec", design="8/C16"),
    "C17": dict(
        level="model_checking",
        text="StrCodec.tla defines encoder tokens (well-formed scalars and ill-formed byte groups), their meaning after parsing "
             "(ill-formed bytes -> U+FFFD), the must-escape sets per flag, and the scalar sequence of every string-literal item "
             "sequence (escapes, surrogate pairing, lone surrogates); TLC checks Meaning(Enc(s)) = Repl(s), absence of forbidden raw "
             "items and well-formedness under normalisation for all token sequences up to length 3/4 and 4 flag combinations, and "
             "exports the token table and all item sequences up to length 2/3 with expected scalars. The harness instantiates them "
             "with concrete bytes at every offset relative to the 8-byte scanning window (5 encoder contexts, 10 decoder contexts, all "
             "byte strings up to length 2/3) and compares go-json with the specification and with encoding/json. The item catalogue includes the quote and the backslash spelled as \\u escapes.",
        note="trusted: TLC, StrCodec.tla (cross-checked with encoding/json on every decoder case; disagreement = exit 2), "
             "encoding/json's decoder as the conforming parser, utf8.DecodeRune as tokeniser.",
        technique="TLA+ token-level codec spec model-checked by TLC; TLC-exported token table and item-sequence cases instantiated at all window offsets",
        engine="StrCodec", design="8/C17"),
    "C18": dict(
        level="model_checking",
        text="JsonTransform.tla defines Compact and Indent as transducers on top of the JsonText recogniser; TLC checks on every "
             "input up to length 5-6 over two alphabets that outputs are valid texts, both are idempotent, Compact(Indent(x)) = "
             "Compact(x) and an invalid text yields no output; TLC exports the per-transition emission tables and the harness "
             "applies them to every byte-class string up to length 3 (quick) / 5 (thorough) and to decorated generated texts, "
             "comparing the bytes appended by go-json's Compact/Indent (6 prefix/indent settings, empty and pre-filled "
             "destination) with the specification's; HTMLEscape is checked for value equivalence and absence of raw special "
             "characters, Valid against the recogniser. Part D adds every string item of the catalogue (alone, before and after an escaped backslash) as value and member name in documents whose nesting deepens after the string.",
        note="trusted: TLC, JsonTransform.tla (compared with encoding/json's Compact/Indent on every call; a disagreement is exit 2). "
             "Known divergences are listed in known_findings.json with their extent in findings_extent/C18.json.",
        technique="TLA+ transducer spec model-checked by TLC; TLC-exported emission tables replayed into Compact/Indent/HTMLEscape/Valid",
        engine="JsonTransform", design="8/C18"),
    "C06": dict(
        level="exploration",
        text="Inputs are behaviours of the JsonText specification (every byte-class string up to length 3/4, escape-catalogue string "
             "literals with every single-byte mutation and truncation, generated texts with every prefix and a mutation per position), "
             "nesting depths around the 10000 limit and up to 10^7, and every path string up to length 4/6; each goes to ~150 entry "
             "point x destination combinations (Unmarshal*, Decoder incl. one-byte and failing readers, Token/More/Buffered, Valid, "
             "Compact, Indent, HTMLEscape, CreatePath, Path.Extract/Unmarshal/Get) in crash-isolating worker processes. Oracle: no "
             "recovered panic, no process death, no stall. TLC model-checks the window protocol (a refill always has room for its "
             "sentinel) and the recogniser the inputs are drawn from. Part L places 14 token kinds at every offset around the stream buffer's 512/1024-byte boundaries, whole and cut there.",
        note="exploration: absence of crashes is observed on the enumerated inputs, not proved; trusted: Go runtime's panic/fatal "
             "reporting, 60 s stall detector. Indent on nestings deeper than 10^5 is skipped (quadratic time by design, as in encoding/json).",
        technique="TLA+-specified input space (JsonText) enumerated into all decoding/utility entry points under crash isolation",
        engine="JsonText", design="8/C06"),
    "C07": dict(
        level="exploration",
        text="MemLayout.tla models the destination as fields between guard regions in a byte map and the stores the decoder's design "
             "performs (field-sized stores; array elements followed by an element-sized reset of the tail); TLC checks that writes stay "
             "inside the fields the document names for every layout of up to 2 fields of 18 kinds (element sizes 1..64) x 6 document "
             "actions, and FINDS the overwritten neighbour under the deviation PointerSizedZeroFill (the code before it was repaired). "
             "Every (layout, document) pair is realised with reflect.StructOf (3 Go types per kind), canary-filled and decoded with "
             "Unmarshal, Decoder and a truncated document: guards and un-named fields must be byte-identical, named fields equal "
             "encoding/json's, all headers walkable; a sample runs again in a -d=checkptr build and the GC sweeps all results. Kinds q1..q8 (,string scalars) and t1..t4 (narrow TextUnmarshaler values) and the spare capacity of every destination slice are covered as well; two more named deviations (WideQuotedStore, PointerSizedNullStore) must be found by TLC.",
        note="exploration: memory safety is observed (canaries, walk, GC, checkptr), not proved; encoding/json defines the result inside the addressed set.",
        technique="TLA+ byte-map model of decoder stores (with a named deviation) checked by TLC; TLC-emitted layouts realised with canaries, checkptr build and GC sweeps",
        engine="MemLayout", design="8/C07"),
    "C08": dict(
        level="model_checking",
        text="EncVM.tla models the interpreter's frame discipline (frames at base + declared extent, slot array grown for the callee, "
             "return to the caller's base); TLC proves for all interleavings of loads, stores, calls and returns that under assumption A "
             "(slots used < declared extent) no load observes a slot written by a returned frame, accesses stay inside the array and "
             "frames are disjoint, and finds the clobber under the deviation ExtentTooSmall. Binding: hooks in load/store/loadNPtr of "
             "the four interpreters record every slot access while 90 recursive / interface-bearing shapes and their holders are encoded "
             "at depths up to 30 (quick) / 300 (thorough; chains of 1150 nodes in the after-failure histories) through four reach modes and four interpreters with GC-forcing marshalers; TLC "
             "validates the traces against EncVMTrace.tla, outputs are compared with encoding/json, eight kinds of cycles must error.",
        note="trusted: TLC; frame boundaries are inferred from the frame base of each recorded access; encoding/json for the expected document. "
             "Hooks: internal/encoder/vm*/util.go and context.go (build tag verif).",
        technique="TLA+ frame-discipline spec model-checked by TLC (with a named deviation); TLC trace validation of recorded scratch-slot accesses; output differential and cycle checks",
        engine="EncVM", design="8/C08"),
    "C09": dict(
        level="model_checking",
        text="StreamDecoder.tla models the refillable window (read with optional doubling, consume, in-place unescape, reset) over "
             "document byte positions; TLC checks conservation of bytes, the NUL sentinel, index bounds, growth and refinement to the "
             "index arithmetic (StreamIdx.tla) for every reader schedule on small constants. Binding: (A) ~330 (destination, document) "
             "pairs x every single cut / pair of cuts / piece size 1..17 / refill-boundary padding / reader failure position are "
             "replayed through a scripted io.Reader and compared with Unmarshal and with encoding/json's Decoder (More, InputOffset, "
             "Token); (B) hook events of read()/reset() recorded during those runs are validated by TLC against StreamTrace.tla, "
             "which re-checks every recorded step against the specification's arithmetic.",
        note="trusted: TLC, the JsonText automaton for naming the token a cut falls into, encoding/json's Decoder as yardstick for "
             "More/InputOffset/Token. Hooks: internal/decoder/stream.go read()/reset() (build tag verif).",
        technique="TLA+ window-protocol spec model-checked by TLC; scripted-reader schedule replay; TLC trace validation of hook events",
        engine="StreamDecoder", design="8/C09"),
    "C10": dict(
        level="model_checking",
        text="TypeCache.tla models a first-use lookup in the per-type caches as separately scheduled steps (range guard, slot read, "
             "compile, field-query filter with its nested lookup for the query's own type, publish; copy-on-write map for heap types) "
             "in the production variant (unsynchronised publish) and the race-build variant (RWMutex with writer preference); TLC proves "
             "that every call returns its own type's complete program, slots only hold their owner's program, locks are sane and never "
             "leak, no deadlock (2 goroutines x 2 calls, 3 x 1, both sides), termination under weak fairness, and FINDS three named "
             "deviations incl. the race build's self-deadlock before fix 371b1d0. Binding: (S) every behaviour of GenSpec is replayed "
             "by a cooperative scheduler built on the verif hooks on never-used generated types in the production and -race builds - "
             "results must equal the sequential ones, the goroutines must be at the hooks the behaviour predicts, everything must "
             "return; (R) the Go scheduler interleaves 2..64 goroutines x mixed operations over cold and shared types, a shared "
             "FieldQuery and shared Paths at GOMAXPROCS 1..16, compared with pre-computed results, and the -race build's reports are "
             "attributed to library frames.",
        note="trusted: TLC; the hook points (before the slot read, before compiling, before the write) as the granularity of the "
             "replayed interleavings; the Go race detector. Part R samples schedules. Pools and VM state outside the caches are covered "
             "by part R and the race detector only. Hooks: internal/{encoder,decoder}/compile*_{race,norace}.go, compiler.go, compile.go.",
        technique="TLA+ cache-protocol spec (production and race-build variants, three named deviations) model-checked by TLC incl. deadlock and liveness; TLC-generated schedules replayed through hook-based cooperative scheduling in both builds; concurrent stress vs sequential results with race-detector reports",
        engine="TypeCache", design="8/C10"),
    "C14": dict(
        level="model_checking",
        text="TypeLayout.tla models AnalyzeTypeAddr's inference (lowest / highest listed descriptor, alignment relative to the running "
             "minimum, every listing order) and the slot arithmetic of the address-indexed caches; TLC proves for every layout of up to "
             "3/4 descriptors (48..112 bytes, 32- and 64-byte placement, listed / pointer-with-element / unlisted, heap descriptors below "
             "and above the window) that every in-window descriptor has its own slot inside the table and that nothing outside the window "
             "reaches the table, and FINDS the counterexamples of four named deviations (16-byte alignment, capped shift, the decoder's "
             "missing lower bound before fix 4477a51, table one slot short); TypeCache.tla's deviation SharedSlot shows that a shared slot "
             "returns another type's program. Binding: a generated worker binary with 1000/3000 families x 14 named, unnamed and same-named local types plus "
             "reflect-created types, built from /repo as production, -race and position-independent executable, encodes and decodes every "
             "type cold in seeded orders against encoding/json, and TLC validates every recorded return of CompileToGetCodeSet / "
             "CompileToGetDecoder against TypeCacheTrace.tla (guard, index arithmetic, bound, own type, one type per slot, one type per program).",
        note="trusted: TLC; encoding/json for the expected documents; the linker's real layouts are sampled (3 flavours x the generated type "
             "set), not enumerated - the spec states the geometric assumption (descriptors >= 64 bytes apart) and the harness measures it "
             "on each binary. Hooks: internal/{encoder,decoder}/compile*_{race,norace}.go (build tag verif).",
        technique="TLA+ address-window spec model-checked by TLC (four named deviations); TLC trace validation of recorded cache lookups from generated many-types binaries in three build flavours; output differential",
        engine="TypeLayout", design="8/C14"),
    "C19": dict(
        level="model_checking",
        text="FieldQuery.tla: queries are sets of selector paths into a struct tree that reaches a pointer, a value struct, a slice, a "
             "map and an interface member; Project (reference) applies the same sub-query through all of them; the per-type cache of "
             "filtered programs is a state machine (stored field tree, cache keyed by query text) for which TLC checks that every result "
             "depends on its own query only and that the stored tree is never changed, and that the named deviation InPlaceFilter IS "
             "found. TLC emits every query of up to 2/3 paths with its JSON spelling and the expected projection of two values; each is "
             "replayed with MarshalContext / EncodeContext on fresh reflect-built types, rebuilt from its own QueryString, and used in "
             "five-step histories for every interfering ordered pair of queries. The type has a member whose type is a context-aware marshaler forwarding its context; three non-existent names (one per nesting level) are part of the path universe.",
        note="trusted: TLC and FieldQuery.tla (unfiltered document cross-checked with encoding/json).",
        technique="TLA+ projection reference + cache state machine model-checked by TLC (with a named deviation); TLC-emitted queries and expected projections replayed in cold-cache histories",
        engine="FieldQuery", design="8/C19"),
    "C20": dict(
        level="model_checking",
        text="PathEval.tla contains the documented path grammar as a character-level recursive-descent parser, reference evaluation "
             "(child, index, wildcard, quoted names, recursive descent with RFC 9535 meaning, document order) over tagged document "
             "trees rendered to JSON text, and longer paths enumerated at selector level. TLC enumerates every string up to length 5/6 "
             "over {$ . [ ] * ' \" 0 1 a b} and every sequence of up to 2/3 selectors from a 10-selector catalogue, checks balance "
             "properties, and exports membership and expected results for four documents. The harness replays them into CreatePath / "
             "Extract / Path.Unmarshal and runs every 3-call history over 7 documents (3 failing) on one reused Path against fresh Paths. Texts accepted outside the documented grammar are divergences classified by what is wrong with them; every document is also offered with the first character of each member name spelled as an escape.",
        note="trusted: TLC and PathEval.tla as the reference evaluation; strings CreatePath accepts outside the reference language are "
             "only checked for purity; an empty reference selection may be reported as an error.",
        technique="TLA+ path grammar + reference evaluator; TLC-enumerated paths with expected selections replayed into the library; reuse histories against fresh objects",
        engine="PathEval", design="8/C20"),
}

NOT_YET = "check not built yet in this round; planned (see DESIGN.md section 8)"

ALL = ["C%02d" % i for i in range(1, 21)]


def main():
    checks = []
    for pid in ALL:
        c = CHECKS.get(pid)
        if not c:
            continue
        checks.append(dict(
            property_id=pid,
            quick_cmd="./check %s quick" % pid,
            thorough_cmd="./check %s thorough" % pid,
            evidence_file="/verif/evidence/%s.json" % pid,
            replay_cmd_template="./check replay {path}",
            engine=c["engine"],
            level_claimed=dict(category=c["level"], text=c["text"], design_ref=c["design"]),
            level_note=c["note"],
            technique=c["technique"],
        ))
    na = [dict(property_id=p, reason=NA.get(p, NOT_YET)) for p in ALL if p not in CHECKS]
    m = dict(
        version=1,
        setup_cmd="./setup.sh",
        hooks=dict(guard="verif", enable="go build -tags verif (done by ./check for the harness binary)",
                   baseline_off_cmd="cd /repo && GOFLAGS=-mod=mod go test -vet=off -count=1 -timeout 25m ./...",
                   source_commits=HOOK_COMMITS, add_only=True),
        engines=ENGINES,
        checks=checks,
        notes="Driver: ./check <id> <quick|thorough>; specs in specs/*.tla; Go harness in harness/ (replace => /repo). "
              "Exit 2 means an infrastructure problem (TLC failure, unreproduced crash, specification vs encoding/json "
              "disagreement), never a violation.",
        not_applicable=na,
    )
    with open(os.path.join(HERE, "MANIFEST.json"), "w") as f:
        json.dump(m, f, indent=1)
        f.write("\n")


NA = {}
HOOK_COMMITS = ["cb16685", "7053e9c", "17a7452"]
FIX_COMMITS = ["3ba2124", "35e540e", "5d9c0a9", "182cdbb", "c177d40", "4cc9b5c", "e04537c", "f4cd737", "4b54f48", "54b79dc", "663fc64", "4477a51", "371b1d0", "3797c82", "1b93308", "e3c7411", "1dddabc", "31416d3"]
ENGINES = [
    dict(name="TokenStream", path="specs/TokenStream.tla", serves_properties=["C09"],
         kind_free_text="TLA+ labelling of the JSON automaton's transitions with the tokens Decoder.Token returns; exported with the transition table"),
    dict(name="FloatText", path="specs/FloatText.tla", serves_properties=["C01"],
         kind_free_text="TLA+ definition of the text of a float from its shortest decimal digits and exponent; numbers with expected text exported by TLC"),
    dict(name="FieldRules", path="specs/FieldRules.tla", serves_properties=["C01", "C02"],
         kind_free_text="TLA+ specification of Go's struct member rules (promotion through embedded structs, tags, hidden fields, dominance); programs with expected member lists exported by TLC"),
    dict(name="TypeLayout", path="specs/TypeLayout.tla", serves_properties=["C14"],
         kind_free_text="TLA+ model of the type-address window inference and slot arithmetic (TypeLayout.tla) and trace specification TypeCacheTrace.tla for recorded cache lookups"),
    dict(name="TypeCache", path="specs/TypeCache.tla", serves_properties=["C10", "C14"],
         kind_free_text="TLA+ model of concurrent first-use lookups in the per-type caches (production and race-build variants, copy-on-write map, nested lookup for field-query hashes); schedule export for cooperative-scheduler replay"),
    dict(name="EncVM", path="specs/EncVM.tla", serves_properties=["C08"],
         kind_free_text="TLA+ model of the encoder VM's scratch-slot frames (EncVM.tla, EncVMRules.tla) and trace specification EncVMTrace.tla"),
    dict(name="MemLayout", path="specs/MemLayout.tla", serves_properties=["C07"],
         kind_free_text="TLA+ byte-map model of destination layouts and decoder stores; exhaustive layout x document enumeration and export"),
    dict(name="CallHistory", path="specs/CallHistory.tla", serves_properties=["C11", "C12"],
         kind_free_text="TLA+ model of pooled contexts with per-field last-writer tags and result ownership; exhaustive and simulated history generation"),
    dict(name="FieldQuery", path="specs/FieldQuery.tla", serves_properties=["C19"],
         kind_free_text="TLA+ field-query projection reference and per-type filtered-program cache state machine; query/expectation export"),
    dict(name="PathEval", path="specs/PathEval.tla", serves_properties=["C20"],
         kind_free_text="TLA+ JSON Path grammar (character-level parser) and reference evaluation over document trees; exhaustive path enumeration and export"),
    dict(name="KeyLookup", path="specs/KeyLookup.tla", serves_properties=["C15"],
         kind_free_text="TLA+ reference field-selection rule + implementation-shaped bitmap matcher; refinement check, named deviation, case export"),
    dict(name="GoTypes", path="specs/GoTypes.tla", serves_properties=["C01", "C02", "C03", "C04", "C13"],
         kind_free_text="TLA+ type-construction state machine; TLC enumerates and exports every construction up to a bound"),
    dict(name="StrCodec", path="specs/StrCodec.tla", serves_properties=["C17"],
         kind_free_text="TLA+ token-level model of JSON string escaping/unescaping; TLC laws + table/case export"),
    dict(name="IntCodec", path="specs/IntCodec.tla", serves_properties=["C16"],
         kind_free_text="TLA+ digit-sequence arithmetic and integer literal semantics; TLC laws + conformance case emission"),
    dict(name="StreamDecoder", path="specs/StreamDecoder.tla", serves_properties=["C09"],
         kind_free_text="TLA+ model of the stream window (StreamDecoder.tla + StreamIdx.tla) and trace specification StreamTrace.tla"),
    dict(name="JsonTransform", path="specs/JsonTransform.tla", serves_properties=["C18"],
         kind_free_text="TLA+ Compact/Indent transducers over JsonText; TLC invariants (idempotence, composition) and table export"),
    dict(name="JsonText", path="specs/JsonText.tla", serves_properties=["C05", "C06", "C09", "C18"],
         kind_free_text="TLA+ pushdown recogniser of RFC 8259 over byte classes + declarative grammar; TLC model checking and table export"),
]

if __name__ == "__main__":
    main()
