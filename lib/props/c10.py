"""C10 - all package functions are safe under concurrent use."""
import glob, json, os, re, time
import vlib, gentypes

PROP = "C10"
RUNNER = "c10"
ASSUME = [
    "specs/TypeCache.tla: first-use lookups in the per-type caches as separately scheduled steps (range guard, slot read, compile, "
    "field-query filter with its nested lookup for the query's own type, publish; copy-on-write map for heap types), in the production "
    "variant (unsynchronised publish) and the race-build variant (sync.RWMutex with writer preference); TLC proves OwnProgram, SlotOwner, "
    "LockSane, NoLockLeak and deadlock freedom for 2 goroutines x 2 calls and 3 goroutines x 1 call on both sides, termination under weak "
    "fairness, and FINDS the deviations FilterUnderReadLock (the race build before fix 371b1d0: deadlock), SharedSlot, PublishBeforeCompile "
    "and TwoWordSlot (the production decoder table before fix e3c7411: a two-word interface value stored non-atomically)",
    "binding S: every behaviour of GenSpec (the interleavings a scheduler acting at the hook points can produce) is replayed with a "
    "cooperative scheduler on the verif hooks, on types never used before in the process, in the production build (norace behaviours) and "
    "the -race build (race behaviours); every call must return what it returns alone; the goroutine must be found at the hook the "
    "behaviour predicts (in-step count reported); everything must return once the hooks are opened",
    "binding B: for every generated family, 4-8 goroutines spinning on a flag use each of its 12 cold types for the first time at the "
    "same instant (decode, then encode) - aimed at the few instructions of an unsynchronised publish (the torn two-word slot of the "
    "decoder table before fix e3c7411 shows up about once per 10^5 bursts)",
    "binding R: the Go scheduler interleaves 2..64 goroutines x ~60 operations (Marshal*, Unmarshal*, Encoder, Decoder, Valid, Compact, "
    "Indent, HTMLEscape, shared FieldQuery, shared Path) over cold generated types, cold heap types and shared values at GOMAXPROCS "
    "1/2/4/16; results are compared with those computed before the goroutines start; the -race build's reports are collected and "
    "attributed to library frames",
    "the interleavings of part R are sampled by the scheduler, not enumerated; the race detector only sees races that happen",
]


def describe(sig, st):
    p = sig.split("|")
    if p[0] == "race":
        return "the race detector reports a data race between %s and %s" % (p[1], p[2] if len(p) > 2 else "?")
    if p[0] == "hang":
        return "calls never return (%s build, %s)" % (p[1], p[2] if len(p) > 2 else "")
    if p[0] == "result":
        return "a replayed TypeCache schedule returns another result than the call alone (%s build, %s side, %s)" % (p[1], p[2], p[3])
    if p[0] == "concurrent":
        return "%s returns another result under concurrent use than alone (%s build)" % (p[2], p[1])
    if p[0] == "crash":
        return "the process dies (%s)" % p[1]
    return sig


GEN = '''SPECIFICATION GenSpec
CONSTANTS
  Procs = {%s}
  FastTypes = %s
  SlowTypes = {"H", "J"}
  QType = %s
  Sides = {"%s"}
  Variant = "%s"
  MaxCalls = %d
  Deviations = {}
INVARIANTS OwnProgram SlotOwner Export
'''


def spec_checks(scratch, tier):
    runs = [("TypeCache", "TypeCache_mc_norace.cfg", 4), ("TypeCache", "TypeCache_mc_race.cfg", 4),
            ("TypeCache", "TypeCache_mc3_norace.cfg", 3), ("TypeCache", "TypeCache_mc3_race.cfg", 3),
            ("TypeCache", "TypeCache_live_norace.cfg", 1), ("TypeCache", "TypeCache_live_race.cfg", 1)]
    tl = vlib.tlc_parallel(scratch, runs, timeout=1500)
    devs = []
    for cfg, want in (("TypeCache_dev_deadlock.cfg", "Deadlock reached"), ("TypeCache_dev_shared_race.cfg", "Invariant OwnProgram is violated"),
                      ("TypeCache_dev_half_norace.cfg", "Invariant OwnProgram is violated"),
                      ("TypeCache_dev_half_race.cfg", "Invariant OwnProgram is violated"),
                      ("TypeCache_dev_twoword.cfg", "Invariant OwnProgram is violated")):
        d = vlib.run_tlc(scratch, "TypeCache", cfg, workers=2, timeout=300)
        if not any(want in e for e in d.errors):
            raise vlib.Infra("%s did not produce its counterexample (%s): %s" % (cfg, want, d.errors[:3]))
        devs.append(d)
    return tl + devs


def schedules(scratch, tier, variant):
    """Behaviours of GenSpec for one variant: exhaustive small configurations, simulated larger ones."""
    res, scheds, seen = [], [], set()

    def take(r, src, every=1):
        n = 0
        for k, s in enumerate(r.prints.get("SCHED") or []):
            key = json.dumps(s, sort_keys=True)
            if key in seen:
                continue
            seen.add(key)
            n += 1
            if n % every:
                continue
            s["src"] = src
            scheds.append(s)

    for side in ("enc", "dec"):
        cfg = "TypeCache_gen_%s_%s.cfg" % (side, variant)
        r = vlib.run_tlc(scratch, "TypeCache", cfg, workers=6, timeout=900)
        vlib.require_tlc_ok(r, cfg)
        res.append(r)
        take(r, cfg, every=(8 if tier == "quick" else 1) if side == "dec" else 1)
    sims = [("enc", 2, 2, '{"A", "Q"}', '"Q"'), ("enc", 3, 1, '{"A", "Q"}', '"Q"'), ("dec", 3, 1, '{"A", "B"}', '""'),
            ("enc", 3, 2, '{"A", "B", "Q"}', '"Q"')]
    num = 150 if tier == "quick" else 4000
    for i, (side, procs, mc, fast, q) in enumerate(sims):
        name = "TypeCache_sim%d_%s.cfg" % (i, variant)
        path = os.path.join(scratch.path, name)
        open(path, "w").write(GEN % (", ".join('"g%d"' % k for k in range(1, procs + 1)), fast, q, side, variant, mc))
        r = vlib.run_tlc(scratch, "TypeCache", name, workers=1, timeout=1200, files=[path],
                         mode_args=["-simulate", "num=%d" % num, "-depth", "200", "-seed", str(vlib.seed() + i)])
        if r.errors:
            raise vlib.Infra("TypeCache simulation %s failed: %s" % (name, r.errors[:3]))
        res.append(r)
        take(r, name)

    def hasq(s):
        return any(c["q"] for cs in s["plan"].values() for c in cs)
    # schedules that need the query type's program to be cold can only run first in a process: they get one process each
    cold = [s for s in scheds if hasq(s) and not s["qwarm"]]
    rest = [s for s in scheds if not (hasq(s) and not s["qwarm"])]
    import random
    random.Random(vlib.seed()).shuffle(cold)
    return rest, cold[:(48 if tier == "quick" else 640)], res


RACE_HDR = "WARNING: DATA RACE"


def parse_race_logs(prefix, out, variant_label="race"):
    n = 0
    for p in sorted(glob.glob(prefix + ".*")):
        txt = open(p, errors="replace").read()
        for block in txt.split("==================")[0:]:
            if RACE_HDR not in block:
                continue
            n += 1
            stacks = re.split(r"\n(?=(?:Previous )?(?:[Rr]ead|[Ww]rite|atomic [a-z]+) at |Goroutine \d+ )", block)
            funcs = []
            for st in stacks:
                if not re.match(r"(?:Previous )?(?:[Rr]ead|[Ww]rite|atomic)", st.strip()) and "WARNING" not in st.split("\n")[0]:
                    continue
                lib = None
                for line in st.split("\n"):
                    m = re.match(r"\s+(github\.com/goccy/go-json[^\s(]*(?:\([^)]*\))?[^\s(]*)\(", line)
                    if m:
                        lib = m.group(1).replace("github.com/goccy/go-json/internal/", "").replace("github.com/goccy/go-json", "json")
                        break
                if "at 0x" in st:
                    funcs.append(lib or "<outside the library>")
            funcs = funcs[:2]
            if not any(f != "<outside the library>" for f in funcs):
                raise vlib.Infra("race report without a library frame (a race in the harness?):\n" + block[:1500])
            sig = "race|" + "|".join(sorted(funcs))
            cur = out.sigs.setdefault(sig, dict(count=0, counted=True, examples=[], details=[], fine={}))
            cur["count"] += 1
            cur["fine"]["reports"] = 1     # how often a race is observed depends on the scheduler: extent = presence
            if len(cur["examples"]) < 2:
                cur["examples"].append(dict(part="race-report", report=block.strip()[:2500]))
                cur["details"].append("go build -race reports: " + " / ".join(funcs))
    return n


def merge(out, o):
    for sig, st in o.sigs.items():
        cur = out.sigs.setdefault(sig, dict(count=0, counted=True, examples=[], details=[], fine={}))
        cur["count"] += st["count"]
        for fs, n in (st.get("fine") or {}).items():
            cur["fine"][fs] = cur["fine"].get(fs, 0) + n
        cur["examples"] += st["examples"][:2]
        cur["details"] += st["details"][:2]
    out.evaluations += o.evaluations
    out.nontrivial += o.nontrivial
    for k, v in o.counters.items():
        out.counters[k] = out.counters.get(k, 0) + v
    out.crashes += o.crashes
    out.infra += o.infra
    out.samples += o.samples[:2]


def run(tier, scratch, record=False):
    t0 = time.time()
    tl = spec_checks(scratch, tier)
    families = 1500 if tier == "quick" else 4000
    out = vlib.WorkerOutcome()
    nsched = {}
    race_prefix = os.path.join(scratch.path, "racelog")
    for variant, kw in (("norace", {}), ("race", dict(race=True))):
        binary = gentypes.build(scratch, families, **kw)
        scheds, cold, res = schedules(scratch, tier, variant)
        tl += res
        sp = os.path.join(scratch.path, "schedules-%s.ndjson" % variant)
        with open(sp, "w") as f:
            for s in scheds:
                f.write(json.dumps(s) + "\n")
        nsched[variant] = len(scheds) + len(cold)
        env = {"GORACE": "log_path=%s halt_on_error=0 exitcode=0" % race_prefix}
        job = dict(prop=PROP, tier=tier, seed=vlib.seed(), params=dict(mode="sched", schedules=sp, variant=variant))
        o = vlib.run_workers(scratch, binary, RUNNER, job, shards=16 if tier == "quick" else 32, case_timeout=60,
                             total_timeout=3000 if tier == "thorough" else 900, env=env)
        merge(out, o)
        for k in range(0, len(cold), 64):
            chunk = cold[k:k + 64]
            cp = os.path.join(scratch.path, "schedules-%s-cold%d.ndjson" % (variant, k))
            with open(cp, "w") as f:
                for s in chunk:
                    f.write(json.dumps(s) + "\n")
            job = dict(prop=PROP, tier=tier, seed=vlib.seed(), params=dict(mode="sched", schedules=cp, variant=variant))
            o = vlib.run_workers(scratch, binary, RUNNER, job, shards=len(chunk), case_timeout=60, total_timeout=600, env=env)
            merge(out, o)
        rounds = (48 if variant == "norace" else 16) if tier == "quick" else (800 if variant == "norace" else 120)
        if record:
            rounds *= int(os.environ.get("VERIF_RECORD_MULT", "3"))
        job = dict(prop=PROP, tier=tier, seed=vlib.seed(), params=dict(mode="stress", variant=variant, rounds=rounds))
        o = vlib.run_workers(scratch, binary, RUNNER, job, shards=4 if variant == "race" else 8, case_timeout=200,
                             total_timeout=3000 if tier == "thorough" else 900, env=env)
        merge(out, o)
        out.counters["rounds-" + variant] = rounds
        # part B: simultaneous first use of every cold type
        per_shard = (0 if variant == "norace" else 12) if tier == "quick" else (0 if variant == "norace" else 60)
        job = dict(prop=PROP, tier=tier, seed=vlib.seed(), params=dict(mode="burst", variant=variant, rounds=per_shard))
        o = vlib.run_workers(scratch, binary, RUNNER, job, shards=16, case_timeout=120,
                             total_timeout=3000 if tier == "thorough" else 900, env=env)
        out.counters["bursts-" + variant] = o.counters.get("calls", 0)
        merge(out, o)
    nrace = parse_race_logs(race_prefix, out)
    instep, desync = out.counters.get("in-step-with-model", 0), out.counters.get("desync", 0)
    if instep + desync == 0 or desync > 0.2 * (instep + desync):
        raise vlib.Infra("schedule replay lost the model: %d in step, %d desynchronised (samples: %s)" % (instep, desync, out.samples[:2]))
    prec = dict(families=families, schedules=nsched)
    cov = dict(
        rule="part S: %d (production) + %d (race build) distinct behaviours of TypeCache.tla's GenSpec (exhaustive: 2 goroutines x 1 call "
             "on the encoder side incl. field-query calls and the query type cold/warm, 2 goroutines x 2 calls on the decoder side%s; "
             "simulated: 2x2 and 3x1, 3x2 configurations) replayed at the hook points on cold types; part R: %d + %d rounds (2..64 goroutines, "
             "GOMAXPROCS 1/2/4/16, ~60 operations over 6 cold families + cold heap types + shared values / query / paths); part B: "
             "simultaneous first use of every cold type of the catalogue (%d + %d calls); race reports "
             "collected: %d; non-trivial = distinct schedules + rounds + families" % (
                 nsched["norace"], nsched["race"], ", every 8th" if tier == "quick" else "", out.counters.get("rounds-norace", 0),
                 out.counters.get("rounds-race", 0), out.counters.get("bursts-norace", 0), out.counters.get("bursts-race", 0), nrace),
        exhaustive=False, traces_validated_against_impl=instep + desync, schedules_in_step_with_model=instep, schedules_desynchronised=desync,
        race_reports=nrace, counters={k: v for k, v in sorted(out.counters.items()) if k != "calls"})
    f = vlib.Findings(PROP)
    return vlib.conclude(PROP, tier, "model_checking", t0, out, f, RUNNER, prec, cov, ASSUME, record=record,
                         tlc_results=tl, describe=describe)


def replay(scratch, rp):
    case = rp.get("case") or {}
    if case.get("part") == "race-report":
        print("a race report cannot be replayed deterministically; the recorded report:\n%s\nre-run ./check C10 quick" % case.get("report"))
        return 1
    sig = rp.get("signature", "")
    variant = "race" if "|race|" in sig + "|" else "norace"
    binary = gentypes.build(scratch, 200, race=(variant == "race"))
    job = dict(prop=PROP, tier="quick", seed=vlib.seed(), shard=0, shards=1, resume=0, only=-1, cur_file="",
               params=dict(mode="stress" if "round" in case else "sched", variant=variant, rounds=0, schedules=""), replay=case)
    return vlib.finish_replay(PROP, binary, RUNNER, job, scratch, timeout=300)
