"""C08 - encoding any acyclic value is safe; cyclic values give an error."""
import glob, json, os, time
import vlib

PROP = "C08"
RUNNER = "c08"
ASSUME = [
    "specs/EncVM.tla: frames placed at base + declared extent; under assumption A (slots used < declared extent) and the program "
    "discipline (a frame reads only what it stored) TLC proves, for all interleavings of loads, stores, calls and returns of two programs, "
    "that no load observes a slot written by a returned frame, all accesses are inside the array, frames are disjoint and a return "
    "restores the caller's base; with the deviation ExtentTooSmall it FINDS the clobbered slot",
    "binding: hooks in load/store/loadNPtr of the four interpreters and RuntimeContext.Init/Ptr record every slot access; TLC validates "
    "the recorded traces against EncVMTrace.tla (frames inferred from the frame base; bounds; no load of a slot written by a returned "
    "frame); outputs are compared with encoding/json; cyclic values must yield an error",
]


def describe(sig, st):
    p = sig.split("|")
    if p[0] == "trace":
        return "recorded slot trace breaks rule %s of EncVMTrace.tla" % p[1]
    if p[0] == "cycle":
        return "a value with a cycle through %s: %s" % (p[2] if len(p) > 2 else "?", p[1])
    if p[0] == "shared":
        return "an ACYCLIC value in which a node with a %s member is reached twice %s the cycle-detection depth: %s" % (p[2] if len(p) > 2 else "?", (p[3] if len(p) > 3 else "").replace("-", " "), p[1].replace("-", " "))
    if p[0] == "stack":
        return "a value living in the caller's frame is encoded wrongly by %s once a MarshalJSON callback has grown (moved) the stack: %s" % (p[2] if len(p) > 2 else "?", p[1])
    if p[0] == "crash":
        return "the process dies (%s) while encoding" % p[1]
    return "encoding %s for shape %s (%s)" % (p[1].replace("-", " "), p[2] if len(p) > 2 else "", ", ".join(p[3:]))


def validate_traces(scratch, tdir, out, max_events):
    files = sorted(glob.glob(os.path.join(tdir, "slots-*.ndjson")))
    allp = os.path.join(scratch.path, "slot-trace.ndjson")
    lines = []
    with open(allp, "w") as f:
        for p in files:
            for line in open(p):
                if not line.endswith("\n"):
                    continue
                if len(lines) >= max_events and line.startswith('{"k":"b"'):
                    break
                lines.append(line)
                f.write(line)
    if len(lines) < 1000:
        raise vlib.Infra("only %d slot events were recorded (hooks not compiled in?)" % len(lines))
    res = vlib.run_tlc(scratch, "EncVMTrace", "EncVMTrace.cfg", workers=1, timeout=1500, env={"TRACE_FILE": allp}, keep_raw=True)
    if not res.ok or res.errors or res.postcondition_failed or "TRACE-BADS" not in res.prints:
        raise vlib.Infra("TLC failed on EncVMTrace: %s\n%s" % ("; ".join(res.errors[:3]), res.raw[-1200:]))
    rules = {}
    for idx, rule in res.prints["TRACE-BADS"][0]:
        rules.setdefault(rule, []).append(idx)
    for rule, idxs in sorted(rules.items()):
        i = idxs[0] - 1
        j = i
        while j >= 0 and '"k":"b"' not in lines[j]:
            j -= 1
        cur = out.sigs.setdefault("trace|" + rule, dict(count=0, counted=True, examples=[], details=[], fine={}))
        cur["count"] += len(idxs)
        cur["fine"]["events"] = cur["fine"].get("events", 0) + len(idxs)
        cur["examples"].append(dict(part="trace", rule=rule, event=lines[i].strip(), encoding_started_at_event=j + 1,
                                    preceding=[l.strip() for l in lines[max(j, i - 8):i]]))
        cur["details"].append("TLC: %d recorded event(s) break rule %s (first at event %d)" % (len(idxs), rule, idxs[0]))
    nruns = len([l for l in lines if l.startswith('{"k":"b"') and '"plen":0' not in l])
    return res, len(lines), nruns


def run(tier, scratch, record=False):
    t0 = time.time()
    tl = vlib.tlc_parallel(scratch, [("EncVM", "EncVM_mc.cfg", 8)], timeout=900)
    dev = vlib.run_tlc(scratch, "EncVM", "EncVM_dev.cfg", workers=2, timeout=300)
    if not any("NoStaleLoad is violated" in e for e in dev.errors):
        raise vlib.Infra("EncVM_dev.cfg did not produce the ExtentTooSmall counterexample: %s" % dev.errors[:3])
    binary = vlib.build_harness(scratch)
    tdir = scratch.sub("slots")
    if tier == "quick":
        params = dict(trace_dir=tdir, depths=[0, 1, 2, 3, 30], trace_depth=3, trace_every=3)
        max_events = 120000
    else:
        params = dict(trace_dir=tdir, depths=[0, 1, 2, 3, 5, 30, 300], trace_depth=5, trace_every=1)
        max_events = 1500000
    job = dict(prop=PROP, tier=tier, seed=vlib.seed(), params=params)
    out = vlib.run_workers(scratch, binary, RUNNER, job, case_timeout=120, total_timeout=3300 if tier == "thorough" else 900)
    tres, nev, nruns = validate_traces(scratch, tdir, out, max_events)
    prec = dict(params)
    prec["trace_dir"] = ""
    cov = dict(
        rule="90 recursive / interface-bearing struct shapes (member: self pointer, map[string]interface{}, interface{}, slice of self, "
             "interface + self pointer, pointer slices and maps; 0/1/3/4/7 scalar fields before x 0/1/4 after) and their holders, nesting "
             "depths %s, reached directly / by pointer / inside []interface{} / inside map[string]interface{}, on the four interpreters, "
             "with GC-forcing and stack-growing marshalers inside; 8 kinds of cycles x 4 interpreters; after-failure histories; a value in the "
             "caller's frame (address of a local that nothing else lets escape) through 12 entry points x stack growth 0/40/400 frames in a "
             "callback x released stack recycled or not; slot traces of depths <= %d "
             "validated by TLC; non-trivial = distinct (shape, depth) pairs" % (params["depths"], params["trace_depth"]),
        exhaustive=False, traces_validated_against_impl=nruns, trace_events_validated=nev)
    f = vlib.Findings(PROP)
    return vlib.conclude(PROP, tier, "model_checking", t0, out, f, RUNNER, prec, cov, ASSUME, record=record,
                         tlc_results=tl + [dev, tres], describe=describe)


def replay(scratch, rp):
    case = rp.get("case") or {}
    if case.get("part") == "trace":
        print("replay of a trace-rule violation: re-run ./check C08 quick (traces are re-recorded from the real code)")
        print("recorded event: %s" % case.get("event"))
        return 1
    binary, job = vlib.generic_replay(scratch, rp, RUNNER)
    job["params"] = dict(trace_dir="", depths=[], trace_depth=0, trace_every=1)
    return vlib.finish_replay(PROP, binary, RUNNER, job, scratch)
