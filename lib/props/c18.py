"""C18 - Compact, Indent, HTMLEscape and Valid match encoding/json."""
import os, time
import vlib

PROP = "C18"
RUNNER = "c18"
ASSUME = [
    "reference = Compact/Indent transducers of specs/JsonTransform.tla (TLC checks idempotence, Compact o Indent = Compact, "
    "output validity, no output for invalid texts); encoding/json's Compact/Indent are compared with the transducers on every "
    "call (a disagreement makes the check exit 2)",
    "HTMLEscape is checked for equivalence of the decoded value (encoding/json decoder with UseNumber) and absence of raw < > & U+2028 U+2029",
    "prefix/indent pairs: ('',''), ('',' '), ('','\\t'), ('  ','    '), ('>','--'), ('é','é'); destination empty or pre-filled with 'XY'",
]

ROOT = {
    "dst-prefix-lost": "the destination buffer's previous contents are not preserved",
    "rejects-valid": "a valid text is rejected",
}


def describe(sig, st):
    p = sig.split("|")
    fn = p[0]
    if p[1] == "accepts-invalid":
        import props.c05 as c05
        return "%s accepts an invalid text: %s" % (fn, c05.ROOT.get(p[2], p[2]))
    if p[1].startswith("output-") and fn != "HTMLEscape":
        return "%s appends different bytes than encoding/json (%s; destination %s; first difference produced at %s)" % (fn, p[1], p[2] if len(p) > 2 else "-", p[3] if len(p) > 3 else "end")
    if p[1] == "dst-modified-on-error":
        return "%s returns an error but has already changed the destination buffer (%s)" % (fn, p[2])
    if p[1] == "output-not-json":
        return "HTMLEscape appends something that is not a JSON text for a valid input (empty output: the input was rejected)"
    if p[1] == "raw-special-char":
        return "HTMLEscape output contains a raw <, >, &, U+2028 or U+2029"
    if p[1] == "not-equivalent":
        return "HTMLEscape output is not equivalent to its input (value kinds: %s)" % p[2]
    return "%s: %s" % (fn, ROOT.get(p[1], "|".join(p[1:])))


def run(tier, scratch, record=False):
    t0 = time.time()
    suf = "_quick" if tier == "quick" else ""
    tl = vlib.tlc_parallel(scratch, [("JsonTransform", "JsonTransform_mc%s.cfg" % suf, 8),
                                     ("JsonTransform", "JsonTransform_mc2%s.cfg" % suf, 8)], timeout=1500)
    table, exp = vlib.export_jsontext(scratch, transform=True)
    binary = vlib.build_harness(scratch)
    params = dict(table=table, max_len=4 if tier == "quick" else 5, random=1500 if tier == "quick" else 30000)
    if tier == "quick":
        params["max_len"] = 3
    if record:
        params["random_seeded"] = params["random"] * int(os.environ.get("VERIF_RECORD_MULT", "40"))
    job = dict(prop=PROP, tier=tier, seed=vlib.seed(), params=params)
    out = vlib.run_workers(scratch, binary, RUNNER, job, case_timeout=60, total_timeout=3000 if tier == "thorough" else 600)
    prec = dict(params)
    prec["table"] = "<exported by TLC at run time>"
    cov = dict(
        rule="part A: every byte-class string of length 0..%d (33 classes, one representative byte each), exhaustive; part B: %d "
             "generated valid texts decorated with random white space and HTML-special characters, plus 8 single-byte mutations "
             "each; every string goes through Compact, 6 Indent settings and HTMLEscape with empty and pre-filled destination, and "
             "Valid (29 calls); non-trivial = viable prefix of the reference language (part A) or generated text (part B)" % (params["max_len"], params["random"]),
        exhaustive=True)
    f = vlib.Findings(PROP)
    return vlib.conclude(PROP, tier, "model_checking", t0, out, f, RUNNER, prec, cov, ASSUME, record=record,
                         tlc_results=tl + [exp], extra_cov=dict(traces_validated_against_impl=out.evaluations),
                         describe=describe)


def replay(scratch, rp):
    table, _ = vlib.export_jsontext(scratch, transform=True)
    binary, job = vlib.generic_replay(scratch, rp, RUNNER)
    job["params"] = dict(table=table, max_len=0, random=0)
    return vlib.finish_replay(PROP, binary, RUNNER, job, scratch)
