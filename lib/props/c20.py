"""C20 - JSON Path extraction is a pure, correct function of path and document."""
import json, os, time
import vlib

PROP = "C20"
RUNNER = "c20"
ASSUME = [
    "specs/PathEval.tla: the documented path grammar as a character-level parser, reference evaluation (child, index, wildcard, "
    "quoted names, recursive descent with RFC 9535 meaning, document order) on four documents; TLC enumerates every path string up "
    "to the bound over {$ . [ ] * ' \" 0 1 a b}, checks bracket/quote balance and exports membership and expected results",
    "what is demanded of CreatePath: no panic, and acceptance of every string of the reference language; strings it accepts outside "
    "that language are only checked for purity (history independence); an empty reference selection may be reported as an error",
    "histories: every sequence of the configured length over the four documents plus a truncated, a scalar and a late-failing "
    "document, on one Path object, each call compared with a fresh Path",
]


def describe(sig, st):
    p = sig.split("|")
    if p[0] == "history":
        return "a reused Path gives a different result than a fresh one %s (selector kinds %s)" % (p[1].replace("-", " "), p[2] if len(p) > 2 else "")
    if p[0] == "create":
        return "CreatePath %s (selector kinds %s)" % (p[1], p[2] if len(p) > 2 else "")
    return "%s: %s (selector kinds %s; c child, q quoted, r recursive descent, i index, a wildcard)" % (p[0], p[1].replace("-", " "), p[2] if len(p) > 2 else "")


def run(tier, scratch, record=False):
    t0 = time.time()
    cfg = "PathEval_gen.cfg" if tier == "quick" else "PathEval_gen_thorough.cfg"
    res = vlib.run_tlc(scratch, "PathEval", cfg, workers=8, timeout=2400)
    vlib.require_tlc_ok(res, cfg)
    paths = res.prints.get("PATH") or []
    docs = (res.prints.get("DOCS") or [[]])[0]
    if len(paths) < 1000 or len(docs) < 4:
        raise vlib.Infra("PathEval exported %d paths, %d docs" % (len(paths), len(docs)))
    paths.sort(key=lambda p: (len(p["path"]), p["path"]))
    cp = os.path.join(scratch.path, "patheval.ndjson")
    with open(cp, "w") as f:
        f.write(json.dumps(docs) + "\n")
        for p in paths:
            f.write(json.dumps(p) + "\n")
    binary = vlib.build_harness(scratch)
    params = dict(cases=cp, hist_len=3)
    job = dict(prop=PROP, tier=tier, seed=vlib.seed(), params=params)
    out = vlib.run_workers(scratch, binary, RUNNER, job, case_timeout=120, total_timeout=3300 if tier == "thorough" else 900)
    prec = dict(params)
    prec["cases"] = "<emitted by TLC at run time>"
    nacc = len([p for p in paths if p["accept"]])
    cov = dict(
        rule="%d path strings emitted by TLC (all strings up to the bound; %d in the reference language) -> CreatePath; accepted paths "
             "are evaluated on 4 documents with Extract and Path.Unmarshal against the reference results, and run through all %d-call "
             "histories over 7 documents (3 of them failing) on one Path object; non-trivial = paths CreatePath accepts" % (
                 len(paths), nacc, params["hist_len"]),
        exhaustive=True, traces_validated_against_impl=len(paths))
    f = vlib.Findings(PROP)
    return vlib.conclude(PROP, tier, "model_checking", t0, out, f, RUNNER, prec, cov, ASSUME, record=record,
                         tlc_results=[res], describe=describe)


def replay(scratch, rp):
    binary, job = vlib.generic_replay(scratch, rp, RUNNER)
    job["params"] = dict(cases="/dev/null", hist_len=0)
    return vlib.finish_replay(PROP, binary, RUNNER, job, scratch)
