"""C06 - decoding and utility entry points always return: no panic, crash or hang."""
import os, time
import vlib

PROP = "C06"
RUNNER = "c06"
ASSUME = [
    "inputs are behaviours of specs/JsonText.tla (exhaustive byte-class strings, escape-catalogue string literals with every "
    "single-byte mutation, generated texts with every prefix and a mutation at every position) plus nesting depths around and far "
    "beyond the decoder's limit; StreamDecoder.tla covers the refill protocol (no read without room for the sentinel)",
    "oracle: process survival, no recovered panic, per-case stall detector; a worker death is re-run alone before it counts",
    "hang detection uses a wall-clock bound of 60 s per case",
]


def describe(sig, st):
    p = sig.split("|")
    if p[0] == "crash":
        return "the process dies (%s) in %s" % (p[1], p[2] if len(p) > 2 else "?")
    return "%s panics (%s) on %s input" % (p[0], p[1], p[2] if len(p) > 2 else "")


def run(tier, scratch, record=False):
    t0 = time.time()
    suf = "_quick" if tier == "quick" else ""
    tl = vlib.tlc_parallel(scratch, [("StreamDecoder", "StreamDecoder_mc%s.cfg" % suf, 6),
                                     ("JsonText", "JsonText_mc_struct%s.cfg" % suf, 6)], timeout=1200)
    table, exp = vlib.export_jsontext(scratch)
    binary = vlib.build_harness(scratch)
    if tier == "quick":
        params = dict(table=table, max_len=3, str_items=1, random=120, path_len=4,
                      depths=[9999, 10000, 10001, 100000])
    else:
        params = dict(table=table, max_len=4, str_items=2, random=4000, path_len=6,
                      depths=[1, 100, 9999, 10000, 10001, 20001, 100000, 1000000, 10000000])
    if record:
        params["random_seeded"] = params["random"] * int(os.environ.get("VERIF_RECORD_MULT", "10"))
    job = dict(prop=PROP, tier=tier, seed=vlib.seed(), params=params)
    out = vlib.run_workers(scratch, binary, RUNNER, job, case_timeout=60, total_timeout=3300 if tier == "thorough" else 900,
                           env={"GOMAXPROCS": "2"})
    prec = dict(params)
    prec["table"] = "<exported by TLC at run time>"
    cov = dict(
        rule="part A: every byte-class string of length 0..%d; part S: escape-catalogue literals (up to %d items, 3 frames) with every "
             "single-byte mutation and truncation; part B: %d generated texts with every prefix and one mutation per position; part N: "
             "nesting depths %s in 4 container shapes, closed and unclosed; part P: every path string up to length %d over 13 symbols "
             "(accepted paths are evaluated on 4 documents with Extract/Unmarshal/Get); each input goes to ~150 entry point x "
             "destination combinations (46 destination types); non-trivial = viable prefixes (A), literals (S), texts (B), nestings "
             "(N), accepted paths (P)" % (params["max_len"], params["str_items"], params["random"], params["depths"], params["path_len"]),
        exhaustive=True)
    f = vlib.Findings(PROP)
    return vlib.conclude(PROP, tier, "exploration", t0, out, f, RUNNER, prec, cov, ASSUME, record=record,
                         tlc_results=tl + [exp], describe=describe)


def replay(scratch, rp):
    table, _ = vlib.export_jsontext(scratch)
    binary, job = vlib.generic_replay(scratch, rp, RUNNER)
    job["params"] = dict(table=table, max_len=0, str_items=0, random=0, path_len=0, depths=[])
    return vlib.finish_replay(PROP, binary, RUNNER, job, scratch, timeout=300)
