"""C02 - Unmarshal agrees with encoding/json on every valid document and target."""
import time
import vlib
import props.c01 as base

PROP = "C02"
RUNNER = "c02"
ASSUME = [
    "destination types are the constructions TLC enumerates from specs/GoTypes.tla; documents are encoding/json's encodings of the "
    "generated values and their single-node mutations (24 replacement values incl. range boundaries, unknown / duplicate / case-"
    "changed members, surplus and missing elements); destinations start zeroed or pre-populated",
    "oracle: encoding/json decoding the same document into an identically built destination (error iff error; reflect.DeepEqual on success)",
    "a divergence is reduced by shrinking the document; type, initial state, option and minimal document shape name the finding",
    base.FR_ASSUME,
]


def describe(sig, st):
    p = sig.split("|")
    if p[0] == "crash":
        return "the process dies (%s) while decoding" % p[1]
    if p[0] == "fields":
        return "decoding into a struct follows other field rules than Go's (%s) for programs with %s" % (p[2].replace("-", " "), p[3] if len(p) > 3 else "?")
    if p[0] == "ORACLE":
        return "specification and encoding/json disagree: " + sig
    return "decoding %s for type [%s], %s, %s, minimal document shape %s" % (
        {"different-value": "stores a different value than encoding/json", "error-where-std-succeeds": "returns an error where encoding/json succeeds",
         "success-where-std-fails": "succeeds where encoding/json returns an error"}.get(p[1], p[1]), p[2], p[3], p[4], "|".join(p[5:]))


def run(tier, scratch, record=False):
    t0 = time.time()
    tp, tres, ntypes = base.types_file(scratch, tier)
    binary = vlib.build_harness(scratch)
    params = dict(types=tp, rand_modes=1 if tier == "quick" else 3, max_mutations=60 if tier == "quick" else 400)
    job = dict(prop=PROP, tier=tier, seed=vlib.seed(), params=params)
    out = vlib.run_workers(scratch, binary, RUNNER, job, case_timeout=60, total_timeout=3300 if tier == "thorough" else 900,
                           env={"GODEBUG": "invalidptr=0"})   # see props/c01.py
    fres, nfr = base.field_rules(scratch, tier, binary, "decode", out)
    prec = dict(params)
    prec["types"] = "<emitted by TLC at run time>"
    cov = dict(
        rule="%d destination type constructions emitted by TLC; per type: encoding/json's documents for %d value modes (each into a zeroed "
             "and two pre-populated destinations, with UseNumber / DisallowUnknownFields / Decoder) and up to %d single-node mutations per "
             "document; plus %d field-rule programs emitted by TLC from FieldRules.tla (the reference document decoded into a zero value); "
             "non-trivial = distinct types" % (ntypes, 4 + params["rand_modes"], params["max_mutations"], nfr),
        exhaustive=True, traces_validated_against_impl=ntypes + nfr)
    f = vlib.Findings(PROP)
    return vlib.conclude(PROP, tier, "exploration", t0, out, f, RUNNER, prec, cov, ASSUME, record=record,
                         tlc_results=[tres, fres], describe=describe)


def replay(scratch, rp):
    if "types" in (rp.get("case") or {}) and "members" in rp["case"]:
        binary, job = vlib.generic_replay(scratch, rp, "fr")
        job["params"] = dict(cases="/dev/null")
        return vlib.finish_replay(PROP, binary, "fr", job, scratch)
    binary, job = vlib.generic_replay(scratch, rp, RUNNER)
    job["params"] = dict(types="/dev/null", rand_modes=0, max_mutations=0)
    return vlib.finish_replay(PROP, binary, RUNNER, job, scratch)
