"""C14 - a value is always processed by the program compiled for its own type."""
import glob, json, os, time
import vlib, gentypes

PROP = "C14"
RUNNER = "c14"
ASSUME = [
    "specs/TypeLayout.tla: AnalyzeTypeAddr's inference (lowest / highest listed descriptor, alignment relative to the running minimum, "
    "for every listing order) and the slot arithmetic; TLC proves InTable, Injective, Guarded for all layouts of up to 4 descriptors "
    "(sizes 48/64/112 bytes, 32- and 64-byte placement, listed / pointer-with-element / unlisted) and FINDS the counterexamples of the "
    "deviations Align16, CappedShift, DecUpperOnly (the decoder before fix 4477a51) and NoPlusOne; the design rests on descriptors being "
    ">= 64 bytes apart, which the harness measures on every real binary (min_pitch_bytes)",
    "specs/TypeCache.tla deviation SharedSlot: two types in one slot make a call return another type's program (TLC must find it)",
    "binding: a worker binary with thousands of generated named and unnamed types (14 per family) plus reflect.StructOf/SliceOf/MapOf/"
    "ArrayOf types is built from /repo in three flavours (production, -race, position-independent: heap BELOW the type section); every "
    "type is encoded and decoded cold in a seeded order and compared with encoding/json; every return of CompileToGetCodeSet / "
    "CompileToGetDecoder is recorded by the verif hooks and TLC validates the trace against specs/TypeCacheTrace.tla (guard, index "
    "arithmetic, table bound, program's own type, no two types per slot, no program serving two types)",
]


def describe(sig, st):
    p = sig.split("|")
    if p[0] == "trace":
        return "recorded cache lookups break rule %s of TypeCacheTrace.tla (%s build)" % (p[1], p[2] if len(p) > 2 else "?")
    if p[0] == "crash":
        return "the process dies (%s)" % p[1]
    return "%s of a %s type gives %s (%s build)" % (p[0], p[3] if len(p) > 3 else "?", p[1].replace("-", " "), p[2] if len(p) > 2 else "")


def spec_checks(scratch, tier):
    cfgs = [("TypeLayout", "TypeLayout_mc_quick.cfg" if tier == "quick" else "TypeLayout_mc.cfg", 6), ("TypeLayout", "TypeLayout_mc64.cfg", 4)]
    tl = vlib.tlc_parallel(scratch, cfgs, timeout=1500)
    devs = []
    for cfg, inv in (("TypeLayout_dev_align.cfg", "Injective"), ("TypeLayout_dev_cap.cfg", "Injective"),
                     ("TypeLayout_dev_declow.cfg", "InTable"), ("TypeLayout_dev_plus1.cfg", "InTable")):
        d = vlib.run_tlc(scratch, "TypeLayout", cfg, workers=2, timeout=300)
        if not any(("Invariant %s is violated" % inv) in e for e in d.errors):
            raise vlib.Infra("%s did not produce its counterexample: %s" % (cfg, d.errors[:3]))
        devs.append(d)
    d = vlib.run_tlc(scratch, "TypeCache", "TypeCache_dev_shared_norace.cfg", workers=2, timeout=300)
    if not any("Invariant OwnProgram is violated" in e for e in d.errors):
        raise vlib.Infra("TypeCache_dev_shared_norace.cfg did not produce its counterexample: %s" % d.errors[:3])
    devs.append(d)
    return tl + devs


def validate_traces(scratch, tdir, out):
    files = sorted(glob.glob(os.path.join(tdir, "cache-*.ndjson")))
    allp = os.path.join(scratch.path, "cache-trace.ndjson")
    lines, labels = [], []
    with open(allp, "w") as f:
        for p in files:
            label = os.path.basename(p).split("-")[1]
            for line in open(p):
                f.write(line)
                lines.append(line)
                labels.append(label)
    if len(lines) < 1000:
        raise vlib.Infra("only %d cache events were recorded (hooks not compiled in?)" % len(lines))
    res = vlib.run_tlc(scratch, "TypeCacheTrace", "TypeCacheTrace.cfg", workers=1, timeout=3000, env={"TRACE_FILE": allp}, keep_raw=True)
    if not res.ok or res.errors or res.postcondition_failed or "TRACE-BADS" not in res.prints:
        raise vlib.Infra("TLC failed on TypeCacheTrace: %s\n%s" % ("; ".join(res.errors[:3]), res.raw[-1200:]))
    rules = {}
    for idx, rule in res.prints["TRACE-BADS"][0]:
        rules.setdefault((rule, labels[idx - 1]), []).append(idx)
    for (rule, label), idxs in sorted(rules.items()):
        i = idxs[0] - 1
        cur = out.sigs.setdefault("trace|%s|%s" % (rule, label), dict(count=0, counted=True, examples=[], details=[], fine={}))
        cur["count"] += len(idxs)
        cur["fine"]["events"] = cur["fine"].get("events", 0) + len(idxs)
        cur["examples"].append(dict(part="trace", rule=rule, build=label, event=lines[i].strip(), previous=lines[i - 1].strip()))
        cur["details"].append("TLC: %d recorded lookup(s) break rule %s (first at event %d)" % (len(idxs), rule, idxs[0]))
    return res, len(lines), len(files)


def run(tier, scratch, record=False):
    t0 = time.time()
    tl = spec_checks(scratch, tier)
    families = 1000 if tier == "quick" else 3000
    rounds = 2 if tier == "quick" else 5
    tdir = scratch.sub("cache")
    out = vlib.WorkerOutcome()
    windows = []
    for label, kw in (("production", {}), ("race", dict(race=True)), ("pie", dict(pie=True))):
        binary = gentypes.build(scratch, families, **kw)
        params = dict(trace_dir=tdir, reflect_every=7, warm_every=9, label=label)
        job = dict(prop=PROP, tier=tier, seed=vlib.seed(), params=params)
        o = vlib.run_workers(scratch, binary, RUNNER, job, shards=rounds, case_timeout=120,
                             total_timeout=3000 if tier == "thorough" else 900, env={"GOMAXPROCS": "4"})
        for sig, st in o.sigs.items():
            p = sig.split("|")
            nsig = "|".join(p[:2] + [label] + p[2:])
            cur = out.sigs.setdefault(nsig, dict(count=0, counted=True, examples=[], details=[], fine={}))
            cur["count"] += st["count"]
            for fs, n in (st.get("fine") or {}).items():
                cur["fine"][fs] = cur["fine"].get(fs, 0) + n
            cur["examples"] += st["examples"][:2]
            cur["details"] += st["details"][:2]
        out.evaluations += o.evaluations
        out.nontrivial += o.nontrivial
        for k, v in o.counters.items():
            out.counters[k] = out.counters.get(k, 0) + v
        out.crashes += o.crashes
        out.infra += o.infra
        out.samples += o.samples[:2]
        for w in (o.notes.get("window") or []):
            windows.append(w)
    tres, nev, nfiles = validate_traces(scratch, tdir, out)
    if out.counters.get("zone-below", 0) == 0 or out.counters.get("zone-above", 0) == 0 or out.counters.get("zone-in", 0) == 0:
        raise vlib.Infra("the three zones (descriptor below / inside / above the window) were not all exercised: %s" % out.counters)
    prec = dict(families=families, rounds=rounds, reflect_every=7, warm_every=9)
    cov = dict(
        rule="%d families x 14 generated types (named struct by pointer and by value, named int32, named int with (Un)MarshalJSON, named "
             "slice, named map, embedding struct, []*T, [2]T, map[string]T, pointer to anonymous struct, *[]T, run-time []Row and map[string]Row over a function-local type whose name every family shares) plus 4 reflect-created "
             "types around every 7th, each encoded and decoded cold in a seeded order (every 9th again warm), in 3 build flavours x %d "
             "orders; non-trivial = distinct (type, build, order) uses" % (families, rounds),
        exhaustive=False, traces_validated_against_impl=nfiles, trace_events_validated=nev, windows=windows[:6])
    f = vlib.Findings(PROP)
    return vlib.conclude(PROP, tier, "model_checking", t0, out, f, RUNNER, prec, cov, ASSUME, record=record,
                         tlc_results=tl + [tres], describe=describe)


def replay(scratch, rp):
    print("C14 replays are whole-process: the effect depends on every type of the binary.  Re-running the quick tier.")
    return run("quick", scratch)
