"""C19 - field queries project exactly the selected fields."""
import json, os, time
import vlib

PROP = "C19"
RUNNER = "c19"
ASSUME = [
    "specs/FieldQuery.tla: queries as selector-path sets over a struct tree reaching a pointer, a value struct, a slice, a map and an "
    "interface; Project is the reference (same sub-query through all five); TLC checks idempotence of Project, the cache state machine "
    "(results depend on the query only; the stored field tree is never changed) and that the named deviation InPlaceFilter is found",
    "every history runs on fresh reflect.StructOf types (cold per-type caches); encoding/json's unfiltered document is the third voice",
]


def describe(sig, st):
    p = sig.split("|")
    return "MarshalContext with a field query: %s (%s)" % (" ".join(p[2:]).replace("-", " "), {"single": "already on a fresh type",
            "history-dependent": "only after earlier queries on the same type", "history-step": "in a history"}.get(p[1], p[1]))


def run(tier, scratch, record=False):
    t0 = time.time()
    cfg = "FieldQuery_mc.cfg" if tier == "quick" else "FieldQuery_mc_thorough.cfg"
    res = vlib.run_tlc(scratch, "FieldQuery", cfg, workers=8, timeout=1200)
    vlib.require_tlc_ok(res, cfg)
    dev = vlib.run_tlc(scratch, "FieldQuery", "FieldQuery_dev.cfg", workers=2, timeout=300)
    if not any("ResultDependsOnQueryOnly is violated" in e for e in dev.errors):
        raise vlib.Infra("FieldQuery_dev.cfg did not produce the InPlaceFilter counterexample: %s" % dev.errors[:3])
    qs = res.prints.get("QUERY") or []
    plain = (res.prints.get("PLAIN") or [[]])[0]
    if len(qs) < 100 or len(plain) != 2:
        raise vlib.Infra("FieldQuery exported %d queries" % len(qs))
    qs.sort(key=lambda q: (len(q["paths"]), q["query"]))
    cp = os.path.join(scratch.path, "fieldquery.ndjson")
    with open(cp, "w") as f:
        f.write(json.dumps(plain) + "\n")
        for q in qs:
            f.write(json.dumps(q) + "\n")
    binary = vlib.build_harness(scratch)
    params = dict(cases=cp, hist_max_paths=2, hist_every=1)
    job = dict(prop=PROP, tier=tier, seed=vlib.seed(), params=params)
    out = vlib.run_workers(scratch, binary, RUNNER, job, case_timeout=120, total_timeout=3300 if tier == "thorough" else 900)
    prec = dict(params)
    prec["cases"] = "<emitted by TLC at run time>"
    cov = dict(
        rule="%d queries emitted by TLC (every set of up to %s of 18 selector paths, incl. non-existent names), each on a fresh type with two "
             "values via MarshalContext and EncodeContext and re-built from its own QueryString; histories [q1, q2, unfiltered, q1, q2 on "
             "the second value] on one fresh type for %s ordered pair of queries with <= 2 paths that share a member or use a sub-query "
             "(all pairs of single-path queries); non-trivial = distinct queries" % (len(qs), "2" if tier == "quick" else "3",
                                                                                    "every"),
        exhaustive=True, traces_validated_against_impl=len(qs))
    f = vlib.Findings(PROP)
    return vlib.conclude(PROP, tier, "model_checking", t0, out, f, RUNNER, prec, cov, ASSUME, record=record,
                         tlc_results=[res, dev], describe=describe)


def replay(scratch, rp):
    res = vlib.run_tlc(scratch, "FieldQuery", "FieldQuery_mc_thorough.cfg", workers=8, timeout=1200)
    vlib.require_tlc_ok(res, "FieldQuery")
    cp = os.path.join(scratch.path, "fieldquery.ndjson")
    with open(cp, "w") as f:
        f.write(json.dumps(res.prints["PLAIN"][0]) + "\n")
        for q in res.prints["QUERY"]:
            f.write(json.dumps(q) + "\n")
    binary, job = vlib.generic_replay(scratch, rp, RUNNER)
    job["params"] = dict(cases=cp, hist_max_paths=0, hist_every=1)
    return vlib.finish_replay(PROP, binary, RUNNER, job, scratch)
