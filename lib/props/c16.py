"""C16 - integer text conversion is exact; out-of-range input is an error."""
import json, os, time
import vlib

PROP = "C16"
RUNNER = "c16"
ASSUME = [
    "decoding verdicts come from specs/IntCodec.tla (digit-sequence arithmetic; bounds derived by doubling; TLC checks "
    "monotonicity, round trip and sharpness of every bound); math/big re-derives every verdict in the harness (disagreement = exit 2)",
    "the encoder sweep (all 8-bit values, all 16-bit values in the thorough tier, neighbourhoods of 2^k, 10^k and j*100^p) uses "
    "strconv as oracle and is outside the TLA+ model",
    "int/uint/uintptr are 64-bit on this platform and share the 64-bit cases",
]


def describe(sig, st):
    p = sig.split("|")
    if p[0] == "enc":
        return "Marshal prints a wrong decimal text (%s)" % "|".join(p[1:])
    if p[1] == "accepts-unfit":
        return "decoding into %s (%s position) accepts a literal that %s, without error" % (p[2], p[3], {
            "bare-minus": "is a bare minus sign", "leading-zero": "has a leading zero", "fraction": "has a fraction",
            "exponent": "has an exponent", "plus-sign": "starts with '+'", "negative-into-unsigned": "is negative",
            "bound-plus-one": "is the bound plus one (wraps around)", "more-digits-than-bound": "has more digits than the type's bound",
            "beyond-bound-same-digits": "lies beyond the bound"}.get(p[4], p[4]))
    if p[1] == "rejects-in-range":
        return "decoding into %s (%s position) rejects an in-range literal (%s)" % (p[2], p[3], p[4])
    if p[1] == "wrong-value":
        return "decoding into %s (%s position) stores a different value (%s)" % (p[2], p[3], p[4])
    return sig


def run(tier, scratch, record=False):
    t0 = time.time()
    gen = "IntCodec_gen_%s.cfg" % tier
    res = vlib.tlc_parallel(scratch, [("IntCodec", "IntCodec_mc.cfg", 4), ("IntCodec", gen, 8)], timeout=1500)
    cases = res[1].prints.get("CASE") or []
    if len(cases) < 1000:
        raise vlib.Infra("IntCodec produced only %d cases" % len(cases))
    cp = os.path.join(scratch.path, "intcodec-cases.ndjson")
    with open(cp, "w") as f:
        for c in cases:
            f.write(json.dumps(c) + "\n")
    binary = vlib.build_harness(scratch)
    params = dict(cases=cp, enc_width=64 if tier == "quick" else 4096, full16=(tier != "quick"))
    job = dict(prop=PROP, tier=tier, seed=vlib.seed(), params=params)
    out = vlib.run_workers(scratch, binary, RUNNER, job, case_timeout=60, total_timeout=3000 if tier == "thorough" else 600)
    prec = dict(params)
    prec["cases"] = "<emitted by TLC at run time>"
    cov = dict(
        rule="decoding: %d (kind, literal) cases emitted by TLC from IntCodec.tla (every literal within the configured width of "
             "each bound of 8 kinds, 1..25-digit literals, leading zeros, bare minus, plus sign, fraction, exponent), each in 7 "
             "positions (plain, pointer, slice element, map key, ,string member, Decoder stream, struct field) and for the aliases "
             "int/uint/uintptr; non-trivial = cases whose class is not plain in-range; encoding: exhaustive 8-bit%s, neighbourhoods "
             "of width %d around every 2^k and 10^k and the j*100^p family, 6 positions each" % (
                 len(cases), " and 16-bit" if params["full16"] else "", params["enc_width"]),
        exhaustive=True, traces_validated_against_impl=len(cases))
    f = vlib.Findings(PROP)
    return vlib.conclude(PROP, tier, "model_checking", t0, out, f, RUNNER, prec, cov, ASSUME, record=record,
                         tlc_results=res, describe=describe)


def replay(scratch, rp):
    binary, job = vlib.generic_replay(scratch, rp, RUNNER)
    job["params"] = dict(cases="/dev/null", enc_width=0, full16=False)
    return vlib.finish_replay(PROP, binary, RUNNER, job, scratch)
