"""C15 - object keys select struct fields exactly as Go's JSON rules prescribe."""
import json, os, time
import vlib

PROP = "C15"
RUNNER = "c15"
ASSUME = [
    "specs/KeyLookup.tla: reference Select (exact match, then first case-folded match) and the bitmap matcher as an "
    "implementation-shaped model; TLC checks that the matcher refines the reference on every eligible name set and key (and "
    "that the original raw-length early-match test does NOT: configuration KeyLookup_dev must produce its counterexample)",
    "encoding/json is the yardstick the property names: the TLC-emitted expectation is cross-checked against it (disagreement = exit 2) "
    "and it is the oracle for the larger name/key space and for embedded-struct conflicts",
]


def describe(sig, st):
    p = sig.split("|")
    if p[0] == "embed":
        return "embedded structs: %s for shape %s" % (p[1], p[2] if len(p) > 2 else "")
    return "%s decoding: %s (minimal case %s)" % (p[2] if len(p) > 2 else "", {
        "wrong-field": "the key's value goes to a different field than encoding/json chooses",
        "missed-field": "the key's value is dropped although encoding/json assigns it to a field",
        "spurious-field": "the key's value is assigned to a field although encoding/json ignores the key",
        "error": "an error is returned for a key encoding/json accepts"}.get(p[1], p[1]), " ".join(p[3:]))


def run(tier, scratch, record=False):
    t0 = time.time()
    res = vlib.tlc_parallel(scratch, [("KeyLookup", "KeyLookup_mc.cfg", 8), ("KeyLookup", "KeyLookup_gen.cfg", 4)], timeout=1200)
    # the named deviation must be FOUND by TLC (otherwise the model no longer represents the matcher's early-match test)
    dev = vlib.run_tlc(scratch, "KeyLookup", "KeyLookup_dev.cfg", workers=2, timeout=300)
    if not any("Refines is violated" in e for e in dev.errors):
        raise vlib.Infra("KeyLookup_dev.cfg did not produce the RawLenEarlyMatch counterexample: %s" % dev.errors[:3])
    cases = res[1].prints.get("CASE") or []
    if len(cases) < 1000:
        raise vlib.Infra("KeyLookup produced only %d cases" % len(cases))
    cp = os.path.join(scratch.path, "keylookup-cases.ndjson")
    with open(cp, "w") as f:
        for c in cases:
            f.write(json.dumps(c) + "\n")
    binary = vlib.build_harness(scratch)
    params = dict(cases=cp, name_len=2, max_set=2 if tier == "quick" else 3, key_len=2 if tier == "quick" else 3)
    job = dict(prop=PROP, tier=tier, seed=vlib.seed(), params=params)
    out = vlib.run_workers(scratch, binary, RUNNER, job, case_timeout=120, total_timeout=3300 if tier == "thorough" else 900)
    prec = dict(params)
    prec["cases"] = "<emitted by TLC at run time>"
    cov = dict(
        rule="part T: %d (field names, key items, expected field) cases emitted by TLC, each with 6 filler counts (1..8, 9..16, >16 "
             "field regimes) x buffer / stream / one-byte stream; part G: name sets of up to %d names of length <= 2 over a 13-symbol "
             "alphabet (case pairs, digits, underscore, HTML-special, multi-byte and special-fold letters) plus >64-byte names, keys up "
             "to length %d in raw / fully / partly escaped spelling; part E: ~1000 embedded-struct shapes (value/pointer embedding, "
             "tag/no-tag/'-'/unexported conflicts at depth <= 3), encoded and decoded; non-trivial = distinct name sets / shapes" % (
                 len(cases), params["max_set"], params["key_len"]),
        exhaustive=True, traces_validated_against_impl=len(cases))
    f = vlib.Findings(PROP)
    return vlib.conclude(PROP, tier, "model_checking", t0, out, f, RUNNER, prec, cov, ASSUME, record=record,
                         tlc_results=res, describe=describe)


def replay(scratch, rp):
    binary, job = vlib.generic_replay(scratch, rp, RUNNER)
    job["params"] = dict(cases="/dev/null", name_len=0, max_set=0, key_len=0)
    return vlib.finish_replay(PROP, binary, RUNNER, job, scratch)
