"""C13 - all encoder variants and options describe the same document."""
import vlib
import props.c01 as base

PROP = "C13"
ASSUME = [
    "relations R1..R6 are evaluated on go-json alone (consistency between its own entry points); encoding/json.Indent is the "
    "reference implementation of Indent in R1, and R6 is only demanded where encoding/json itself satisfies it",
    "types and values as in C01 (constructions emitted by TLC from specs/GoTypes.tla; memory-unsafe families excluded)",
]


def describe(sig, st):
    p = sig.split("|")
    rel = {"R1": "MarshalIndent(v,p,i) = Indent(Marshal(v),p,i)", "R2": "Colorize = plain once markers are removed",
           "R3": "UnorderedMap only permutes map members", "R4": "DisableHTMLEscape only changes the spelling of < > &",
           "R5": "Encoder.Encode / MarshalNoEscape / MarshalContext / Debug = Marshal", "R6": "top level = behind a pointer = inside interface{}"}
    k = p[1].split(":")[0]
    return "relation %s (%s) is broken: %s, minimal type [%s] with %s values" % (k, rel.get(k, "?"), p[1], p[2] if len(p) > 2 else "", p[3] if len(p) > 3 else "")


def run(tier, scratch, record=False):
    return base.run_typed(PROP, "C13", tier, scratch, record, "model_checking",
                          "%(ntypes)d type constructions emitted by TLC x %(nmodes)d value modes x 6 relations (R1: 5 prefix/indent pairs; R2: 3 colour "
                          "schemes x indent on/off; R3 UnorderedMap; R4 DisableHTMLEscape; R5: 7 entry points; R6: pointer and interface reach); "
                          "non-trivial = distinct (type, mode) pairs", ASSUME, describe)


def replay(scratch, rp):
    return base.typed_replay(scratch, rp, "C13")
