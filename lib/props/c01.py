"""C01 - Marshal agrees with encoding/json for every value of every supported type."""
import json, os, time
import vlib

PROP = "C01"
RUNNER = "c01"
ASSUME = [
    "types are the constructions TLC enumerates from specs/GoTypes.tla (30 leaves; quick: up to 2 of 20 constructor steps; thorough: every "
    "construction of up to 2 of all 50 steps); values come from four deterministic modes (zero, empty, typical, boundary) plus seeded random modes",
    "oracle: encoding/json on the same value (same error/no-error, same bytes after canonicalising \\b, \\f and zero-padded exponents)",
    "a divergence is minimised structurally; the minimal construction names the finding, the original cases are its extent",
]


def types_file(scratch, tier, res=None, names=False):
    # both tiers start from the quick configuration (2 of 20 constructor steps); the thorough tier adds EVERY two-step construction.
    # Three-step constructions were dropped: they reach shapes (double pointers and one-element arrays deep inside containers) on
    # which the library's results depend on stale memory, so that two runs of the same check disagree.
    cfg = "GoTypes_gen_quick.cfg"
    r = vlib.run_tlc(scratch, "GoTypes", cfg, workers=8, timeout=900)
    vlib.require_tlc_ok(r, cfg)
    types = r.prints.get("TYPE") or []
    # the member matrix: every leaf, directly or behind a pointer, with every tag option x sibling position
    rm = vlib.run_tlc(scratch, "GoTypes", "GoTypes_gen_matrix.cfg", workers=4, timeout=600)
    vlib.require_tlc_ok(rm, "GoTypes_gen_matrix.cfg")
    seen0 = {json.dumps(t, sort_keys=True) for t in types}
    for t in rm.prints.get("TYPE") or []:
        if json.dumps(t, sort_keys=True) not in seen0:
            types.append(t)
    r.generated += rm.generated
    r.distinct += rm.distinct
    if names:
        # member NAMES that HTML escaping respells or that are multi-byte (C01, C13): the four program copies per type carry the
        # names pre-rendered.  Opt-in so that the catalogues of the decoding checks stay as recorded.
        rn = vlib.run_tlc(scratch, "GoTypes", "GoTypes_gen_names.cfg", workers=4, timeout=600)
        vlib.require_tlc_ok(rn, "GoTypes_gen_names.cfg")
        seenn = {json.dumps(t, sort_keys=True) for t in types}
        extra = [t for t in (rn.prints.get("TYPE") or []) if json.dumps(t, sort_keys=True) not in seenn
                 and any(s.startswith("struct-named:") or s == "map_p" for s in t["steps"])]
        if len(extra) < 50:
            raise vlib.Infra("GoTypes_gen_names.cfg produced only %d named-member types" % len(extra))
        types += extra
        r.generated += rn.generated
        r.distinct += rn.distinct
    if tier == "thorough":
        # plus every two-step construction with the full set of struct steps
        r2 = vlib.run_tlc(scratch, "GoTypes", "GoTypes_gen_full2.cfg", workers=8, timeout=900)
        vlib.require_tlc_ok(r2, "GoTypes_gen_full2.cfg")
        seen = {json.dumps(t, sort_keys=True) for t in types}
        for t in r2.prints.get("TYPE") or []:
            if json.dumps(t, sort_keys=True) not in seen:
                types.append(t)
        r.generated += r2.generated
        r.distinct += r2.distinct
    if os.environ.get("VERIF_ONLY_NAMES") == "1":   # debugging aid: the named-member types (and the bare leaves) alone
        types = [t for t in types if len(t["steps"]) == 0 or any(s.startswith("struct-named:") or s == "map_p" for s in t["steps"])]
    elif len(types) < 1000:
        raise vlib.Infra("GoTypes produced only %d types" % len(types))
    types.sort(key=lambda t: (len(t["steps"]), t["leaf"], t["steps"]))
    p = os.path.join(scratch.path, "gotypes.ndjson")
    with open(p, "w") as f:
        for t in types:
            f.write(json.dumps(t) + "\n")
    return p, r, len(types)


def field_rules(scratch, tier, binary, side, out):
    """Programs of specs/FieldRules.tla (three struct types, embedding, colliding names, hidden fields) with the member list the
    Go rules prescribe; the harness realises them with reflect.StructOf.  `side` selects which divergences count for the caller
    ("encode" for C01, "decode" for C02); ORACLE signatures (specification vs encoding/json) always count."""
    cfg = "FieldRules_mc.cfg"   # ~70 000 programs x 3 reflect-built types; the 3-field T1 variant (10x) exhausts memory: types are never freed
    r = vlib.run_tlc(scratch, "FieldRules", cfg, workers=8, timeout=1500)
    vlib.require_tlc_ok(r, cfg)
    seen, progs = set(), []
    for pr in r.prints.get("PROGRAM") or []:
        # types that T1 cannot reach do not matter: keep one representative
        reach, todo = {1}, [1]
        while todo:
            k = todo.pop()
            for f in pr["types"][k - 1]:
                if f["kind"] == "embed" and f["ref"] not in reach:
                    reach.add(f["ref"])
                    todo.append(f["ref"])
        key = json.dumps([pr["types"][k - 1] if k in reach else None for k in (1, 2, 3)], sort_keys=True)
        if key in seen:
            continue
        seen.add(key)
        progs.append(pr)
    if len(progs) < 1000:
        raise vlib.Infra("FieldRules produced only %d programs" % len(progs))
    progs.sort(key=lambda pr: json.dumps(pr["types"], sort_keys=True))
    fp = os.path.join(scratch.path, "fieldrules.ndjson")
    with open(fp, "w") as f:
        for pr in progs:
            f.write(json.dumps(pr) + "\n")
    job = dict(prop="C01", tier=tier, seed=vlib.seed(), params=dict(cases=fp))
    o = vlib.run_workers(scratch, binary, "fr", job, case_timeout=60, total_timeout=1500)
    for sig, st in o.sigs.items():
        p = sig.split("|")
        if p[0] == "fields" and p[1] != side:
            continue
        cur = out.sigs.setdefault(sig, dict(count=0, counted=True, examples=[], details=[], fine={}))
        cur["count"] += st["count"]
        for fs, n in (st.get("fine") or {}).items():
            cur["fine"][fs] = cur["fine"].get(fs, 0) + n
        cur["examples"] += st["examples"][:2]
        cur["details"] += st["details"][:2]
    out.evaluations += o.evaluations
    out.nontrivial += o.nontrivial
    out.counters["calls"] = out.counters.get("calls", 0) + o.counters.get("calls", 0)
    out.crashes += o.crashes
    out.infra += o.infra
    return r, len(progs)


def float_text(scratch, tier, binary, out):
    """Numbers of specs/FloatText.tla (shortest digit strings x decimal exponents) with the text encoding/json must print."""
    cfg = "FloatText_gen.cfg" if tier == "quick" else "FloatText_gen_thorough.cfg"
    r = vlib.run_tlc(scratch, "FloatText", cfg, workers=4, timeout=1500)
    vlib.require_tlc_ok(r, cfg)
    cases = r.prints.get("FLOAT") or []
    if len(cases) < 1000:
        raise vlib.Infra("FloatText produced only %d numbers" % len(cases))
    cases.sort(key=lambda c: (len(c["digits"]), c["digits"], c["x"]))
    fp = os.path.join(scratch.path, "floattext.ndjson")
    with open(fp, "w") as f:
        for c in cases:
            f.write(json.dumps(c) + "\n")
    job = dict(prop="C01", tier=tier, seed=vlib.seed(), params=dict(cases=fp))
    o = vlib.run_workers(scratch, binary, "ft", job, case_timeout=60, total_timeout=1500)
    for sig, st in o.sigs.items():
        cur = out.sigs.setdefault(sig, dict(count=0, counted=True, examples=[], details=[], fine={}))
        cur["count"] += st["count"]
        for fs, n in (st.get("fine") or {}).items():
            cur["fine"][fs] = cur["fine"].get(fs, 0) + n
        cur["examples"] += st["examples"][:2]
        cur["details"] += st["details"][:2]
    out.evaluations += o.evaluations
    out.nontrivial += o.nontrivial
    out.counters["calls"] = out.counters.get("calls", 0) + o.counters.get("calls", 0)
    out.crashes += o.crashes
    out.infra += o.infra
    return r, len(cases)


FT_ASSUME = ("specs/FloatText.tla: the text of a finite float as a function of its shortest decimal digits and exponent (plain layout for "
             "-6 <= X < 21, exponent layout otherwise, two exponent digits except below 1e-6 ... 1e-9); TLC exports every number of up to "
             "2/3 digits x exponents -12..24 / -45..39 with its text; the harness parses it, confirms it is the shortest representation, "
             "encodes it as float64 / float32 / pointer / omitempty / ,string / named / interface / map member and decodes it back")


FR_ASSUME = ("specs/FieldRules.tla: which struct fields are members of the JSON object (breadth-first promotion through embedded structs by "
             "value and by pointer, tag renaming, hidden fields, shallowest-wins, exactly-one-tagged-wins, otherwise dropped); TLC checks "
             "NamesUnique, DirectWins, HiddenStayHidden for every program of three struct types within the bounds and exports program + "
             "member list; the harness builds the types with reflect.StructOf and compares Marshal / Unmarshal with encoding/json; the "
             "specification's member list is a third voice (a disagreement with encoding/json is exit 2)")


WITNESSES = {
    "array1-of-pointer-shaped": dict(type=dict(leaf="int", steps=["ptr", "array1"]), mode="typical", variant="marshal|direct"),
    "top-level-pointer-to-pointer-to-pointer-shaped": dict(type=dict(leaf="int", steps=["map_s", "ptr"]), mode="typical", variant="marshal|ptr"),
    "nested-pointer-to-pointer": dict(type=dict(leaf="Time", steps=["ptr", "ptr", "slice"]), mode="typical", variant="marshal|direct"),
}


def describe(sig, st):
    p = sig.split("|")
    if p[0] == "unsafe-family":
        return "encoding is memory-unsafe (crash, panic or garbage depending on stale memory) for the type family %s; the family is excluded from the differential comparison" % p[1]
    if p[0] == "crash":
        return "the process dies (%s) while encoding %s" % (p[1], "|".join(p[2:]))
    if p[0] == "float":
        return "a float %s differently from encoding/json (%s, %s layout)" % ("is printed" if p[1] == "encode" else "text is decoded", p[2], p[3] if len(p) > 3 else "")
    if p[0] == "fields":
        return "the members of a struct's JSON object differ from Go's field rules (%s: %s) for programs with %s" % (p[1], p[2].replace("-", " "), p[3] if len(p) > 3 else "?")
    return "Marshal %s for the minimal type [%s] with %s values" % (
        {"different-document": "produces a different document than encoding/json",
         "error-where-std-succeeds": "returns an error where encoding/json succeeds",
         "success-where-std-fails": "succeeds where encoding/json returns an error"}.get(p[1], p[1]), p[2], p[3] if len(p) > 3 else "")


def witnesses(scratch, binary, out):
    """Each excluded family keeps one witness that is run alone: if it still misbehaves the family's known finding is
    reported; if it behaves, nothing is reported (the defect was repaired) -- the family stays excluded either way."""
    for fam, case in WITNESSES.items():
        job = dict(prop=PROP, tier="quick", seed=1, shard=0, shards=1, resume=0, only=-1, cur_file="",
                   params=dict(types="/dev/null", rand_modes=0), replay=case)
        bad = False
        for _ in range(3):
            rc, so, se, to = vlib.run_single(binary, RUNNER, job, scratch, timeout=60, tag="witness")
            o = vlib.WorkerOutcome()
            vlib._parse_lines(so, o)
            if rc != 0 or to or o.sigs:
                bad = True
                break
        if bad:
            out.add_sig("unsafe-family|" + fam, False, case, "witness misbehaves when run alone (exit %s)" % rc)


def run_typed(prop, check, tier, scratch, record, level, rule, assume, describe_fn, extra=None, with_table=False, with_witnesses=False,
              extra_tlc=()):
    t0 = time.time()
    tp, tres, ntypes = types_file(scratch, tier, names=check in ("C01", "C13", "C03"))
    tl = [tres] + list(extra_tlc)
    binary = vlib.build_harness(scratch)
    params = dict(types=tp, rand_modes=2 if tier == "quick" else 3, check=check)
    if with_table:
        table, exp = vlib.export_jsontext(scratch)
        params["table"] = table
        tl.append(exp)
    if extra:
        params.update(extra)
    job = dict(prop=prop, tier=tier, seed=vlib.seed(), params=params)
    # invalidptr=0: the collector does not abort the worker when it meets a non-pointer in a pointer slot.  The library leaves such
    # values behind for some type families; the death comes many cases later and cannot be attributed to an input, and these four
    # properties are about documents and values (memory safety is C07 / C08, whose workers keep the check on).
    out = vlib.run_workers(scratch, binary, RUNNER, job, case_timeout=60, total_timeout=3300 if tier == "thorough" else 900,
                           env={"GODEBUG": "invalidptr=0"})
    if with_witnesses:
        witnesses(scratch, binary, out)
    nfr = 0
    if check == "C04":
        # the float texts of FloatText.tla, encoded and decoded back (a round trip of every number)
        ftres, nfr = float_text(scratch, tier, binary, out)
        tl.append(ftres)
    if check == "C01":
        fres, nfr = field_rules(scratch, tier, binary, "encode", out)
        tl.append(fres)
        ftres, nft = float_text(scratch, tier, binary, out)
        tl.append(ftres)
        nfr += nft
    prec = dict(params)
    prec["types"] = "<emitted by TLC at run time>"
    if with_table:
        prec["table"] = "<exported by TLC at run time>"
    cov = dict(rule=rule % dict(ntypes=ntypes, nmodes=4 + params["rand_modes"] + len(params.get("modes") or [])),
               exhaustive=True, traces_validated_against_impl=ntypes + nfr)
    if nfr and check == "C04":
        cov["rule"] += "; plus %d float texts emitted by TLC from FloatText.tla (both signs), encoded in 5 positions and decoded back" % nfr
    elif nfr:
        cov["rule"] += ("; plus %d field-rule programs (FieldRules.tla; filled and nil-pointer values) and float texts (FloatText.tla; both "
                        "signs, 5 positions, decoded back)" % nfr)
    f = vlib.Findings(prop)
    return vlib.conclude(prop, tier, level, t0, out, f, RUNNER, prec, cov, assume, record=record,
                         tlc_results=tl, describe=describe_fn)


def run(tier, scratch, record=False):
    return run_typed(PROP, "C01", tier, scratch, record, "exploration",
                     "%(ntypes)d type constructions emitted by TLC x %(nmodes)d value modes x 7 variants (Marshal / MarshalIndent / Encoder "
                     "without HTML escaping; value reached directly, behind a pointer, inside interface{}); non-trivial = distinct "
                     "(type, mode) pairs; the three memory-unsafe type families are excluded and represented by isolated witnesses",
                     ASSUME + [FR_ASSUME, FT_ASSUME], describe, with_witnesses=True)


def typed_replay(scratch, rp, check, with_table=False):
    binary, job = vlib.generic_replay(scratch, rp, RUNNER)
    job["params"] = dict(types="/dev/null", rand_modes=0, check=check)
    if with_table:
        table, _ = vlib.export_jsontext(scratch)
        job["params"]["table"] = table
    return vlib.finish_replay(rp["property"], binary, RUNNER, job, scratch)


def replay(scratch, rp):
    if "types" in (rp.get("case") or {}) and "members" in rp["case"]:
        binary, job = vlib.generic_replay(scratch, rp, "fr")
        job["params"] = dict(cases="/dev/null")
        return vlib.finish_replay(rp["property"], binary, "fr", job, scratch)
    if "digits" in (rp.get("case") or {}):
        binary, job = vlib.generic_replay(scratch, rp, "ft")
        job["params"] = dict(cases="/dev/null")
        return vlib.finish_replay(rp["property"], binary, "ft", job, scratch)
    return typed_replay(scratch, rp, "C01")
