"""C04 - Marshal followed by Unmarshal reproduces the value."""
import vlib
import props.c01 as base

PROP = "C04"
ASSUME = [
    "round-trippable constructions only: no marshaler leaves, RawMessage, omitempty, shadowed embedding, interface{} only over "
    "string/float64/bool; and only values that encoding/json itself round-trips (its own Marshal+Unmarshal is deeply equal)",
    "oracle: reflect.DeepEqual between the original and the value decoded from go-json's own output (Unmarshal, Decoder stream of two "
    "documents, MarshalIndent)",
]


def describe(sig, st):
    p = sig.split("|")
    if p[0] == "float":
        return base.describe(sig, st)
    return "round trip fails (%s) for the minimal type [%s] with %s values" % (p[1], p[2] if len(p) > 2 else "", p[3] if len(p) > 3 else "")


def run(tier, scratch, record=False):
    return base.run_typed(PROP, "C04", tier, scratch, record, "exploration",
                          "%(ntypes)d type constructions emitted by TLC (round-trippable ones are exercised) x %(nmodes)d value modes x 3 paths (Marshal->"
                          "Unmarshal, Encoder->Decoder with two documents, MarshalIndent->Unmarshal); non-trivial = distinct (type, mode) pairs",
                          ASSUME + [base.FT_ASSUME], describe)


def replay(scratch, rp):
    if "digits" in (rp.get("case") or {}):
        return base.replay(scratch, rp)
    return base.typed_replay(scratch, rp, "C04")
