"""C09 - stream decoding equals buffer decoding for every chunking of the input."""
import glob, json, os, time
import vlib

PROP = "C09"
RUNNER = "c09"
ASSUME = [
    "yardsticks as the property states them: Unmarshal on the same bytes (value, verdict), encoding/json's Decoder for More / "
    "InputOffset / Token sequences",
    "window protocol: specs/StreamDecoder.tla model-checked by TLC (conservation, sentinel, bounds, growth, refinement to the "
    "index arithmetic of StreamIdx.tla); recorded hook traces of real runs are validated by TLC against StreamTrace.tla",
    "a divergence that a multi-cut schedule shares with one of its single cuts is attributed to the single cut",
    "specs/TokenStream.tla labels every transition of the JsonText automaton with the token it emits (delimiters, scalar kinds; TLC checks "
    "well-matchedness and that the open delimiters are the automaton's stack on every string up to length 6); the labels travel with the "
    "exported table and the harness checks encoding/json's token kinds against them for every document (a disagreement is exit 2)",
]


def describe(sig, st):
    p = sig.split("|")
    if p[0] == "whole":
        return "Decoder (whole-string reader) and Unmarshal disagree (%s, destination group %s, document %s)" % (p[2], p[1], p[3] if len(p) > 3 else "")
    if p[0] in ("chunk", "boundary"):
        return "Decoder result changes when the input is cut %s (%s; destination group %s; document %s)" % (p[3], p[2], p[1], p[4])
    if p[0] == "long":
        return "Decoder differs from Unmarshal when a %s meets the internal refill boundary (%s, %s)" % (p[3], p[2], p[1])
    if p[0] == "fault":
        return "a reader failure is turned into a decoded value (%s)" % "|".join(p[1:])
    if p[0] == "multi":
        return "concatenated documents: %s differs from encoding/json's Decoder (%s reader, %s)" % (p[1], p[2], p[3] if len(p) > 3 else "")
    if p[0] == "token":
        return "Token() sequence differs from encoding/json's (%s)" % "|".join(p[1:])
    if p[0] == "trace":
        return "recorded stream-window trace breaks rule %s of StreamTrace.tla" % p[1]
    return sig


def validate_traces(scratch, tdir, out):
    """Concatenate the sampled hook traces and have TLC check them against StreamTrace.tla."""
    files = sorted(glob.glob(os.path.join(tdir, "trace-*.ndjson")))
    allp = os.path.join(scratch.path, "stream-trace.ndjson")
    nev = nruns = 0
    lines = []
    with open(allp, "w") as f:
        for p in files:
            for line in open(p):
                if not line.endswith("\n"):
                    continue  # torn last line of a killed worker
                lines.append(line)
                f.write(line)
                nev += 1
                if '"begin"' in line:
                    nruns += 1
    if nev == 0:
        raise vlib.Infra("no stream trace events were recorded (hooks not compiled in?)")
    res = vlib.run_tlc(scratch, "StreamTrace", "StreamTrace.cfg", workers=1, timeout=900,
                       env={"TRACE_FILE": allp}, keep_raw=True)
    bad_rule = None
    if not res.ok or res.errors or res.postcondition_failed or "TRACE-BADS" not in res.prints:
        raise vlib.Infra("TLC failed on StreamTrace: %s\n%s" % ("; ".join(res.errors[:3]), res.raw[-1200:]))
    bads = res.prints["TRACE-BADS"][0]
    rules = {}
    for idx, rule in bads:
        rules.setdefault(rule, []).append(idx)
    for rule, idxs in sorted(rules.items()):
        bad_rule = rule if bad_rule is None else bad_rule + "," + rule
        i = idxs[0] - 1
        j = i
        while j >= 0 and '"begin"' not in lines[j]:
            j -= 1
        ctx = [l.strip() for l in lines[max(j, i - 6):i + 1]]
        cur = out.sigs.setdefault("trace|" + rule, dict(count=0, counted=True, examples=[], details=[], fine={}))
        cur["count"] += len(idxs)
        cur["fine"]["events"] = cur["fine"].get("events", 0) + len(idxs)
        cur["examples"].append(dict(part="trace", rule=rule, event=lines[i].strip(), context=ctx))
        cur["details"].append("TLC: %d recorded event(s) break rule %s of StreamTrace.tla (first at event %d)" % (len(idxs), rule, idxs[0]))
    return res, nev, nruns, bad_rule


def run(tier, scratch, record=False):
    t0 = time.time()
    suf = "_quick" if tier == "quick" else ""
    tl = vlib.tlc_parallel(scratch, [("StreamDecoder", "StreamDecoder_mc%s.cfg" % suf, 8), ("TokenStream", "TokenStream_mc.cfg", 4)], timeout=1200)
    table, exp = vlib.export_jsontext(scratch)
    binary = vlib.build_harness(scratch)
    tdir = scratch.sub("traces")
    params = dict(table=table, trace_dir=tdir, trace_every=3 if tier == "quick" else 2, level=1 if tier == "quick" else 2)
    job = dict(prop=PROP, tier=tier, seed=vlib.seed(), params=params)
    out = vlib.run_workers(scratch, binary, RUNNER, job, case_timeout=60, total_timeout=3000 if tier == "thorough" else 600)
    tres, nev, nruns, bad = validate_traces(scratch, tdir, out)
    prec = dict(params)
    prec["table"] = "<exported by TLC at run time>"
    prec["trace_dir"] = ""
    cov = dict(
        rule="part D: ~330 (destination, valid document) pairs from a token catalogue (literals, numbers, strings over the 19-item "
             "escape catalogue and interacting pairs, arrays, objects, 16 destination types), each with every single cut, every pair "
             "of cuts for short documents, piece sizes 1..17, EOF with or after the last piece, and every padding that puts a "
             "document byte on the 511 (thorough: and 1023) byte refill boundary; part L: each catalogue item inside a long string "
             "with each of its bytes on the boundary; part I: invalid documents (fixed list + every single-byte mutation of short "
             "valid ones) under every single cut and one-byte reader; part F: reader failure at every byte; part M: concatenated "
             "documents (More/InputOffset/values vs encoding/json); part T: Token sequences; non-trivial = distinct (destination, "
             "document) pairs of parts D, L, M",
        exhaustive=True,
        traces_validated_against_impl=nruns,
        trace_events_validated=nev,
        trace_rule_broken=bad or "none",
    )
    f = vlib.Findings(PROP)
    return vlib.conclude(PROP, tier, "model_checking", t0, out, f, RUNNER, prec, cov, ASSUME, record=record,
                         tlc_results=tl + [exp, tres], describe=describe)


def replay(scratch, rp):
    case = rp.get("case") or {}
    if case.get("part") == "trace":
        print("replay of a trace-rule violation: re-run ./check C09 quick (the trace is re-recorded from the real code)")
        print("recorded event: %s" % case.get("event"))
        return 1
    table, _ = vlib.export_jsontext(scratch)
    binary, job = vlib.generic_replay(scratch, rp, RUNNER)
    job["params"] = dict(table=table, trace_dir="", trace_every=0, level=1)
    return vlib.finish_replay(PROP, binary, RUNNER, job, scratch)
