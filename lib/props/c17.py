"""C17 - string escaping and unescaping are faithful for every byte sequence."""
import json, os, time
import vlib

PROP = "C17"
RUNNER = "c17"
ASSUME = [
    "specs/StrCodec.tla defines tokens, their meaning (ill-formed bytes -> U+FFFD), the must-escape sets and the scalar sequence "
    "of every string-literal item sequence (surrogate pairing); TLC checks Meaning(Enc(s)) = Repl(s) and absence of forbidden raw "
    "items for the four flag combinations on all token sequences up to the bound",
    "encoding/json's decoder plays 'any conforming parser'; its encoder is the third voice when normalisation is on; "
    "utf8.DecodeRune is the trusted tokeniser for arbitrary byte strings",
]


def describe(sig, st):
    p = sig.split("|")
    if p[0] == "enc":
        return "encoder (%s): %s%s" % (p[2] if len(p) > 2 else "", p[1], (" at token " + p[3]) if len(p) > 3 else "")
    if p[0] == "dec":
        return "decoder, context %s: %s a literal made of %s compared with encoding/json" % (p[2], {"accepts": "accepts", "rejects": "rejects", "wrong-string": "yields a different string for"}.get(p[1], p[1]), p[3] if len(p) > 3 else "")
    return sig


def run(tier, scratch, record=False):
    t0 = time.time()
    cfg = "StrCodec_mc_quick.cfg" if tier == "quick" else "StrCodec_mc.cfg"
    res = vlib.tlc_parallel(scratch, [("StrCodec", cfg, 8)], timeout=1200)
    try:
        spec = dict(tokens=res[0].prints["EXPORT-TOKENS"][0], dec=res[0].prints["EXPORT-DEC"][0])
    except (KeyError, IndexError):
        raise vlib.Infra("StrCodec exported nothing")
    sp = os.path.join(scratch.path, "strcodec.json")
    json.dump(spec, open(sp, "w"))
    binary = vlib.build_harness(scratch)
    if tier == "quick":
        params = dict(spec=sp, enc_len=3, byte_len=2, pads=[0, 1, 6, 7, 8, 9, 15, 16, 17, 24])
    else:
        params = dict(spec=sp, enc_len=4, byte_len=3, pads=list(range(0, 18)) + [23, 24, 31, 32, 40])
    job = dict(prop=PROP, tier=tier, seed=vlib.seed(), params=params)
    out = vlib.run_workers(scratch, binary, RUNNER, job, case_timeout=120, total_timeout=3300 if tier == "thorough" else 600)
    prec = dict(params)
    prec["spec"] = "<exported by TLC at run time>"
    cov = dict(
        rule="encoder: every sequence of up to %d tokens (21 token classes; all concrete variants for sequences of <= 2) preceded by "
             "%d paddings (offset relative to the 8-byte scanning window), with and without suffix, 4 flag combinations, 5 contexts "
             "(value, map key, struct field, slice element, interface); every byte string of length <= %d; decoder: the %d item "
             "sequences exported by TLC (19-item catalogue incl. surrogates) in 10 contexts (string, interface, map key, skipped struct "
             "key, ,string payload, UnmarshalText, Token, stream, one-byte stream, slice) with paddings, plus raw ill-formed bytes; "
             "non-trivial = distinct token / item sequences" % (params["enc_len"], len(params["pads"]), params["byte_len"], len(spec["dec"])),
        exhaustive=True, traces_validated_against_impl=len(spec["dec"]))
    f = vlib.Findings(PROP)
    return vlib.conclude(PROP, tier, "model_checking", t0, out, f, RUNNER, prec, cov, ASSUME, record=record,
                         tlc_results=res, describe=describe)


def replay(scratch, rp):
    res = vlib.run_tlc(scratch, "StrCodec", "StrCodec_mc_quick.cfg", workers=4, timeout=300)
    vlib.require_tlc_ok(res, "StrCodec")
    sp = os.path.join(scratch.path, "strcodec.json")
    json.dump(dict(tokens=res.prints["EXPORT-TOKENS"][0], dec=res.prints["EXPORT-DEC"][0]), open(sp, "w"))
    binary, job = vlib.generic_replay(scratch, rp, RUNNER)
    job["params"] = dict(spec=sp, enc_len=0, byte_len=0, pads=[])
    return vlib.finish_replay(PROP, binary, RUNNER, job, scratch)
