"""C11 - results depend only on the arguments, never on earlier calls (also drives C12)."""
import json, os, re, time
import vlib

PROP = "C11"
RUNNER = "c11"
ASSUME = [
    "specs/CallHistory.tla: pooled contexts whose fields carry the id of the call that last wrote them; TLC checks NoStaleRead and "
    "ResultsStable for all histories of the abstract kinds with the full reset set, and FINDS the stale read / clobbered result when "
    "a field is dropped from the reset set or a pooled buffer is returned (named deviations); the same spec instantiated with the "
    "harness's concrete call alphabet enumerates the histories that are replayed",
    "a history runs in one process with the garbage collector off and GOMAXPROCS=1 (sync.Pool then returns the context released by the "
    "previous call); two GC cycles between histories empty the pools; the cold oracle is the same call made first in a fresh process",
]
GEN_CFG = """SPECIFICATION Spec
CONSTANTS
  Kinds = %s
  MaxCalls = %d
  MaxCtx = %d
  ResetSet = {"buf", "flags", "payload", "indent", "seen", "refs"}
  Deviations = {}
INVARIANTS NoStaleRead Export
CHECK_DEADLOCK FALSE
"""


def kinds():
    src = open(os.path.join(vlib.HARNESS, "c11", "c11.go")).read()
    body = src[src.index("var Kinds = map[string]func() result{"):]
    return sorted(set(re.findall(r'^\t"([a-z0-9:\-]+)":\s+func\(\) result', body, re.M)))


def describe(sig, st):
    p = sig.split("|")
    if p[0] == "c12":
        return "aliasing: %s (%s)" % (p[1].replace("-", " "), " ".join(p[2:]))
    return "a %s call gives a different result %s than when it is the first call of a process" % (p[1], p[2].replace("-", " "))


def histories(scratch, tier, ks):
    kset = "{" + ",".join('"%s"' % k for k in ks) + "}"
    gen = os.path.join(scratch.path, "CallHistory_gen.cfg")
    open(gen, "w").write(GEN_CFG % (kset, 2, 1))
    sim = os.path.join(scratch.path, "CallHistory_sim.cfg")
    depth = 60 if tier == "quick" else 300
    open(sim, "w").write(GEN_CFG % (kset, depth, 3))
    r1 = vlib.run_tlc(scratch, "CallHistory", "CallHistory_gen.cfg", workers=8, timeout=900, files=[gen])
    vlib.require_tlc_ok(r1, "CallHistory_gen")
    hs = [h for h in (r1.prints.get("HISTORY") or []) if len(h) >= 1]
    num = 40 if tier == "quick" else 400
    r2 = vlib.run_tlc(scratch, "CallHistory", "CallHistory_sim.cfg", workers=1, timeout=1200, files=[sim],
                      mode_args=["-simulate", "num=%d" % num, "-depth", str(depth), "-seed", str(vlib.seed())])
    if r2.errors:
        raise vlib.Infra("CallHistory simulation failed: %s" % r2.errors[:3])
    longs = [h for h in (r2.prints.get("HISTORY") or []) if len(h) == depth]
    if not longs:
        raise vlib.Infra("CallHistory simulation produced no complete history")
    return hs + longs, [r1, r2], len(longs)


def cold_table(scratch, binary, ks):
    table = {}
    for k in ks:
        job = dict(prop=PROP, tier="quick", seed=1, shard=0, shards=1, resume=0, only=-1, cur_file="", params=dict(mode="cold", kind=k))
        rc, so, se, to = vlib.run_single(binary, RUNNER, job, scratch, timeout=120, env={"GOMAXPROCS": "1"}, tag="cold")
        o = vlib.WorkerOutcome()
        vlib._parse_lines(so, o)
        notes = o.notes.get("cold") or []
        if rc != 0 or to or not notes:
            raise vlib.Infra("cold run of %s failed (rc=%s): %s" % (k, rc, se[-400:]))
        table[k] = notes[0]["digest"]
    return table


def run_mode(prop, mode, tier, scratch, record, level):
    t0 = time.time()
    tl = vlib.tlc_parallel(scratch, [("CallHistory", "CallHistory_mc.cfg", 4)], timeout=600)
    for cfg, inv in (("CallHistory_dev_reset.cfg", "NoStaleRead"), ("CallHistory_dev_payload.cfg", "NoStaleRead"),
                     ("CallHistory_dev_alias.cfg", "ResultsStable")):
        dev = vlib.run_tlc(scratch, "CallHistory", cfg, workers=2, timeout=300)
        if not any(inv + " is violated" in e for e in dev.errors):
            raise vlib.Infra("%s did not produce its counterexample: %s" % (cfg, dev.errors[:3]))
        tl.append(dev)
    ks = kinds()
    if len(ks) < 40:
        raise vlib.Infra("only %d call kinds found" % len(ks))
    hs, tres, nlong = histories(scratch, tier, ks)
    hp = os.path.join(scratch.path, "histories.ndjson")
    with open(hp, "w") as f:
        for h in hs:
            f.write(json.dumps(h) + "\n")
    binary = vlib.build_harness(scratch)
    cold = cold_table(scratch, binary, ks)
    params = dict(mode=mode, histories=hp, cold=cold)
    job = dict(prop=prop, tier=tier, seed=vlib.seed(), params=params)
    out = vlib.run_workers(scratch, binary, RUNNER, job, case_timeout=120, total_timeout=3300 if tier == "thorough" else 900,
                           env={"GOMAXPROCS": "1"})
    prec = dict(mode=mode, histories="<emitted by TLC at run time>", cold="<cold table computed at run time: %d kinds>" % len(cold))
    cov = dict(
        rule="%d call kinds (every public entry point x option set, failing kinds: marshaler error/panic/bad output, unsupported, NaN, "
             "cycle, syntax/type/range/unmarshaler/unknown-field/reader errors; persistent Encoder, Decoder, Path and FieldQuery "
             "handles); histories: all %d of length <= 2 (TLC, exhaustive) and %d simulated histories of length %d (TLC -simulate, "
             "seeded); every call compared with the cold table%s; non-trivial = histories with at least two calls" % (
                 len(ks), len(hs) - nlong, nlong, len(hs[-1]),
                 "; C12: every returned slice and decoded value snapshotted, inputs and returned slices overwritten, all snapshots "
                 "re-checked after every later call" if mode == "c12" else ""),
        exhaustive=False, traces_validated_against_impl=len(hs), cold_kinds=len(cold))
    f = vlib.Findings(prop)
    return vlib.conclude(prop, tier, level, t0, out, f, RUNNER, prec, cov, ASSUME, record=record,
                         tlc_results=tl + tres, describe=describe)


def run(tier, scratch, record=False):
    return run_mode(PROP, "c11", tier, scratch, record, "model_checking")


def replay_mode(scratch, rp, mode):
    binary, job = vlib.generic_replay(scratch, rp, RUNNER)
    cold = cold_table(scratch, binary, kinds())
    job["params"] = dict(mode=mode, histories="/dev/null", cold=cold)
    return vlib.finish_replay(rp["property"], binary, RUNNER, job, scratch, env={"GOMAXPROCS": "1"})


def replay(scratch, rp):
    return replay_mode(scratch, rp, "c11")
