"""C05 - decoding accepts exactly the RFC 8259 language."""
import json, os, time
import vlib

PROP = "C05"
RUNNER = "c05"
ASSUME = [
    "the reference language is specs/JsonText.tla; TLC checks it against its own declarative grammar on every string "
    "up to the configured length over four reduced alphabets, and the harness checks it against encoding/json.Valid on "
    "every enumerated string (a disagreement makes the check exit 2)",
    "one representative byte per byte class in the exhaustive part; other bytes of a class are drawn at random in part B",
    "typed destinations are only checked in the accepts-invalid direction",
]


def tlc_phase(tier, scratch):
    suf = "_quick" if tier == "quick" else ""
    runs = [("JsonText", "JsonText_mc_%s%s.cfg" % (c, suf), 4) for c in ("struct", "num", "str", "lit")]
    return vlib.tlc_parallel(scratch, runs, timeout=1200)


def params_for(tier, table):
    if tier == "quick":
        return dict(table=table, max_len=4, random=1500, parts="ASB", str_items=2)
    return dict(table=table, max_len=5, random=40000, parts="ASB", str_items=3)


ROOT = {
    "NUM,bad": "the number grammar is not enforced: a malformed number (leading zero, bare '-', '1.', '-.5', '1e', stray sign...) is accepted",
    "NUM,NUL": "a NUL byte after a (partial) number is taken as end of input; following bytes are ignored",
    "NUM,EOF": "an incomplete number ('-', '1.', '1e', '1e+') at end of input is accepted",
    "LIT,wrong": "a literal is accepted from its first letter(s) without checking the remaining letters",
    "LIT,EOF": "a truncated literal (tru, fals, nul) is accepted at end of input",
    "U,nonhex": "a \\u escape with non-hex digits is accepted",
    "U,EOF": "a truncated \\u escape is accepted",
    "S,ctl": "a raw control character (or NUL) inside a string is accepted",
    "SE,bad": "an unknown escape sequence is accepted",
    "AFT,NUL": "bytes after an embedded NUL that follows the value are ignored (the NUL sentinel is taken as end of input)",
    "AFT,bad": "garbage after a complete value is accepted",
    "V,bad": "a byte that cannot start a value is accepted where a value is expected",
    "A0,bad": "a byte that cannot start an array element is accepted after '['",
    "K0,bad": "a byte other than '\"' or '}' is accepted after '{'",
    "K,bad": "a byte other than '\"' is accepted where an object key is expected",
    "CL,bad": "a byte other than ':' is accepted after an object key",
}


def describe(sig, st):
    parts = sig.split("|")
    if parts[-1] == "rejects-valid":
        return "%s rejects a valid text that encoding/json accepts (a number whose exponent is out of float64 range)" % "|".join(parts[:-1])
    root = parts[-1]
    direction = parts[-2]
    fam = "|".join(parts[:-2])
    if direction == "panic":
        return "%s panics (%s)" % (fam, root)
    return "%s: %s" % (fam, ROOT.get(root, "accepts a text the reference rejects at " + root))


def run(tier, scratch, record=False):
    t0 = time.time()
    tl = tlc_phase(tier, scratch)
    table, exp = vlib.export_jsontext(scratch)
    binary = vlib.build_harness(scratch)
    params = params_for(tier, table)
    if record:
        # widen the seeded part so that rare root-cause signatures are recorded too
        params["random_seeded"] = params["random"] * int(os.environ.get("VERIF_RECORD_MULT", "40"))
    job = dict(prop=PROP, tier=tier, seed=vlib.seed(), params=params)
    out = vlib.run_workers(scratch, binary, RUNNER, job, case_timeout=30, total_timeout=3000 if tier == "thorough" else 600)
    params_rec = dict(params)
    params_rec["table"] = "<exported by TLC at run time>"
    cov = dict(
        rule="part A: every string of byte classes (33 classes, one representative byte each) of length 0..%d, exhaustive; "
             "part S: string literals of up to %d items from a 19-item catalogue (simple escapes, \\u escapes of every class incl. "
             "surrogates and pairs, multi-byte UTF-8) as value, object key and array element, each with every single-byte substitution "
             "(11 bytes), deletion and truncation; part B: %d automaton-generated valid texts, each with every single-byte deletion and a random insertion and "
             "substitution at every position; a part-A string is non-trivial when the reference does not reject before its "
             "last byte (viable prefix); each string is offered to %s" % (params["max_len"], params["str_items"], params["random"], "Valid and to Unmarshal/Decode with 21 destinations"),
        exhaustive=True,
        traces_validated_against_impl=0,
    )
    cov["traces_validated_against_impl"] = None  # filled below
    status = None
    f = vlib.Findings(PROP)
    # every enumerated string is a behaviour of the specification replayed into the code
    res = vlib.conclude(PROP, tier, "model_checking", t0, out, f, RUNNER, params_rec, cov, ASSUME, record=record,
                        tlc_results=tl + [exp], extra_cov=dict(traces_validated_against_impl=out.evaluations),
                        describe=describe)
    return res


def replay(scratch, rp):
    table, _ = vlib.export_jsontext(scratch)
    binary, job = vlib.generic_replay(scratch, rp, RUNNER)
    job["params"] = dict(table=table, max_len=0, random=0, parts="")
    return vlib.finish_replay(PROP, binary, RUNNER, job, scratch)
