"""C03 - every successful encode is exactly one well-formed JSON text."""
import vlib
import props.c01 as base

PROP = "C03"
ASSUME = [
    "monitor: the JsonText automaton exported by TLC (model-checked against its declarative grammar) decides well-formedness of every "
    "byte sequence returned with err == nil; encoding/json.Valid is a third voice",
    "unrepresentable values: NaN, +Inf, -Inf in every float position, 20 json.Number payloads, 28 scripted marshaler outputs (valid and "
    "invalid texts); encoding/json's refusal defines 'cannot be represented'",
    "types as in C01 (constructions emitted by TLC from specs/GoTypes.tla; memory-unsafe families excluded)",
]


def describe(sig, st):
    p = sig.split("|")
    return "a successful encode %s; minimal type [%s], values %s" % (
        {"success-for-unrepresentable": "returns output for a value JSON cannot represent",
         "success-for-bad-marshaler-output": "passes ill-formed marshaler output through",
         "invalid-utf8-output": "returns invalid UTF-8"}.get(p[1], "returns an ill-formed text (" + p[1] + ")"),
        p[2] if len(p) > 2 else "", p[3] if len(p) > 3 else "")


def run(tier, scratch, record=False):
    modes = ["nan", "inf", "neginf"] + ["badnum:%d" % i for i in range(20)] + ["script:%d" % i for i in range(28)]
    suf = "_quick" if tier == "quick" else ""
    tl = vlib.tlc_parallel(scratch, [("JsonText", "JsonText_mc_struct%s.cfg" % suf, 4), ("JsonText", "JsonText_mc_num%s.cfg" % suf, 4)], timeout=1200)
    return base.run_typed(PROP, "C03", tier, scratch, record, "model_checking",
                          "%(ntypes)d type constructions emitted by TLC x %(nmodes)d value modes (incl. NaN/Inf, 20 json.Number payloads and 28 scripted "
                          "marshaler outputs where the leaf allows) x 7 entry point / option sets (Marshal, MarshalIndent, no-HTML-escape + no-"
                          "normalisation, UnorderedMap + indent, Encoder with indent, MarshalContext, MarshalNoEscape); every output returned "
                          "with err == nil is run through the TLC-exported recogniser; non-trivial = distinct (type, mode) pairs",
                          ASSUME, describe, extra=dict(modes=modes), with_table=True, extra_tlc=tl)


def replay(scratch, rp):
    return base.typed_replay(scratch, rp, "C03", with_table=True)
