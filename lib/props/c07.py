"""C07 - decoding touches only the destination: no stray reads or writes."""
import json, os, time
import vlib

PROP = "C07"
RUNNER = "c07"
ASSUME = [
    "specs/MemLayout.tla: destination fields between guard regions as a byte map; the decoder model's stores (field-sized stores, "
    "array elements and element-sized tail reset) stay inside the fields the document names (TLC: WritesInsideAddressed, "
    "GuardsUntouched, ArrayFullyDefined for every layout of up to 2 fields of 18 kinds x 6 document actions); the deviation "
    "PointerSizedZeroFill (the code before fix f4cd737) must be FOUND by TLC",
    "binding: each (layout, document) pair is realised with reflect.StructOf (3 Go types per kind, element sizes 1..64), canary-filled, "
    "decoded with Unmarshal, Decoder and a truncated document; bytes outside the addressed set must not change; encoding/json "
    "defines the result inside it; every header must be walkable; a second pass runs a sample in a -d=checkptr build; "
    "the garbage collector runs every 300 cases over everything decoded",
]


def describe(sig, st):
    p = sig.split("|")
    return "decoding %s (%s)" % (p[1].replace("-", " "), ", ".join(p[2:]))


def run(tier, scratch, record=False):
    t0 = time.time()
    res = vlib.run_tlc(scratch, "MemLayout", "MemLayout_mc.cfg", workers=8, timeout=900)
    vlib.require_tlc_ok(res, "MemLayout_mc")
    dev = vlib.run_tlc(scratch, "MemLayout", "MemLayout_dev.cfg", workers=2, timeout=300)
    if not any("WritesInsideAddressed is violated" in e for e in dev.errors):
        raise vlib.Infra("MemLayout_dev.cfg did not produce the PointerSizedZeroFill counterexample: %s" % dev.errors[:3])
    for cfg in ("MemLayout_dev_tnull.cfg", "MemLayout_dev_qwide.cfg"):
        d2 = vlib.run_tlc(scratch, "MemLayout", cfg, workers=2, timeout=300)
        if not any("WritesInsideAddressed is violated" in e for e in d2.errors):
            raise vlib.Infra("%s did not produce its counterexample: %s" % (cfg, d2.errors[:3]))
    cases = res.prints.get("CASE") or []
    if len(cases) < 1000:
        raise vlib.Infra("MemLayout exported %d cases" % len(cases))
    cases.sort(key=lambda c: (len(c["layout"]), c["layout"], c["doc"]))
    cp = os.path.join(scratch.path, "memlayout.ndjson")
    with open(cp, "w") as f:
        for c in cases:
            f.write(json.dumps(c) + "\n")
    binary = vlib.build_harness(scratch)
    params = dict(cases=cp, every=1)
    job = dict(prop=PROP, tier=tier, seed=vlib.seed(), params=params)
    out = vlib.run_workers(scratch, binary, RUNNER, job, case_timeout=120, total_timeout=3300 if tier == "thorough" else 900,
                           env={"GOGC": "20"})
    # second pass: pointer-arithmetic checking enabled
    cbin = vlib.build_harness(scratch, gcflags="all=-d=checkptr", name="vharness-checkptr")
    job2 = dict(prop=PROP, tier=tier, seed=vlib.seed(), params=dict(cases=cp, every=7 if tier == "quick" else 1))
    out2 = vlib.run_workers(scratch, cbin, RUNNER, job2, case_timeout=120, total_timeout=3300 if tier == "thorough" else 900)
    for c in out2.crashes:
        out.crashes.append(c)
    out.infra += out2.infra
    for sig, st in out2.sigs.items():
        cur = out.sigs.setdefault(sig, dict(count=0, counted=True, examples=[], details=[], fine={}))
        for fs, n in (st.get("fine") or {}).items():
            cur["fine"].setdefault(fs, n)
        cur["count"] = max(cur["count"], st["count"])
        if not cur["examples"]:
            cur["examples"], cur["details"] = st["examples"], st["details"]
    out.counters["calls"] = out.counters.get("calls", 0) + out2.counters.get("calls", 0)
    prec = dict(params)
    prec["cases"] = "<emitted by TLC at run time>"
    cov = dict(
        rule="%d (layout, document) pairs emitted by TLC (layouts of 1..2 fields from 18 kinds incl. arrays with element sizes "
             "1,2,3,4,5,8,12,16,24,64; per field: absent / null / short / exact / long / wrong kind) x 3 Go realisations x {Unmarshal, "
             "Decoder, truncated document}; plus a checkptr-build pass over %s; plus two-call histories (part earlier-destination: 4 slice types "
             "with reference elements, first call valid / truncated / cut after each element / bad separator, both entry points: the second "
             "call's destination B must not change or share anything reachable from the first call's destination A); non-trivial = distinct pairs" % (
                 len(cases), "every 7th pair" if tier == "quick" else "all pairs"),
        exhaustive=True, traces_validated_against_impl=len(cases), checkptr_calls=out2.counters.get("calls", 0))
    f = vlib.Findings(PROP)
    return vlib.conclude(PROP, tier, "exploration", t0, out, f, RUNNER, prec, cov, ASSUME, record=record,
                         tlc_results=[res, dev], describe=describe)


def replay(scratch, rp):
    binary, job = vlib.generic_replay(scratch, rp, RUNNER)
    job["params"] = dict(cases="/dev/null", every=1)
    return vlib.finish_replay(PROP, binary, RUNNER, job, scratch)
