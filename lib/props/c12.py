"""C12 - no aliasing between caller data and library buffers."""
import props.c11 as base

PROP = "C12"


def run(tier, scratch, record=False):
    return base.run_mode(PROP, "c12", tier, scratch, record, "model_checking")


def replay(scratch, rp):
    return base.replay_mode(scratch, rp, "c12")
