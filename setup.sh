#!/bin/sh
# Offline setup: warm the Go build cache for the harness (nothing is fetched).
set -e
cd "$(dirname "$0")"
export GOFLAGS=-mod=mod GOPROXY=off GOSUMDB=off GOTOOLCHAIN=local
mkdir -p evidence
( cd harness && cp -f /repo/go.sum . 2>/dev/null || true; go build -tags verif -o /dev/null ./cmd/vharness )
command -v tlc >/dev/null
echo "setup ok"
