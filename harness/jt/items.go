package jt

// StringItems is the catalogue of JSON string-literal items used by the string-focused parts of
// C05, C09 and C17 (the abstract classes are those of specs/StrCodec.tla): plain ASCII, every simple
// escape, \u escapes of every class (NUL, control, ASCII, Latin-1, BMP, U+2028, high and low surrogate,
// surrogate pair in both hex cases) and raw multi-byte UTF-8 of each length.
const bu = "\\" + "u" // backslash-u, spelled so that no tool ever decodes it

var StringItems = []struct {
	Name string
	Text string
}{
	{"plain", "a"},
	{"esc-n", "\\n"},
	{"esc-q", "\\\""},
	{"esc-bs", "\\\\"},
	{"esc-sl", "\\/"},
	{"esc-b", "\\b"},
	{"u-ascii", bu + "0041"},
	{"u-quote", bu + "0022"},
	{"u-bs", bu + "005c"},
	{"u-latin", bu + "00e9"},
	{"u-nul", bu + "0000"},
	{"u-ctl", bu + "001f"},
	{"u-2028", bu + "2028"},
	{"u-bmp", bu + "fffd"},
	{"u-high", bu + "d83d"},
	{"u-low", bu + "de0a"},
	{"u-pair", bu + "d83d" + bu + "de0a"},
	{"u-pair-upper", bu + "D834" + bu + "DD1E"},
	{"mb2", "\xc3\xa9"},
	{"mb3", "\xe2\x82\xac"},
	{"mb4", "\xf0\x9f\x98\x80"},
}

// EachItemString calls fn with every concatenation of up to maxItems catalogue items (without quotes).
func EachItemString(maxItems int, fn func(names []string, body string)) {
	var rec func(names []string, body string)
	rec = func(names []string, body string) {
		fn(names, body)
		if len(names) == maxItems {
			return
		}
		for _, it := range StringItems {
			rec(append(append([]string(nil), names...), it.Name), body+it.Text)
		}
	}
	rec(nil, "")
}

// MutationBytes are the replacement bytes tried at every position of a string literal.
var MutationBytes = []byte{'Z', 'g', '"', '\\', ' ', 0x01, 0x00, 'u', '0', 'D', 0x80}
