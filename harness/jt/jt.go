// Package jt runs the JsonText automaton exported by TLC (specs/JsonText.tla).
// It contains no JSON grammar: transitions come from the TLC-evaluated table,
// only the (unbounded) stack discipline of ApplyOp is re-implemented here.
package jt

import (
	"encoding/json"
	"fmt"
	"os"
	"sort"
)

type row struct {
	M   string `json:"m"`
	T   string `json:"t"`
	C   string `json:"c"`
	M2  string `json:"m2"`
	Op  string `json:"op"`
	Tok string `json:"tok"` // token label of the transition (specs/TokenStream.tla); absent in older exports
}
type classRow struct {
	B int    `json:"b"`
	C string `json:"c"`
}

// Op codes
const (
	OpNone = iota
	OpPushA
	OpPushK
	OpPop
	OpToO
	OpToK
)

// Top symbols
const (
	TopEmpty = iota // "-"
	TopA
	TopK
	TopO
)

type Table struct {
	Modes     []string
	Classes   []string
	ModeIdx   map[string]int
	ClassIdx  map[string]int
	ByteClass [256]uint8
	ClassByte [][]byte // bytes of each class, ascending
	next      []uint16 // [(mode*4+top)*nClass+class] = mode2<<3 | op
	nClass    int
	Rej       int
	Start     int // mode "V"
	Aft       int
	numDone   []bool
	MaxDepth  int
	tok       []string // token label per transition, same indexing as next
}

type export struct {
	Table   []row             `json:"table"`
	Classes []classRow        `json:"classes"`
	NumDone []string          `json:"numdone"`
	Compact []json.RawMessage `json:"compact"` // present in the transducer export only
}

var canonModes = []string{"S", "AFT", "SE", "REJ", "CL", "V", "T1", "NI", "L1", "F1", "A0", "K0", "NM", "N0", "K", "U1", "U2", "U3", "U4", "NE", "ND", "NF", "NX", "NS", "T2", "T3", "F2", "F3", "F4", "L2", "L3"}
var canonClasses = []string{"sp", "t", "b", "r", "s", "d", "n", "e", "a", "f", "lb", "rb", "lc", "rc", "cm", "cl", "q", "bs", "sl", "mi", "pl", "dt", "z", "E", "l", "u", "hl", "hu", "wc", "NUL", "CTL", "HI", "oth"}

// the transducer export (JsonTransformExport) was first loaded in another order; its recorded baselines depend on it
var canonModesX = []string{"S", "AFT", "SE", "REJ", "CL", "V", "T1", "L1", "NI", "F1", "A0", "K0", "NM", "N0", "K", "U1", "U2", "U3", "U4", "NE", "ND", "NF", "NX", "NS", "T2", "T3", "F2", "F3", "F4", "L2", "L3"}
var canonClassesX = []string{"sp", "t", "b", "n", "r", "s", "e", "d", "a", "f", "lb", "rb", "lc", "rc", "cm", "cl", "q", "bs", "sl", "mi", "pl", "dt", "z", "E", "l", "u", "hl", "hu", "wc", "NUL", "CTL", "HI", "oth"}

var topIdx = map[string]int{"-": TopEmpty, "A": TopA, "K": TopK, "O": TopO}
var TopName = []string{"-", "A", "K", "O"}
var opIdx = map[string]int{"none": OpNone, "pushA": OpPushA, "pushK": OpPushK, "pop": OpPop, "toO": OpToO, "toK": OpToK}

// Load reads the JSON file the driver extracted from TLC's output.
func Load(path string) (*Table, error) {
	b, err := os.ReadFile(path)
	if err != nil {
		return nil, err
	}
	var e export
	if err := json.Unmarshal(b, &e); err != nil {
		return nil, err
	}
	t := &Table{ModeIdx: map[string]int{}, ClassIdx: map[string]int{}, MaxDepth: 10000}
	// Mode and class indexes must not depend on the order in which TLC happens to print the rows (a set): the fixed-seed
	// generators pick classes by index.  Names are numbered in this canonical order first; unknown names follow sorted.
	cm, cc := canonModes, canonClasses
	if len(e.Compact) > 0 {
		cm, cc = canonModesX, canonClassesX
	}
	for _, m := range cm {
		t.ModeIdx[m] = len(t.Modes)
		t.Modes = append(t.Modes, m)
	}
	for _, c := range cc {
		t.ClassIdx[c] = len(t.Classes)
		t.Classes = append(t.Classes, c)
	}
	sort.Slice(e.Table, func(i, j int) bool {
		a, b := e.Table[i], e.Table[j]
		if a.M != b.M {
			return a.M < b.M
		}
		if a.T != b.T {
			return a.T < b.T
		}
		return a.C < b.C
	})
	for _, r := range e.Table {
		for _, m := range []string{r.M, r.M2} {
			if _, ok := t.ModeIdx[m]; !ok {
				t.ModeIdx[m] = len(t.Modes)
				t.Modes = append(t.Modes, m)
			}
		}
		if _, ok := t.ClassIdx[r.C]; !ok {
			t.ClassIdx[r.C] = len(t.Classes)
			t.Classes = append(t.Classes, r.C)
		}
	}
	t.nClass = len(t.Classes)
	t.next = make([]uint16, len(t.Modes)*4*t.nClass)
	t.tok = make([]string, len(t.next))
	seen := make([]bool, len(t.next))
	for _, r := range e.Table {
		ti, ok := topIdx[r.T]
		if !ok {
			return nil, fmt.Errorf("unknown top %q", r.T)
		}
		oi, ok := opIdx[r.Op]
		if !ok {
			return nil, fmt.Errorf("unknown op %q", r.Op)
		}
		k := (t.ModeIdx[r.M]*4+ti)*t.nClass + t.ClassIdx[r.C]
		if seen[k] {
			return nil, fmt.Errorf("duplicate table row %v", r)
		}
		seen[k] = true
		t.next[k] = uint16(t.ModeIdx[r.M2]<<3 | oi)
		t.tok[k] = r.Tok
	}
	for k, s := range seen {
		if !s {
			return nil, fmt.Errorf("table not total (entry %d)", k)
		}
	}
	t.ClassByte = make([][]byte, t.nClass)
	cnt := 0
	for _, c := range e.Classes {
		ci, ok := t.ClassIdx[c.C]
		if !ok {
			return nil, fmt.Errorf("class %q has no transitions", c.C)
		}
		t.ByteClass[c.B] = uint8(ci)
		cnt++
	}
	if cnt != 256 {
		return nil, fmt.Errorf("class map covers %d bytes", cnt)
	}
	for b := 0; b < 256; b++ {
		ci := t.ByteClass[b]
		t.ClassByte[ci] = append(t.ClassByte[ci], byte(b))
	}
	t.Rej = t.ModeIdx["REJ"]
	t.Start = t.ModeIdx["V"]
	t.Aft = t.ModeIdx["AFT"]
	t.numDone = make([]bool, len(t.Modes))
	for _, m := range e.NumDone {
		t.numDone[t.ModeIdx[m]] = true
	}
	return t, nil
}

// TokenKinds returns the token kinds TokenStream.tla assigns to the text ("[", "]", "{", "}", "str", "num",
// "true", "false", "null") and whether the automaton accepts it.
func (t *Table) TokenKinds(b []byte) ([]string, bool) {
	st := t.Init()
	var out []string
	for _, c := range b {
		ci := int(t.ByteClass[c])
		k := (st.Mode*4+st.Top())*t.nClass + ci
		lab := t.tok[k]
		if !t.StepClass(&st, ci) {
			return out, false
		}
		if lab != "" {
			out = append(out, lab)
		}
	}
	return out, t.Accepting(&st)
}

// State is an automaton configuration with an unbounded stack.
type State struct {
	Mode  int
	Stack []uint8
}

func (t *Table) Init() State { return State{Mode: t.Start} }

func (s *State) Top() int {
	if len(s.Stack) == 0 {
		return TopEmpty
	}
	return int(s.Stack[len(s.Stack)-1])
}

// StepClass advances by one byte class (in place).  It returns false when the step rejects.
func (t *Table) StepClass(s *State, ci int) bool {
	if s.Mode == t.Rej {
		return false
	}
	v := t.next[(s.Mode*4+s.Top())*t.nClass+ci]
	m2, op := int(v>>3), int(v&7)
	if m2 == t.Rej {
		s.Mode, s.Stack = t.Rej, s.Stack[:0]
		return false
	}
	switch op {
	case OpPushA, OpPushK:
		if len(s.Stack) >= t.MaxDepth {
			s.Mode, s.Stack = t.Rej, s.Stack[:0]
			return false
		}
		if op == OpPushA {
			s.Stack = append(s.Stack, TopA)
		} else {
			s.Stack = append(s.Stack, TopK)
		}
	case OpPop:
		s.Stack = s.Stack[:len(s.Stack)-1]
	case OpToO:
		s.Stack[len(s.Stack)-1] = TopO
	case OpToK:
		s.Stack[len(s.Stack)-1] = TopK
	}
	s.Mode = m2
	return true
}

func (t *Table) Accepting(s *State) bool {
	return len(s.Stack) == 0 && (s.Mode == t.Aft || t.numDone[s.Mode])
}

// Complete reports that a top-level value is complete and self-delimited (mode AFT, empty stack).
func (t *Table) CompleteValue(s *State) bool { return len(s.Stack) == 0 && s.Mode == t.Aft }
func (t *Table) NumDone(m int) bool          { return t.numDone[m] }

// Verdict of a whole byte string.
type Verdict struct {
	Accept bool
	// when !Accept: where and why the reference rejects
	At           int    // offset of the rejecting byte, len(b) for rejection at end of input
	Mode         string // mode before the rejecting byte / at end of input
	Top          string
	Class        string // class of the rejecting byte, "EOF" at end of input
	Depth        bool   // rejected by the nesting limit
	MaxDepthSeen int
}

func (t *Table) Run(b []byte) Verdict {
	s := t.Init()
	maxd := 0
	for i, c := range b {
		ci := int(t.ByteClass[c])
		pm, pt, pd := s.Mode, s.Top(), len(s.Stack)
		if !t.StepClass(&s, ci) {
			v := Verdict{At: i, Mode: t.Modes[pm], Top: TopName[pt], Class: t.Classes[ci], MaxDepthSeen: maxd}
			nv := t.next[(pm*4+pt)*t.nClass+ci]
			if int(nv>>3) != t.Rej && pd >= t.MaxDepth {
				v.Depth = true
			}
			return v
		}
		if len(s.Stack) > maxd {
			maxd = len(s.Stack)
		}
	}
	if t.Accepting(&s) {
		return Verdict{Accept: true, MaxDepthSeen: maxd}
	}
	return Verdict{At: len(b), Mode: t.Modes[s.Mode], Top: TopName[s.Top()], Class: "EOF", MaxDepthSeen: maxd}
}

// Sig renders the rejecting transition as a signature component.
func (v Verdict) Sig() string {
	if v.Accept {
		return "accept"
	}
	if v.Depth {
		return "depth"
	}
	return v.Mode + "," + v.Top + "," + v.Class
}
