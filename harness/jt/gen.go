package jt

import "math/rand"

// CoarseRoot renders the rejecting reference transition with modes and byte classes grouped by root cause.
func CoarseRoot(v Verdict) string {
	if v.Depth {
		return "depth"
	}
	m, c := v.Mode, v.Class
	switch m {
	case "U1", "U2", "U3", "U4":
		if c == "EOF" {
			return "U,EOF"
		}
		return "U,nonhex"
	case "T1", "T2", "T3", "F1", "F2", "F3", "F4", "L1", "L2", "L3":
		if c == "EOF" {
			return "LIT,EOF"
		}
		return "LIT,wrong"
	case "S":
		if c == "wc" || c == "CTL" || c == "NUL" {
			return "S,ctl"
		}
	case "SE":
		if c != "EOF" {
			return "SE,bad"
		}
	}
	if len(m) == 2 && m[0] == 'N' {
		// all number-scanning states: one root cause per scanner (the number grammar is not enforced)
		if c == "NUL" || c == "EOF" {
			return "NUM," + c
		}
		return "NUM,bad"
	}
	// structural states: one root cause per state; NUL and end of input kept apart (sentinel handling)
	if c != "NUL" && c != "EOF" {
		c = "bad"
	}
	return m + "," + c
}


// GenValid walks the automaton at random, steering towards acceptance once budget is used up.
func GenValid(t *Table, rng *rand.Rand, budget int) []byte {
	s := t.Init()
	var out []byte
	n := len(t.Classes)
	for step := 0; step < budget*6; step++ {
		if t.Accepting(&s) && (len(out) >= budget || rng.Intn(8) == 0) {
			return out
		}
		// candidate classes that do not reject
		var ok []int
		for c := 0; c < n; c++ {
			cp := State{Mode: s.Mode, Stack: append([]uint8(nil), s.Stack...)}
			if t.StepClass(&cp, c) {
				if len(out) >= budget {
					// prefer steps that shrink or keep the stack and leave strings/numbers
					if len(cp.Stack) > len(s.Stack) {
						continue
					}
				}
				ok = append(ok, c)
			}
		}
		if len(ok) == 0 {
			break
		}
		c := ok[rng.Intn(len(ok))]
		if len(out) >= budget {
			// greedy: pick the step that gets closest to acceptance (closers, quote)
			best := -1
			for _, cc := range ok {
				cp := State{Mode: s.Mode, Stack: append([]uint8(nil), s.Stack...)}
				t.StepClass(&cp, cc)
				if len(cp.Stack) < len(s.Stack) || (t.Modes[s.Mode] == "S" && t.Classes[cc] == "q") {
					best = cc
					break
				}
			}
			if best >= 0 {
				c = best
			}
		}
		t.StepClass(&s, c)
		bs := t.ClassByte[c]
		out = append(out, bs[rng.Intn(len(bs))])
	}
	if t.Accepting(&s) {
		return out
	}
	return nil
}


// EachClassString calls fn for every string of class representatives of length 0..maxLen in DFS order.
func (t *Table) EachClassString(maxLen int, fn func(s []byte)) {
	n := len(t.Classes)
	rep := make([]byte, n)
	for i := range rep {
		rep[i] = t.ClassByte[i][0]
	}
	buf := make([]byte, 0, maxLen)
	var rec func()
	rec = func() {
		fn(buf)
		if len(buf) == maxLen {
			return
		}
		for c := 0; c < n; c++ {
			buf = append(buf, rep[c])
			rec()
			buf = buf[:len(buf)-1]
		}
	}
	rec()
}

// IsRep reports whether s consists of class representatives only.
func (t *Table) IsRep(s []byte) bool {
	for _, c := range s {
		if t.ClassByte[t.ByteClass[c]][0] != c {
			return false
		}
	}
	return true
}
