package jt

import (
	"encoding/json"
	"fmt"
	"os"
)

// Emission operations of the JsonTransform specification.
const (
	EmCopy = iota
	EmSP
	EmNL
	EmNLinc
	EmNLdec
)

var emIdx = map[string]uint8{"copy": EmCopy, "SP": EmSP, "NL": EmNL, "NLinc": EmNLinc, "NLdec": EmNLdec}

type compactRow struct {
	M, T, C string
	Emit    []string
}
type indentRow struct {
	M, T, C string
	Need    bool
	Emit    []string
	Need2   bool
}

type xexport struct {
	Compact []compactRow `json:"compact"`
	Indent  []indentRow  `json:"indent"`
}

// Transducer holds the emission tables TLC evaluated from JsonTransform.tla.
type Transducer struct {
	*Table
	compact [][]uint8 // [(mode*4+top)*nClass+class]
	indent  [][]uint8 // [((mode*4+top)*nClass+class)*2+need]
	need2   []bool
}

func LoadTransducer(path string) (*Transducer, error) {
	t, err := Load(path)
	if err != nil {
		return nil, err
	}
	b, err := os.ReadFile(path)
	if err != nil {
		return nil, err
	}
	var e xexport
	if err := json.Unmarshal(b, &e); err != nil {
		return nil, err
	}
	n := len(t.Modes) * 4 * t.nClass
	x := &Transducer{Table: t, compact: make([][]uint8, n), indent: make([][]uint8, 2*n), need2: make([]bool, 2*n)}
	conv := func(ss []string) ([]uint8, error) {
		out := make([]uint8, 0, len(ss))
		for _, s := range ss {
			v, ok := emIdx[s]
			if !ok {
				return nil, fmt.Errorf("unknown emission op %q", s)
			}
			out = append(out, v)
		}
		return out, nil
	}
	cnt := 0
	for _, r := range e.Compact {
		k := (t.ModeIdx[r.M]*4+topIdx[r.T])*t.nClass + t.ClassIdx[r.C]
		if x.compact[k], err = conv(r.Emit); err != nil {
			return nil, err
		}
		cnt++
	}
	if cnt != n {
		return nil, fmt.Errorf("compact table has %d rows, want %d", cnt, n)
	}
	cnt = 0
	for _, r := range e.Indent {
		k := ((t.ModeIdx[r.M]*4+topIdx[r.T])*t.nClass + t.ClassIdx[r.C]) * 2
		if r.Need {
			k++
		}
		if x.indent[k], err = conv(r.Emit); err != nil {
			return nil, err
		}
		x.need2[k] = r.Need2
		cnt++
	}
	if cnt != 2*n {
		return nil, fmt.Errorf("indent table has %d rows, want %d", cnt, 2*n)
	}
	return x, nil
}

// Compact applies the specification's Compact transducer.  ok=false: the text is invalid (no output).
// src[i] is the input offset that produced output byte i.
func (x *Transducer) Compact(b []byte) (out []byte, src []int32, ok bool) {
	s := x.Init()
	for i, c := range b {
		ci := int(x.ByteClass[c])
		k := (s.Mode*4+s.Top())*x.nClass + ci
		em := x.compact[k]
		if !x.StepClass(&s, ci) {
			return nil, nil, false
		}
		for range em {
			out = append(out, c)
			src = append(src, int32(i))
		}
	}
	if !x.Accepting(&s) {
		return nil, nil, false
	}
	return out, src, true
}

// Indent applies the specification's Indent transducer with concrete prefix and indent strings.
func (x *Transducer) Indent(b []byte, prefix, indent string) (out []byte, src []int32, ok bool) {
	s := x.Init()
	need := false
	depth := 0
	nl := func(i int) {
		out = append(out, '\n')
		out = append(out, prefix...)
		for d := 0; d < depth; d++ {
			out = append(out, indent...)
		}
		for len(src) < len(out) {
			src = append(src, int32(i))
		}
	}
	for i, c := range b {
		ci := int(x.ByteClass[c])
		k := ((s.Mode*4+s.Top())*x.nClass + ci) * 2
		if need {
			k++
		}
		em := x.indent[k]
		n2 := x.need2[k]
		if !x.StepClass(&s, ci) {
			return nil, nil, false
		}
		for _, op := range em {
			switch op {
			case EmCopy:
				out = append(out, c)
				src = append(src, int32(i))
			case EmSP:
				out = append(out, ' ')
				src = append(src, int32(i))
			case EmNL:
				nl(i)
			case EmNLinc:
				depth++
				nl(i)
			case EmNLdec:
				depth--
				nl(i)
			}
		}
		need = n2
	}
	if !x.Accepting(&s) {
		return nil, nil, false
	}
	return out, src, true
}

// ModeBefore returns the automaton mode name and top symbol before consuming b[i].
func (t *Table) ModeBefore(b []byte, i int) (string, string) {
	s := t.Init()
	for k := 0; k < i && k < len(b); k++ {
		t.StepClass(&s, int(t.ByteClass[b[k]]))
	}
	return t.Modes[s.Mode], TopName[s.Top()]
}
