// Package c05: decoding accepts exactly the RFC 8259 language.
//
// Reference verdict: the JsonText automaton exported by TLC.  Every byte string is
// offered to every acceptance-deciding entry point of go-json; encoding/json.Valid
// is consulted as a third voice (a disagreement between it and the specification
// is a specification problem, never a violation).
package c05

import (
	"bytes"
	stdjson "encoding/json"
	"encoding/base64"
	"encoding/json"
	"fmt"
	"io"
	"math/rand"
	"strings"

	gojson "github.com/goccy/go-json"

	"verifharness/jt"
	"verifharness/wk"
)

type Params struct {
	Table    string `json:"table"`     // path of the exported automaton
	MaxLen   int    `json:"max_len"`   // part A: all class strings up to this length
	Random   int    `json:"random"`    // part B: number of generated texts to mutate
	RandomSeeded int `json:"random_seeded"` // seeded part (defaults to Random)
	Parts    string `json:"parts"`     // "ASB"
	StrItems int    `json:"str_items"` // part S: string literals of up to this many catalogue items
}

// delegate target: an Unmarshaler that accepts whatever bytes it is given
type anyU struct{ got []byte }

func (u *anyU) UnmarshalJSON(b []byte) error { u.got = append(u.got[:0], b...); return nil }

type withA struct {
	A int `json:"a"`
}
type withU struct {
	M anyU `json:"m"`
}

// Target is one way of asking go-json whether a byte string is acceptable.
type Target struct {
	Name  string
	Frame func(s []byte) []byte // nil: the string itself
	Both  bool                  // reference verdict must match in both directions
	Builds bool                 // the target builds a Go value from the text (may fail for non-syntactic reasons)
	Try   func(b []byte) bool   // true = accepted (no error)
}

func um(mk func() interface{}) func([]byte) bool {
	return func(b []byte) bool { return gojson.Unmarshal(b, mk()) == nil }
}
func dec(mk func() interface{}) func([]byte) bool {
	return func(b []byte) bool {
		d := gojson.NewDecoder(bytes.NewReader(b))
		if err := d.Decode(mk()); err != nil {
			return false
		}
		var x interface{}
		return d.Decode(&x) == io.EOF
	}
}
func frame(pre, post string) func([]byte) []byte {
	return func(s []byte) []byte {
		out := make([]byte, 0, len(pre)+len(s)+len(post))
		out = append(out, pre...)
		out = append(out, s...)
		return append(out, post...)
	}
}

func Targets() []Target {
	ts := []Target{
		{Name: "Valid", Both: true, Try: func(b []byte) bool { return gojson.Valid(b) }},
	}
	type dst struct {
		name string
		mk   func() interface{}
		both bool
		fr   func([]byte) []byte
	}
	dsts := []dst{
		{"iface", func() interface{} { return new(interface{}) }, true, nil},
		{"raw", func() interface{} { return new(gojson.RawMessage) }, true, nil},
		{"delegate", func() interface{} { return new(anyU) }, true, nil},
		{"skip0", func() interface{} { return new(struct{}) }, true, frame(`{"x":`, `}`)},
		{"skipA", func() interface{} { return new(withA) }, true, frame(`{"x":`, `,"a":1}`)},
		{"surplus", func() interface{} { return new([1]int) }, true, frame(`[1,`, `]`)},
		{"member-delegate", func() interface{} { return new(withU) }, true, frame(`{"m":`, `}`)},
		{"elem-iface", func() interface{} { return new([]interface{}) }, true, frame(`[`, `]`)},
		{"mapval-iface", func() interface{} { return new(map[string]interface{}) }, true, frame(`{"k":`, `}`)},
		{"int", func() interface{} { return new(int) }, false, nil},
		{"uint8", func() interface{} { return new(uint8) }, false, nil},
		{"float64", func() interface{} { return new(float64) }, false, nil},
		{"string", func() interface{} { return new(string) }, false, nil},
		{"bool", func() interface{} { return new(bool) }, false, nil},
		{"slice-int", func() interface{} { return new([]int) }, false, nil},
		{"array-int", func() interface{} { return new([2]int) }, false, nil},
		{"map-int", func() interface{} { return new(map[string]int) }, false, nil},
		{"struct", func() interface{} { return new(withA) }, false, nil},
		{"ptr-int", func() interface{} { return new(*int) }, false, nil},
		{"bytes", func() interface{} { return new([]byte) }, false, nil},
		{"number", func() interface{} { return new(gojson.Number) }, false, nil},
	}
	for _, d := range dsts {
		builds := d.name == "iface" || d.name == "elem-iface" || d.name == "mapval-iface"
		ts = append(ts, Target{Name: "Unmarshal|" + d.name, Frame: d.fr, Both: d.both, Builds: builds, Try: um(d.mk)})
		ts = append(ts, Target{Name: "Decode|" + d.name, Frame: d.fr, Both: d.both, Builds: builds, Try: dec(d.mk)})
	}
	return ts
}

type CaseDesc struct {
	Part   string `json:"part"`
	Target string `json:"target"`
	Input  string `json:"input_b64"` // the byte string offered to the target (after framing)
	Text   string `json:"text"`      // printable rendering
}

func desc(part, target string, b []byte) CaseDesc {
	return CaseDesc{Part: part, Target: target, Input: base64.StdEncoding.EncodeToString(b), Text: fmt.Sprintf("%q", b)}
}

type runner struct {
	maxLenA int
	w       *wk.Worker
	tab     *jt.Table
	targets []Target
}

// outcome of one target on one (unframed) string: "", or the coarse and fine signature of the divergence
func (r *runner) probe(t *Target, s []byte, ref jt.Verdict) (coarseSig, fineSig, detail string, in []byte) {
	in, rv := s, ref
	if t.Frame != nil {
		in = t.Frame(s)
		rv = r.tab.Run(in)
	}
	var got bool
	r.w.Count("calls", 1)
	if rec := wk.Guard(func() { got = t.Try(in) }); rec != nil {
		c := t.Name + "|panic|" + wk.PanicClass(rec)
		return c, c, fmt.Sprint(rec), in
	}
	switch {
	case got && !rv.Accept:
		return family(t.Name) + "|accepts-invalid|" + jt.CoarseRoot(rv), t.Name + "|" + rv.Sig(),
			"accepted; reference rejects at offset " + fmt.Sprint(rv.At), in
	case !got && rv.Accept && t.Both:
		if t.Builds {
			// building a Go value may fail for a reason other than syntax (number out of range):
			// encoding/json is the yardstick for that
			var x interface{}
			if stdjson.Unmarshal(in, &x) != nil {
				return "", "", "", in
			}
		}
		sh := shape(r.tab, in)
		return family(t.Name) + "|rejects-valid", t.Name + "|" + sh, "rejected; reference accepts", in
	}
	return "", "", "", in
}

// check offers s to every target and compares with the reference.
// In the exhaustive part every divergence is reported (and counted).  In the random parts a divergence
// is first shrunk (single-byte deletions and replacement by the class representative, keeping the same
// root-cause signature); if the shrunk input lies inside the exhaustive part's space it is dropped here,
// because the exhaustive part reports and counts it.
func (r *runner) check(part string, s []byte, counted bool) {
	w := r.w
	ref := r.tab.Run(s)
	if std := stdjson.Valid(s); std != ref.Accept {
		w.DivCase(fmt.Sprintf("ORACLE|std=%v|ref=%s", std, ref.Sig()), counted, "encoding/json.Valid disagrees with JsonText", desc(part, "oracle", s))
		return
	}
	for i := range r.targets {
		t := &r.targets[i]
		cs, fs, detail, in := r.probe(t, s, ref)
		if cs == "" {
			continue
		}
		if part == "A" || part == "R" || part == "B0" {
			w.DivFine(cs, fs, counted, detail, desc(part, t.Name, in))
			continue
		}
		m := r.shrink(t, s, cs)
		if len(m) <= r.maxLenA && r.isRep(m) {
			w.Count("random_divergences_covered_by_exhaustive_part", 1)
			continue
		}
		_, fs2, detail2, in2 := r.probe(t, m, r.tab.Run(m))
		w.DivFine(cs, fs2, counted, detail2+" (shrunk from "+fmt.Sprintf("%q", s)+")", desc(part, t.Name, in2))
	}
}

func (r *runner) isRep(s []byte) bool {
	for _, c := range s {
		if r.tab.ClassByte[r.tab.ByteClass[c]][0] != c {
			return false
		}
	}
	return true
}

func (r *runner) shrink(t *Target, s []byte, cs string) []byte {
	cur := append([]byte(nil), s...)
	same := func(c []byte) bool {
		g, _, _, _ := r.probe(t, c, r.tab.Run(c))
		return g == cs
	}
	for changed := true; changed; {
		changed = false
		for i := 0; i < len(cur); i++ {
			cand := append(append([]byte(nil), cur[:i]...), cur[i+1:]...)
			if same(cand) {
				cur, changed = cand, true
				i--
			}
		}
	}
	for i := range cur {
		rep := r.tab.ClassByte[r.tab.ByteClass[cur[i]]][0]
		if rep != cur[i] {
			old := cur[i]
			cur[i] = rep
			if !same(cur) {
				cur[i] = old
			}
		}
	}
	return cur
}

// family groups targets that share a scanner implementation.
func family(name string) string {
	switch name {
	case "Valid":
		return name
	}
	i := 0
	for i < len(name) && name[i] != '|' {
		i++
	}
	api, d := name[:i], name[i+1:]
	switch d {
	case "iface", "elem-iface", "mapval-iface":
		d = "iface"
	case "delegate", "member-delegate":
		d = "delegate"
	case "skip0", "skipA", "surplus":
		d = "skip"
	case "raw":
	default:
		d = "typed" // the fine-grained signature keeps the destination's name
	}
	return api + "|" + d
}


// coarseShape keeps only the token kinds of a shape.
func coarseShape(sh string) string {
	kinds := map[string]bool{}
	for _, m := range strings.Split(sh, "+") {
		switch {
		case len(m) == 2 && m[0] == 'N':
			kinds["number"] = true
		case m == "S" || m == "SE" || (len(m) == 2 && m[0] == 'U'):
			kinds["string"] = true
		case m == "A0":
			kinds["array"] = true
		case m == "K0" || m == "K" || m == "CL":
			kinds["object"] = true
		case len(m) == 2 && (m[0] == 'T' || m[0] == 'F' || m[0] == 'L'):
			kinds["literal"] = true
		}
	}
	out := ""
	for _, k := range []string{"array", "object", "string", "number", "literal"} {
		if kinds[k] {
			if out != "" {
				out += "+"
			}
			out += k
		}
	}
	return out
}

// shape summarises a valid text for the rejects-valid signature: the set of automaton modes it visits.
func shape(t *jt.Table, b []byte) string {
	s := t.Init()
	seen := map[int]bool{}
	for _, c := range b {
		t.StepClass(&s, int(t.ByteClass[c]))
		seen[s.Mode] = true
	}
	out := ""
	for i, m := range t.Modes {
		if seen[i] && m != "AFT" && m != "V" {
			if out != "" {
				out += "+"
			}
			out += m
		}
	}
	return out
}

func Run(job *wk.Job, w *wk.Worker) error {
	var p Params
	if err := json.Unmarshal(job.Params, &p); err != nil {
		return err
	}
	tab, err := jt.Load(p.Table)
	if err != nil {
		return err
	}
	r := &runner{w: w, tab: tab, targets: Targets(), maxLenA: p.MaxLen}
	if job.Replay != nil {
		return r.replay(job.Replay)
	}
	idx := int64(0)
	if p.Parts == "" || containsByte(p.Parts, 'A') {
		idx = r.partA(p.MaxLen, idx)
	}
	if containsByte(p.Parts, 'S') || p.Parts == "" {
		idx = r.partS(p.StrItems, idx)
	}
	if containsByte(p.Parts, 'B') || p.Parts == "" {
		// B0: fixed seed, so its divergences are countable between runs; B: seeded by VERIF_SEED
		idx = r.partB("B0", p.Random, 0, idx, true)
		n := p.RandomSeeded
		if n == 0 {
			n = p.Random
		}
		r.partB("B", n, job.Seed+1, idx, false)
	}
	return nil
}

func containsByte(s string, c byte) bool {
	for i := 0; i < len(s); i++ {
		if s[i] == c {
			return true
		}
	}
	return false
}

// partA: every class string of length 0..maxLen, one representative byte per class (DFS order).
func (r *runner) partA(maxLen int, idx int64) int64 {
	t := r.tab
	n := len(t.Classes)
	rep := make([]byte, n)
	for i := range rep {
		rep[i] = t.ClassByte[i][0]
	}
	buf := make([]byte, 0, maxLen)
	var rec func()
	rec = func() {
		if r.w.Mine(idx) {
			s := append([]byte(nil), buf...)
			r.w.Begin(idx, func() interface{} { return desc("A", "*", s) })
			// non-trivial: the reference does not reject before the last byte (viable prefix)
			if len(s) > 0 {
				v := t.Run(s)
				if v.Accept || v.At >= len(s)-1 {
					r.w.Nontrivial()
					if r.w.WantSample() && v.Accept && len(s) >= 3 {
						r.w.Sample(map[string]interface{}{"input": fmt.Sprintf("%q", s), "reference": "accept"})
					}
				}
			}
			r.check("A", s, true)
		}
		idx++
		if len(buf) == maxLen {
			return
		}
		for c := 0; c < n; c++ {
			buf = append(buf, rep[c])
			rec()
			buf = buf[:len(buf)-1]
		}
	}
	rec()
	return idx
}

// partS: string literals built from the item catalogue (as a value and as an object key), each
// with every single-byte substitution from jt.MutationBytes, every deletion and every truncation.
// Deterministic, hence counted.  The reference verdict still comes from the JsonText automaton.
func (r *runner) partS(maxItems int, idx int64) int64 {
	if maxItems == 0 {
		maxItems = 2
	}
	frames := []struct{ pre, post string }{{`"`, `"`}, {`{"`, `":1}`}, {`["`, `",1]`}}
	jt.EachItemString(maxItems, func(names []string, body string) {
		for fi, f := range frames {
			if r.w.Mine(idx) {
				txt := []byte(f.pre + body + f.post)
				lo, hi := len(f.pre)-1, len(f.pre)+len(body)+1 // mutate the literal including its quotes
				r.w.Begin(idx, func() interface{} { return desc("S", "*", txt) })
				r.w.Nontrivial()
				if r.w.WantSample() && len(names) == 2 && fi == 1 {
					r.w.Sample(map[string]interface{}{"part": "S", "items": names, "input": fmt.Sprintf("%q", txt)})
				}
				r.check("A", txt, true)
				for i := lo; i < hi; i++ {
					for _, mb := range jt.MutationBytes {
						if txt[i] == mb {
							continue
						}
						m := append([]byte(nil), txt...)
						m[i] = mb
						r.check("A", m, true)
					}
					r.check("A", append(append([]byte(nil), txt[:i]...), txt[i+1:]...), true)
					r.check("A", txt[:i], true)
				}
			}
			idx++
		}
	})
	return idx
}

func (r *runner) partB(part string, count int, seed int64, idx int64, counted bool) int64 {
	t := r.tab
	for k := 0; k < count; k++ {
		if !r.w.Mine(idx) {
			idx++
			continue
		}
		rng := rand.New(rand.NewSource(seed*1000003 + int64(k)))
		txt := jt.GenValid(t, rng, 4+rng.Intn(24))
		if txt == nil {
			idx++
			continue
		}
		r.w.Begin(idx, func() interface{} { return desc(part, "*", txt) })
		r.w.Nontrivial()
		r.check(part, txt, counted)
		// every single-byte deletion, and one random insertion and substitution per position
		for i := 0; i <= len(txt); i++ {
			if i < len(txt) {
				m := append(append([]byte(nil), txt[:i]...), txt[i+1:]...)
				r.check(part, m, counted)
				sub := append([]byte(nil), txt...)
				c := rng.Intn(len(t.Classes))
				sub[i] = t.ClassByte[c][rng.Intn(len(t.ClassByte[c]))]
				r.check(part, sub, counted)
			}
			c := rng.Intn(len(t.Classes))
			ins := append(append(append([]byte(nil), txt[:i]...), t.ClassByte[c][rng.Intn(len(t.ClassByte[c]))]), txt[i:]...)
			r.check(part, ins, counted)
		}
		idx++
	}
	return idx
}

func (r *runner) replay(raw json.RawMessage) error {
	var c CaseDesc
	if err := json.Unmarshal(raw, &c); err != nil {
		return err
	}
	in, err := base64.StdEncoding.DecodeString(c.Input)
	if err != nil {
		return err
	}
	r.w.Begin(0, func() interface{} { return c })
	all := r.targets
	for i := range all {
		t := all[i]
		if c.Target != "*" && c.Target != "oracle" && t.Name != c.Target {
			continue
		}
		// the stored input is already framed
		t.Frame = nil
		r.targets = []Target{t}
		r.check("R", in, false)
	}
	r.targets = all
	return nil
}
