// Package c11: results depend only on the arguments (C11) and nothing aliases caller data (C12).
//
// Histories (sequences of call kinds) are emitted by TLC from specs/CallHistory.tla.  A history is
// executed in one process with the garbage collector off (sync.Pool then hands back the context the
// previous call released); between histories two GC cycles empty the pools.  Every call's result
// digest is compared with the COLD table: the same call made first in a fresh process (the driver
// spawns one process per call kind).  In C12 mode every result and decoded value is additionally
// snapshotted, inputs and returned slices are overwritten after use, and all earlier snapshots are
// re-checked after every later call.
package c11

import (
	"bytes"
	"context"
	"crypto/sha1"
	"encoding/json"
	"errors"
	"fmt"
	"io"
	"math"
	"os"
	"reflect"
	"runtime"
	"runtime/debug"
	"strings"

	gojson "github.com/goccy/go-json"

	"verifharness/wk"
)

type Params struct {
	Mode      string            `json:"mode"`      // "cold", "c11", "c12"
	Kind      string            `json:"kind"`      // cold mode: the single kind to run
	Histories string            `json:"histories"` // ndjson of histories
	Cold      map[string]string `json:"cold"`      // kind -> digest
}

// ---- values and types used by the call alphabet ------------------------------------------------

type small struct {
	A int               `json:"a"`
	B string            `json:"b"`
	C []int             `json:"c,omitempty"`
	D map[string]string `json:"d,omitempty"`
	E *small            `json:"e,omitempty"`
}
type ab struct {
	A int `json:"a"`
	B int `json:"b"`
}
type withIface struct {
	X interface{} `json:"x"`
	Y []interface{}
}
type errMarshaler struct{ N int }

func (e errMarshaler) MarshalJSON() ([]byte, error) {
	return nil, errors.New("scripted marshaler error")
}

type panicMarshaler struct{ N int }

func (e panicMarshaler) MarshalJSON() ([]byte, error) { panic("scripted marshaler panic") }

type badMarshaler struct{}

func (badMarshaler) MarshalJSON() ([]byte, error) { return []byte(`{"a":}`), nil }

type holder struct {
	Before map[string]int `json:"before"`
	In     []interface{}  `json:"in"`
	M      interface{}    `json:"m"`
	After  string         `json:"after"`
}
type cyc struct {
	V    int
	Next *cyc
}
type errUnmarshaler struct{ S string }

func (e *errUnmarshaler) UnmarshalJSON(b []byte) error {
	if bytes.Contains(b, []byte("bad")) {
		return errors.New("scripted unmarshaler error")
	}
	e.S = string(b)
	return nil
}

type strTag struct {
	N int     `json:"n,string"`
	F float64 `json:"f,string"`
	S string  `json:"s,string"`
}
type qT struct {
	X int
	P *ab
	V ab
}

type strMsg struct {
	S string            `json:"s"`
	T []string          `json:"t"`
	M map[string]string `json:"m"`
}

// ctxProbe renders what its context-aware marshaler is handed: nil, a value, a field query.
type ctxKey struct{}
type ctxProbe struct{ N int }

func (c *ctxProbe) MarshalJSON(ctx context.Context) ([]byte, error) {
	if ctx == nil {
		return []byte(`"no context"`), nil
	}
	q := "no query"
	if fq := gojson.FieldQueryFromContext(ctx); fq != nil {
		qs, _ := fq.QueryString()
		q = string(qs)
	}
	return json.Marshal(fmt.Sprintf("value=%v %s", ctx.Value(ctxKey{}), q))
}

type ctxHolder struct {
	A int
	P *ctxProbe
}

func (c *ctxProbe) UnmarshalJSON(ctx context.Context, b []byte) error {
	if ctx == nil {
		c.N = -1
		return nil
	}
	if ctx.Value(ctxKey{}) != nil {
		c.N = 1
		return nil
	}
	c.N = 0
	return nil
}

func largeValue() interface{} {
	m := map[string]interface{}{}
	for i := 0; i < 300; i++ {
		m[fmt.Sprintf("key%03d", i)] = []interface{}{float64(i), strings.Repeat("v<", i%17), map[string]interface{}{"n": nil, "t": true}}
	}
	return m
}

func smallValue() small {
	return small{A: 7, B: "x<y", C: []int{1, 2, 3}, D: map[string]string{"k": "v"}, E: &small{A: 1, B: "in"}}
}

var recValue = func() interface{} {
	type node struct {
		V    int                    `json:"v"`
		M    map[string]interface{} `json:"m"`
		Next *node                  `json:"next"`
	}
	return &node{V: 1, M: map[string]interface{}{"a": []interface{}{1.5, "s"}}, Next: &node{V: 2, M: map[string]interface{}{"b": nil}, Next: &node{V: 3}}}
}()

var largeDoc = func() []byte {
	b, _ := json.Marshal(largeValue())
	return b
}()

// persistent handles (reused across the whole process)
var (
	hEncBuf    bytes.Buffer
	hEnc       = gojson.NewEncoder(&hEncBuf)
	hFeed      = &feed{}
	hDec       = gojson.NewDecoder(hFeed)
	hPath, _   = gojson.CreatePath("$.a.b[1]")
	hPath2, _  = gojson.CreatePath("$..k")
	hQuery, _  = gojson.BuildFieldQuery("X", gojson.BuildSubFieldQuery("P").Fields("A"))
	hQuery2, _ = gojson.BuildFieldQuery("V", "X")
	hQuery3, _ = gojson.BuildFieldQuery("P")
	hQuery4, _ = gojson.BuildFieldQuery("P", "X")
	hQuery5, _ = gojson.BuildFieldQuery(gojson.BuildSubFieldQuery("P").Fields("B"), gojson.BuildSubFieldQuery("V").Fields("A"))
)

type feed struct{ pending []byte }

func (f *feed) Read(p []byte) (int, error) {
	if len(f.pending) == 0 {
		return 0, io.EOF
	}
	n := copy(p, f.pending)
	f.pending = f.pending[n:]
	return n, nil
}

// ---- result of one call ---------------------------------------------------------------------------

type result struct {
	digest      string
	out         []byte        // returned slice (C12: must stay intact)
	vals        []interface{} // pointers to decoded values (C12)
	input       []byte        // caller's input (C12: must not be modified; may be overwritten afterwards)
	inputBefore []byte        // copy of input[:cap] taken before the call (C12)
}

func dig(b []byte, err error) string {
	if err != nil {
		return "error"
	}
	q := fmt.Sprintf("%+q", b) // pure ASCII: survives the JSON transport of the cold table unchanged
	if len(q) > 160 {
		return fmt.Sprintf("ok:%d:%x:%s", len(b), sha1.Sum(b), q[:80])
	}
	return "ok:" + q
}

// decoded values are compared through encoding/json's rendering (no addresses, deterministic map order)
func digv(v interface{}, err error) string {
	if err != nil {
		return "error"
	}
	b, e := json.Marshal(v)
	if e != nil {
		b = []byte(fmt.Sprintf("unrenderable: %v", e))
	}
	return dig(b, nil)
}

func enc(f func() ([]byte, error)) result {
	var b []byte
	var err error
	if rec := wk.Guard(func() { b, err = f() }); rec != nil {
		return result{digest: "panic"}
	}
	return result{digest: dig(b, err), out: b}
}

func dec(doc string, mk func() interface{}, f func(in []byte, dst interface{}) error) result {
	// the input has spare capacity holding a recognisable pattern: neither the document nor the bytes behind it may change
	full := make([]byte, len(doc)+16)
	copy(full, doc)
	for i := len(doc) + 1; i < len(full); i++ { // the byte right behind the document stays 0, as in a fresh buffer
		full[i] = 0xEE
	}
	in := full[:len(doc)]
	before := append([]byte(nil), full...)
	dst := mk()
	var err error
	if rec := wk.Guard(func() { err = f(in, dst) }); rec != nil {
		return result{digest: "panic", input: in, inputBefore: before}
	}
	r := result{digest: digv(reflect.ValueOf(dst).Elem().Interface(), err), input: in, inputBefore: before}
	if err == nil {
		r.vals = []interface{}{dst}
	}
	return r
}

// decPartial: as dec, but the (partially filled) destination of a failing call is kept as a decoded value too
func decPartial(doc string, mk func() interface{}, f func(in []byte, dst interface{}) error) result {
	var dst interface{}
	r := dec(doc, func() interface{} { dst = mk(); return dst }, f)
	if r.vals == nil && r.digest != "panic" {
		r.vals = []interface{}{dst}
	}
	return r
}

func pathParts(doc string) result {
	var parts [][]byte
	var err error
	if rec := wk.Guard(func() { parts, err = hPath.Extract([]byte(doc)) }); rec != nil {
		return result{digest: "panic"}
	}
	r := result{digest: dig(bytes.Join(parts, []byte("|")), err)}
	if err == nil && len(parts) > 0 {
		r.out = parts[0]
	}
	return r
}

var Kinds = map[string]func() result{
	"marshal:small": func() result { return enc(func() ([]byte, error) { return gojson.Marshal(smallValue()) }) },
	"marshal:large": func() result { return enc(func() ([]byte, error) { return gojson.Marshal(largeValue()) }) },
	"marshal:map": func() result {
		return enc(func() ([]byte, error) { return gojson.Marshal(map[string][]int{"b": {1}, "a": nil, "c": {}}) })
	},
	"marshal:rec": func() result { return enc(func() ([]byte, error) { return gojson.Marshal(recValue) }) },
	"marshal:iface": func() result {
		return enc(func() ([]byte, error) {
			return gojson.Marshal(withIface{X: smallValue(), Y: []interface{}{1, "s", nil, ab{1, 2}}})
		})
	},
	"indent:a": func() result {
		return enc(func() ([]byte, error) { return gojson.MarshalIndent(smallValue(), ">", "  ") })
	},
	"indent:b": func() result {
		return enc(func() ([]byte, error) {
			return gojson.MarshalIndent(withIface{X: recValue, Y: []interface{}{ab{1, 2}}}, "", "\t")
		})
	},
	"noescape": func() result { return enc(func() ([]byte, error) { return gojson.MarshalNoEscape(smallValue()) }) },
	"opt:unordered": func() result {
		return enc(func() ([]byte, error) {
			return gojson.MarshalWithOption(map[string]small{"only": smallValue()}, gojson.UnorderedMap())
		})
	},
	"opt:nohtml": func() result {
		return enc(func() ([]byte, error) { return gojson.MarshalWithOption(smallValue(), gojson.DisableHTMLEscape()) })
	},
	"opt:nonorm": func() result {
		return enc(func() ([]byte, error) { return gojson.MarshalWithOption("a\xffb<", gojson.DisableNormalizeUTF8()) })
	},
	"opt:color": func() result {
		return enc(func() ([]byte, error) {
			return gojson.MarshalWithOption(smallValue(), gojson.Colorize(gojson.DefaultColorScheme))
		})
	},
	"opt:colorindent": func() result {
		return enc(func() ([]byte, error) {
			return gojson.MarshalIndentWithOption(smallValue(), "", " ", gojson.Colorize(gojson.DefaultColorScheme))
		})
	},
	"opt:debug": func() result {
		return enc(func() ([]byte, error) { return gojson.MarshalWithOption(smallValue(), gojson.DebugWith(io.Discard)) })
	},
	// a large RawMessage / marshaler result that is a window into a bigger caller-owned buffer: encoding must not write behind it
	"marshal:bigraw": func() result {
		full := []byte(`{"pad":"` + strings.Repeat("p", 3000) + `"}` + strings.Repeat("Z", 64))
		raw := gojson.RawMessage(full[:len(full)-64])
		before := append([]byte(nil), full...)
		r := enc(func() ([]byte, error) { return gojson.Marshal(struct{ R gojson.RawMessage }{raw}) })
		r.input, r.inputBefore = full[:len(full)-64], before
		return r
	},
	"indent:bigraw": func() result {
		full := []byte(`[` + strings.Repeat("1,", 1500) + `2]` + strings.Repeat("Z", 64))
		raw := gojson.RawMessage(full[:len(full)-64])
		before := append([]byte(nil), full...)
		r := enc(func() ([]byte, error) { return gojson.MarshalIndent(map[string]interface{}{"r": raw}, "", " ") })
		r.input, r.inputBefore = full[:len(full)-64], before
		return r
	},
	"ctxaware:marshal": func() result {
		return enc(func() ([]byte, error) { return gojson.Marshal(&ctxHolder{A: 1, P: &ctxProbe{2}}) })
	},
	"ctxaware:indent": func() result {
		return enc(func() ([]byte, error) { return gojson.MarshalIndent(&ctxHolder{A: 1, P: &ctxProbe{2}}, "", " ") })
	},
	"ctxaware:noescape": func() result {
		return enc(func() ([]byte, error) { return gojson.MarshalNoEscape(&ctxHolder{A: 1, P: &ctxProbe{2}}) })
	},
	"ctx:value": func() result {
		return enc(func() ([]byte, error) {
			return gojson.MarshalContext(context.WithValue(context.Background(), ctxKey{}, "secret"), &ctxHolder{A: 1, P: &ctxProbe{2}})
		})
	},
	"ctx:valuequery": func() result {
		return enc(func() ([]byte, error) {
			return gojson.MarshalContext(gojson.SetFieldQueryToContext(context.WithValue(context.Background(), ctxKey{}, "s2"), hQuery3), &ctxHolder{A: 1, P: &ctxProbe{2}})
		})
	},
	"ctx:plain": func() result {
		return enc(func() ([]byte, error) { return gojson.MarshalContext(context.Background(), smallValue()) })
	},
	"ctx:query1": func() result {
		return enc(func() ([]byte, error) {
			return gojson.MarshalContext(gojson.SetFieldQueryToContext(context.Background(), hQuery), qT{X: 1, P: &ab{2, 3}, V: ab{4, 5}})
		})
	},
	"ctx:query2": func() result {
		return enc(func() ([]byte, error) {
			return gojson.MarshalContext(gojson.SetFieldQueryToContext(context.Background(), hQuery2), qT{X: 1, P: &ab{2, 3}, V: ab{4, 5}})
		})
	},
	// a query that selects the pointer member WHOLE: after a query that sub-selected it the full member must still come out
	"ctx:query3": func() result {
		return enc(func() ([]byte, error) {
			return gojson.MarshalContext(gojson.SetFieldQueryToContext(context.Background(), hQuery4), qT{X: 1, P: &ab{2, 3}, V: ab{4, 5}})
		})
	},
	"ctx:query4": func() result {
		return enc(func() ([]byte, error) {
			return gojson.MarshalContext(gojson.SetFieldQueryToContext(context.Background(), hQuery5), qT{X: 1, P: &ab{2, 3}, V: ab{4, 5}})
		})
	},
	// results larger than the pooled buffer (the encoder grows it): every entry point must still hand out a private copy
	"indent:large": func() result {
		return enc(func() ([]byte, error) { return gojson.MarshalIndent(largeValue(), "", "  ") })
	},
	"noescape:large": func() result { return enc(func() ([]byte, error) { return gojson.MarshalNoEscape(largeValue()) }) },
	"ctx:large": func() result {
		return enc(func() ([]byte, error) { return gojson.MarshalContext(context.Background(), largeValue()) })
	},
	"opt:large": func() result {
		return enc(func() ([]byte, error) {
			return gojson.MarshalIndentWithOption(largeValue(), "", " ", gojson.DisableHTMLEscape())
		})
	},
	"query:reuse": func() result {
		return enc(func() ([]byte, error) {
			return gojson.MarshalContext(gojson.SetFieldQueryToContext(context.Background(), hQuery), &qT{X: 9, V: ab{7, 8}})
		})
	},
	"enc:plain": func() result {
		return enc(func() ([]byte, error) {
			hEncBuf.Reset()
			hEnc.SetIndent("", "")
			err := hEnc.Encode(smallValue())
			return append([]byte(nil), hEncBuf.Bytes()...), err
		})
	},
	"enc:indent": func() result {
		return enc(func() ([]byte, error) {
			hEncBuf.Reset()
			hEnc.SetIndent("#", " ")
			err := hEnc.Encode(withIface{X: ab{1, 2}})
			hEnc.SetIndent("", "")
			return append([]byte(nil), hEncBuf.Bytes()...), err
		})
	},
	"enc:ctx": func() result {
		return enc(func() ([]byte, error) {
			hEncBuf.Reset()
			err := hEnc.EncodeContext(context.Background(), smallValue())
			return append([]byte(nil), hEncBuf.Bytes()...), err
		})
	},
	"fail:marshaler-error": func() result {
		return enc(func() ([]byte, error) {
			return gojson.MarshalIndent(holder{Before: map[string]int{"a": 1}, In: []interface{}{1, map[string]interface{}{"deep": errMarshaler{1}}}, After: "z"}, "", "  ")
		})
	},
	"fail:marshaler-panic": func() result {
		return enc(func() ([]byte, error) {
			return gojson.Marshal(holder{Before: map[string]int{"a": 1, "b": 2}, In: []interface{}{[]interface{}{panicMarshaler{1}}}, After: "z"})
		})
	},
	"fail:unsupported": func() result {
		return enc(func() ([]byte, error) {
			return gojson.Marshal(struct {
				A int
				C chan int
			}{1, nil})
		})
	},
	"fail:nan": func() result {
		return enc(func() ([]byte, error) {
			return gojson.MarshalIndent(map[string]interface{}{"a": []float64{1, math.NaN()}}, "", " ")
		})
	},
	"fail:cycle": func() result {
		return enc(func() ([]byte, error) {
			c := &cyc{V: 1}
			c.Next = &cyc{V: 2, Next: c}
			return gojson.Marshal(c)
		})
	},
	"fail:marshaler-badjson": func() result {
		return enc(func() ([]byte, error) { return gojson.Marshal([]interface{}{1, badMarshaler{}}) })
	},
	"um:small": func() result {
		return dec(`{"a":7,"b":"x<y\n","c":[1,2,3],"d":{"k":"v"},"e":{"a":1,"b":"in"}}`, func() interface{} { return new(small) }, gojson.Unmarshal)
	},
	"um:large": func() result {
		return dec(string(largeDoc), func() interface{} { return new(interface{}) }, gojson.Unmarshal)
	},
	"um:prepop": func() result {
		return dec(`{"a":1,"c":[9]}`, func() interface{} { s := smallValue(); return &s }, gojson.Unmarshal)
	},
	"um:slice-partial": func() result { return dec(`[{"a":5}]`, func() interface{} { return new([]ab) }, gojson.Unmarshal) },
	"um:mapslice": func() result {
		return dec(`[{"z":9}]`, func() interface{} { return new([]map[string]int) }, gojson.Unmarshal)
	},
	"um:firstwin": func() result {
		return dec(`{"a":1,"a":2,"b":3}`, func() interface{} { return new(ab) }, func(in []byte, d interface{}) error {
			return gojson.UnmarshalWithOption(in, d, gojson.DecodeFieldPriorityFirstWin())
		})
	},
	"um:dup": func() result {
		return dec(`{"a":1,"a":2,"b":3}`, func() interface{} { return new(ab) }, gojson.Unmarshal)
	},
	"um:ctx": func() result {
		return dec(`{"a":3,"b":4}`, func() interface{} { return new(ab) }, func(in []byte, d interface{}) error {
			return gojson.UnmarshalContext(context.Background(), in, d)
		})
	},
	"um:noescape": func() result {
		return dec(`{"a":3,"b":4}`, func() interface{} { return new(ab) }, func(in []byte, d interface{}) error { return gojson.UnmarshalNoEscape(in, d) })
	},
	"um:strtag": func() result {
		return dec(`{"n":"12","f":"1.5","s":"\"q\""}`, func() interface{} { return new(strTag) }, gojson.Unmarshal)
	},
	"um:raw": func() result {
		return dec(`{"r":{"x":[1, 2]},"n":12.50,"s":"stré","b":"aGk=","i":["deep",{"k":"v"}]}`, func() interface{} {
			return new(struct {
				R gojson.RawMessage `json:"r"`
				N gojson.Number     `json:"n"`
				S string            `json:"s"`
				B []byte            `json:"b"`
				I interface{}       `json:"i"`
			})
		}, gojson.Unmarshal)
	},
	"dec:stream": func() result {
		return dec(`{"a":11,"b":12} `, func() interface{} { return new(ab) }, func(in []byte, d interface{}) error {
			hFeed.pending = append(hFeed.pending, in...)
			return hDec.Decode(d)
		})
	},
	// a long-lived Decoder on a message-oriented reader (one document per Read): the strings of earlier values must survive later Decodes
	"dec:streamstr-a": func() result {
		return dec(`{"s":"first message","t":["alpha","beta"],"m":{"key-one":"v1"}}`+"\n", func() interface{} { return new(strMsg) }, func(in []byte, d interface{}) error {
			hFeed.pending = append(hFeed.pending, in...)
			return hDec.Decode(d)
		})
	},
	"dec:streamstr-b": func() result {
		return dec(` {"t":["GAMMA"],"s":"2nd","m":{"another key":"another value","k":""}}`, func() interface{} { return new(strMsg) }, func(in []byte, d interface{}) error {
			hFeed.pending = append(hFeed.pending, in...)
			return hDec.Decode(d)
		})
	},
	"dec:usenumber": func() result {
		return dec(`[1,2.50,{"n":3}]`, func() interface{} { return new(interface{}) }, func(in []byte, d interface{}) error {
			dd := gojson.NewDecoder(bytes.NewReader(in))
			dd.UseNumber()
			return dd.Decode(d)
		})
	},
	"dec:disallow": func() result {
		return dec(`{"a":1,"zz":2}`, func() interface{} { return new(ab) }, func(in []byte, d interface{}) error {
			dd := gojson.NewDecoder(bytes.NewReader(in))
			dd.DisallowUnknownFields()
			return dd.Decode(d)
		})
	},
	"dec:plain-unknown": func() result {
		return dec(`{"a":1,"zz":2}`, func() interface{} { return new(ab) }, func(in []byte, d interface{}) error {
			return gojson.NewDecoder(bytes.NewReader(in)).Decode(d)
		})
	},
	"ctxaware:unmarshal": func() result {
		return dec(`{"A":1,"P":7}`, func() interface{} { return new(ctxHolder) }, func(in []byte, d interface{}) error { return gojson.Unmarshal(in, d) })
	},
	"ctxaware:decode": func() result {
		return dec(`{"A":1,"P":7}`, func() interface{} { return new(ctxHolder) }, func(in []byte, d interface{}) error {
			return gojson.NewDecoder(bytes.NewReader(in)).Decode(d)
		})
	},
	"uctx:value": func() result {
		return dec(`{"A":1,"P":7}`, func() interface{} { return new(ctxHolder) }, func(in []byte, d interface{}) error {
			return gojson.UnmarshalContext(context.WithValue(context.Background(), ctxKey{}, "secret"), in, d)
		})
	},
	"dec:ctxvalue": func() result {
		return dec(`{"A":1,"P":7}`, func() interface{} { return new(ctxHolder) }, func(in []byte, d interface{}) error {
			return gojson.NewDecoder(bytes.NewReader(in)).DecodeContext(context.WithValue(context.Background(), ctxKey{}, "secret"), d)
		})
	},
	"dec:ctx": func() result {
		return dec(`{"a":5,"b":6}`, func() interface{} { return new(ab) }, func(in []byte, d interface{}) error {
			return gojson.NewDecoder(bytes.NewReader(in)).DecodeContext(context.Background(), d)
		})
	},
	"dec:token": func() result {
		return dec(`{"k":[1,"s",true,null]}`, func() interface{} { return new([]string) }, func(in []byte, d interface{}) error {
			dd := gojson.NewDecoder(bytes.NewReader(in))
			out := d.(*[]string)
			for {
				t, err := dd.Token()
				if err == io.EOF {
					return nil
				}
				if err != nil {
					return err
				}
				*out = append(*out, fmt.Sprintf("%T:%v", t, t))
			}
		})
	},
	"fail:um-syntax-start": func() result { return dec(`x{"a":1}`, func() interface{} { return new(ab) }, gojson.Unmarshal) },
	"fail:um-syntax-mid": func() result {
		return dec(`{"a":7,"b":"x","c":[1,2,x],"d":{"k":"v"}}`, func() interface{} { return new(small) }, gojson.Unmarshal)
	},
	"fail:um-syntax-end": func() result {
		return dec(`{"a":7,"b":"x","e":{"a":1}`, func() interface{} { return new(small) }, gojson.Unmarshal)
	},
	// failing calls that carry decode options: nothing of them may survive in the pooled decoder context
	"fail:um-firstwin": func() result {
		return dec(`{"a":1,"a":2,"b":`, func() interface{} { return new(ab) }, func(in []byte, d interface{}) error {
			return gojson.UnmarshalWithOption(in, d, gojson.DecodeFieldPriorityFirstWin())
		})
	},
	"fail:uctx-value": func() result {
		return dec(`{"A":1,"P":7,`, func() interface{} { return new(ctxHolder) }, func(in []byte, d interface{}) error {
			return gojson.UnmarshalContext(context.WithValue(context.Background(), ctxKey{}, "secret"), in, d)
		})
	},
	"um:dupkeys": func() result {
		return dec(`{"a":1,"b":5,"a":2,"b":6}`, func() interface{} { return new(ab) }, gojson.Unmarshal)
	},
	"fail:um-type": func() result {
		return dec(`{"a":"str","b":"x"}`, func() interface{} { return new(small) }, gojson.Unmarshal)
	},
	"fail:um-range": func() result { return dec(`[1,2,300]`, func() interface{} { return new([]int8) }, gojson.Unmarshal) },
	"fail:um-unmarshaler": func() result {
		return dec(`[{"ok":1},"bad"]`, func() interface{} { return new([]errUnmarshaler) }, gojson.Unmarshal)
	},
	"fail:um-unknown": func() result {
		return dec(`{"a":1,"zz":{"deep":[1,2]}}`, func() interface{} { return new(ab) }, func(in []byte, d interface{}) error {
			dd := gojson.NewDecoder(bytes.NewReader(in))
			dd.DisallowUnknownFields()
			return dd.Decode(d)
		})
	},
	"fail:um-slice-mid": func() result {
		return dec(`[{"a":1,"b":2} {"a":3}]`, func() interface{} { return new([]ab) }, gojson.Unmarshal)
	},
	"fail:um-mapslice-mid": func() result {
		return dec(`[{"x":1} {"y":2}]`, func() interface{} { return new([]map[string]int) }, gojson.Unmarshal)
	},
	"fail:dec-reader": func() result {
		return dec(`{"a":1,"b":`, func() interface{} { return new(ab) }, func(in []byte, d interface{}) error {
			return gojson.NewDecoder(io.MultiReader(bytes.NewReader(in), errReader{})).Decode(d)
		})
	},
	"util:valid": func() result {
		return result{digest: fmt.Sprint(gojson.Valid([]byte(`{"a":[1,2,{"b":null}]}`)), gojson.Valid([]byte(`{"a":[1,2,{"b":nul}]}`)))}
	},
	"util:compact": func() result {
		return enc(func() ([]byte, error) {
			var o bytes.Buffer
			err := gojson.Compact(&o, []byte(`{ "a" : [ 1 , 2 ] , "b" : "x y" }`))
			return o.Bytes(), err
		})
	},
	"util:indent": func() result {
		return enc(func() ([]byte, error) {
			var o bytes.Buffer
			err := gojson.Indent(&o, []byte(`{"a":[1,{"b":[]}],"c":{}}`), ">", "  ")
			return o.Bytes(), err
		})
	},
	"util:htmlescape": func() result {
		return enc(func() ([]byte, error) {
			var o bytes.Buffer
			gojson.HTMLEscape(&o, []byte(`{"a":"<b>&"}`))
			return o.Bytes(), nil
		})
	},
	"util:compact-bad": func() result {
		return enc(func() ([]byte, error) {
			var o bytes.Buffer
			err := gojson.Compact(&o, []byte(`{ "a" : [ 1 , 2 `))
			return o.Bytes(), err
		})
	},
	"util:indent-bad": func() result {
		return enc(func() ([]byte, error) {
			var o bytes.Buffer
			err := gojson.Indent(&o, []byte(`{"a":[1,{"b":[}],"c":{}}`), ">", "  ")
			return o.Bytes(), err
		})
	},
	"path:extract": func() result {
		return enc(func() ([]byte, error) {
			parts, err := hPath.Extract([]byte(`{"a":{"b":[10,{"x":20},30]}}`))
			return bytes.Join(parts, []byte("|")), err
		})
	},
	"path:nomatch": func() result {
		return enc(func() ([]byte, error) {
			parts, err := hPath.Extract([]byte(`{"a":{"c":[10]}}`))
			return bytes.Join(parts, []byte("|")), err
		})
	},
	"path:baddoc": func() result {
		return enc(func() ([]byte, error) {
			parts, err := hPath.Extract([]byte(`{"a":{"b":[10,{"x":`))
			return bytes.Join(parts, []byte("|")), err
		})
	},
	// the slices Extract returns are the caller's: a later call on the same Path (another document of the same length) must not
	// change them.  `out` is the returned part itself, not a copy.
	"path:parts-a": func() result {
		return pathParts(`{"a":{"b":[10,{"x":"first-doc"},30]}}`)
	},
	"path:parts-b": func() result {
		return pathParts(`{"a":{"b":[77,{"y":"second-dc"},99]}}`)
	},
	// a call that FAILS after it has stored strings: the destination is the caller's and keeps what was stored
	"fail:um-strings": func() result {
		return decPartial(`{"b":"first-document-name","d":{"k":"first-document-alias"},"e":{"b":"nested-name"},"a":x}`, func() interface{} { return new(small) }, gojson.Unmarshal)
	},
	"fail:um-strings-short": func() result {
		return decPartial(`{"b":"2nd-name","d":{"k":"2nd-alias"},"a":"str"}`, func() interface{} { return new(small) }, gojson.Unmarshal)
	},
	"path:rec": func() result {
		return enc(func() ([]byte, error) {
			parts, err := hPath2.Extract([]byte(`{"k":1,"o":{"k":[2]}}`))
			return bytes.Join(parts, []byte("|")), err
		})
	},
}

type errReader struct{}

func (errReader) Read([]byte) (int, error) { return 0, errors.New("scripted reader failure") }

func kindGroup(k string) string {
	if i := strings.IndexByte(k, ':'); i >= 0 {
		if strings.HasPrefix(k, "fail:") {
			j := strings.IndexAny(k[5:], "-")
			if j >= 0 {
				return k[:5+j]
			}
		}
		return k[:i]
	}
	return k
}

// snapshot of a decoded value for C12
func snapshot(v interface{}) string { return digv(reflect.ValueOf(v).Elem().Interface(), nil) }

type kept struct {
	kind    string
	out     []byte
	outCopy []byte
	val     interface{}
	valSnap string
}

func Run(job *wk.Job, w *wk.Worker) error {
	var p Params
	if err := json.Unmarshal(job.Params, &p); err != nil {
		return err
	}
	if p.Mode == "cold" {
		f, ok := Kinds[p.Kind]
		if !ok {
			return fmt.Errorf("unknown kind %q", p.Kind)
		}
		w.Note("cold", map[string]string{"kind": p.Kind, "digest": f().digest})
		return nil
	}
	debug.SetGCPercent(-1)
	runHistory := func(hist []string, counted bool) {
		runtime.GC()
		runtime.GC() // two cycles drop everything the pools hold: the history starts from empty pools
		var keep []kept
		prev := "(start)"
		failedBefore := false
		for step, k := range hist {
			f, ok := Kinds[k]
			if !ok {
				continue
			}
			w.Count("calls", 1)
			r := f()
			c := map[string]interface{}{"history": hist[:step+1]}
			if want := p.Cold[k]; r.digest != want {
				how := "after-" + kindGroup(prev)
				w.DivFine("c11|"+kindGroup(k)+"|"+how, fmt.Sprintf("%v", hist[:step+1]), counted,
					fmt.Sprintf("call %d (%s) gives %s; made first in a fresh process it gives %s", step+1, k, trunc(r.digest), trunc(want)), c)
				return
			}
			if p.Mode == "c12" {
				// the caller's input must not have been modified by the call
				if r.input != nil && r.inputBefore != nil && !bytes.Equal(r.input[:cap(r.input)][:len(r.inputBefore)], r.inputBefore) {
					w.DivFine("c12|caller-memory-modified|"+kindGroup(k), fmt.Sprintf("%v", hist[:step+1]), counted,
						fmt.Sprintf("%s changed the caller's bytes (document or the spare capacity behind it): before %q, after %q", k, trunc(string(r.inputBefore)), trunc(string(r.input[:cap(r.input)][:len(r.inputBefore)]))), c)
					return
				}
				// earlier results and decoded values must be intact
				for _, e := range keep {
					if e.out != nil && !bytes.Equal(e.out, e.outCopy) {
						w.DivFine("c12|returned-slice-changed|by-"+kindGroup(k)+"|producer-"+kindGroup(e.kind), fmt.Sprintf("%v", hist[:step+1]), counted,
							fmt.Sprintf("the slice returned by %s was changed by a later %s call", e.kind, k), c)
						return
					}
					if e.val != nil && snapshot(e.val) != e.valSnap {
						w.DivFine("c12|decoded-value-changed|by-"+kindGroup(k)+"|producer-"+kindGroup(e.kind), fmt.Sprintf("%v", hist[:step+1]), counted,
							fmt.Sprintf("the value decoded by %s was changed by a later %s call: now %s, was %s", e.kind, k, trunc(snapshot(e.val)), trunc(e.valSnap)), c)
						return
					}
				}
				if r.out != nil {
					keep = append(keep, kept{kind: k, out: r.out, outCopy: append([]byte(nil), r.out...)})
				}
				for _, v := range r.vals {
					snap := snapshot(v)
					// overwrite the caller's input: nothing decoded may alias it
					for i := range r.input {
						r.input[i] = 'X'
					}
					if s2 := snapshot(v); s2 != snap {
						w.DivFine("c12|decoded-value-aliases-input|"+kindGroup(k), fmt.Sprintf("%v", hist[:step+1]), counted,
							fmt.Sprintf("overwriting the input of %s changed the decoded value: %s -> %s", k, trunc(snap), trunc(s2)), c)
						return
					}
					keep = append(keep, kept{kind: k, val: v, valSnap: snap})
				}
				if step%2 == 1 && len(keep) > 0 && keep[len(keep)-1].out != nil {
					// the caller scribbles over a slice it owns: later results must not be affected (checked via the cold table)
					e := &keep[len(keep)-1]
					for i := range e.out {
						e.out[i] = 'Z'
					}
					e.outCopy = append([]byte(nil), e.out...)
				}
			}
			prev = k
			if strings.HasPrefix(k, "fail:") {
				failedBefore = true
			}
		}
		_ = failedBefore
	}
	if job.Replay != nil {
		var c struct {
			History []string `json:"history"`
		}
		if err := json.Unmarshal(job.Replay, &c); err != nil {
			return err
		}
		w.Begin(0, func() interface{} { return c })
		runHistory(c.History, false)
		return nil
	}
	data, err := os.ReadFile(p.Histories)
	if err != nil {
		return err
	}
	idx := int64(0)
	for _, line := range bytes.Split(data, []byte("\n")) {
		if len(line) == 0 {
			continue
		}
		if w.Mine(idx) {
			var h []string
			if err := json.Unmarshal(line, &h); err != nil {
				return err
			}
			w.Begin(idx, func() interface{} { return map[string]interface{}{"history": h} })
			if len(h) >= 2 {
				w.Nontrivial()
			}
			if w.WantSample() && len(h) >= 2 {
				w.Sample(map[string]interface{}{"history": h})
			}
			runHistory(h, true)
		}
		idx++
	}
	return nil
}

func trunc(s string) string {
	if len(s) > 200 {
		return s[:200] + "..."
	}
	return s
}
