// Package c06: decoding and utility entry points always return (no panic, crash or hang).
//
// Inputs are behaviours of the JsonText specification: every byte-class string up to a bound (which
// contains every truncation of every short valid text), string literals over the escape catalogue
// with every single-byte mutation, generated texts with mutations and every prefix, and nesting
// depths placed around the decoder's limit and far beyond it.  The oracle is survival: a recovered
// panic is a divergence reported by the worker, a dead or stalled worker is reported by the
// supervisor (and re-run alone to confirm).
package c06

import (
	"bytes"
	"context"
	"encoding/base64"
	"encoding/json"
	"fmt"
	"io"
	"math/rand"
	"strconv"
	"strings"

	gojson "github.com/goccy/go-json"

	"verifharness/dtypes"
	"verifharness/jt"
	"verifharness/wk"
)

type Params struct {
	Table        string `json:"table"`
	MaxLen       int    `json:"max_len"`
	StrItems     int    `json:"str_items"`
	Random       int    `json:"random"`
	RandomSeeded int    `json:"random_seeded"`
	PathLen      int    `json:"path_len"`
	Depths       []int  `json:"depths"`
}

type Target struct {
	Name string
	Call func(b []byte)
}

type oneByte struct{ r io.Reader }

func (o oneByte) Read(p []byte) (int, error) {
	if len(p) == 0 {
		return 0, nil
	}
	return o.r.Read(p[:1])
}

type failAfter struct {
	data []byte
	pos  int
}

func (f *failAfter) Read(p []byte) (int, error) {
	if f.pos >= len(f.data) {
		return 0, fmt.Errorf("boom")
	}
	n := copy(p, f.data[f.pos:])
	f.pos += n
	return n, nil
}

var somePaths []*gojson.Path

func init() {
	for _, p := range []string{"$", "$.a", "$.a.b", "$[0]", "$[*]", "$..a", "$.a[1].b", "$['a']", `$."a"`, "$[*].x", "$..x", "$.a..b[0]"} {
		if pt, err := gojson.CreatePath(p); err == nil {
			somePaths = append(somePaths, pt)
		}
	}
}

func targets(heavy bool) []Target {
	var ts []Target
	for _, d := range dtypes.All() {
		d := d
		ts = append(ts, Target{"Unmarshal|" + d.Name, func(b []byte) { _ = gojson.Unmarshal(b, d.New()) }})
		ts = append(ts, Target{"Decode|" + d.Name, func(b []byte) {
			dec := gojson.NewDecoder(bytes.NewReader(b))
			for i := 0; i < 3; i++ {
				if dec.Decode(d.New()) != nil {
					break
				}
			}
		}})
	}
	for _, dn := range []string{"iface", "wide", "rec", "map-iface", "slice-string", "string", "emb-ptr"} {
		var d dtypes.Dest
		for _, x := range dtypes.All() {
			if x.Name == dn {
				d = x
			}
		}
		ts = append(ts, Target{"Decode1|" + d.Name, func(b []byte) {
			dec := gojson.NewDecoder(oneByte{bytes.NewReader(b)})
			for i := 0; i < 3; i++ {
				if dec.Decode(d.New()) != nil {
					break
				}
			}
		}})
		ts = append(ts, Target{"DecodeFail|" + d.Name, func(b []byte) {
			dec := gojson.NewDecoder(&failAfter{data: b})
			_ = dec.Decode(d.New())
		}})
		ts = append(ts, Target{"UnmarshalNoEscape|" + d.Name, func(b []byte) { _ = gojson.UnmarshalNoEscape(b, d.New()) }})
		ts = append(ts, Target{"UnmarshalContext|" + d.Name, func(b []byte) { _ = gojson.UnmarshalContext(context.Background(), b, d.New()) }})
		ts = append(ts, Target{"UnmarshalFirstWin|" + d.Name, func(b []byte) {
			_ = gojson.UnmarshalWithOption(b, d.New(), gojson.DecodeFieldPriorityFirstWin())
		}})
		ts = append(ts, Target{"DecodeOpts|" + d.Name, func(b []byte) {
			dec := gojson.NewDecoder(bytes.NewReader(b))
			dec.UseNumber()
			dec.DisallowUnknownFields()
			_ = dec.Decode(d.New())
		}})
	}
	ts = append(ts,
		Target{"Valid", func(b []byte) { _ = gojson.Valid(b) }},
		Target{"Compact", func(b []byte) { var o bytes.Buffer; _ = gojson.Compact(&o, b) }},
		Target{"Indent", func(b []byte) { var o bytes.Buffer; _ = gojson.Indent(&o, b, ">", "  ") }},
		Target{"Indent0", func(b []byte) { var o bytes.Buffer; _ = gojson.Indent(&o, b, "", "") }},
		Target{"HTMLEscape", func(b []byte) { var o bytes.Buffer; gojson.HTMLEscape(&o, b) }},
		Target{"Token", func(b []byte) {
			dec := gojson.NewDecoder(bytes.NewReader(b))
			for i := 0; i < 64; i++ {
				if _, err := dec.Token(); err != nil {
					break
				}
				_ = dec.More()
			}
			_ = dec.InputOffset()
			_, _ = io.Copy(io.Discard, dec.Buffered())
		}},
		Target{"Token1", func(b []byte) {
			dec := gojson.NewDecoder(oneByte{bytes.NewReader(b)})
			for i := 0; i < 64; i++ {
				if _, err := dec.Token(); err != nil {
					break
				}
			}
		}},
		Target{"MoreDecode", func(b []byte) {
			dec := gojson.NewDecoder(bytes.NewReader(b))
			for i := 0; i < 4 && dec.More(); i++ {
				var v interface{}
				if dec.Decode(&v) != nil {
					break
				}
				_, _ = io.Copy(io.Discard, dec.Buffered())
			}
		}},
		Target{"PathExtract", func(b []byte) {
			for _, p := range somePaths {
				_, _ = p.Extract(b)
			}
		}},
		Target{"PathUnmarshal", func(b []byte) {
			for _, p := range somePaths {
				var v interface{}
				_ = p.Unmarshal(b, &v)
				var s []string
				_ = p.Unmarshal(b, &s)
			}
		}},
	)
	return ts
}

type CaseDesc struct {
	Part   string `json:"part"`
	Target string `json:"target"`
	Input  string `json:"input_b64,omitempty"`
	Text   string `json:"text"`
	Gen    string `json:"gen,omitempty"` // generator expression for huge inputs: "<unit>*<n>+<tail>"
}

func desc(part, target string, b []byte) CaseDesc {
	t := fmt.Sprintf("%q", b)
	if len(t) > 160 {
		t = t[:80] + "..." + t[len(t)-60:]
	}
	return CaseDesc{Part: part, Target: target, Input: base64.StdEncoding.EncodeToString(b), Text: t}
}

type runner struct {
	w   *wk.Worker
	tab *jt.Table
	ts  []Target
}

func (r *runner) family(b []byte) string {
	v := r.tab.Run(b)
	if v.Accept {
		return "valid"
	}
	return "invalid:" + jt.CoarseRoot(v)
}

func targetGroup(n string) string {
	i := strings.IndexByte(n, '|')
	if i < 0 {
		return n
	}
	return n[:i]
}

// exec runs every target on b.  In single-case mode each target is announced first so that a fatal
// error can be attributed.
func (r *runner) exec(part string, b []byte, gen string, idx int64) {
	single := r.w.Job.Only >= 0 || r.w.Job.Replay != nil
	for i := range r.ts {
		t := &r.ts[i]
		if single {
			d := desc(part, t.Name, nil)
			if gen != "" {
				d.Gen = gen
				d.Text = gen
			} else {
				d = desc(part, t.Name, b)
			}
			r.w.Begin(idx, func() interface{} { return d })
		}
		r.w.Count("calls", 1)
		r.w.Tick()
		if rec := wk.Guard(func() { t.Call(b) }); rec != nil {
			d := desc(part, t.Name, b)
			if gen != "" {
				d = CaseDesc{Part: part, Target: t.Name, Gen: gen, Text: gen}
			}
			fam := "huge"
			if gen == "" {
				fam = r.family(b)
			}
			r.w.DivFine(targetGroup(t.Name)+"|panic:"+wk.PanicClass(rec)+"|"+fam, t.Name+"|"+wk.PanicClass(rec)+"|"+fam, part != "B",
				fmt.Sprint(rec), d)
		}
	}
}

func build(gen string) []byte {
	// "<unit>*<n>+<tail>"
	var unit, tail string
	var n int
	i := strings.LastIndex(gen, "*")
	j := strings.LastIndex(gen, "+")
	unit = gen[:i]
	fmt.Sscanf(gen[i+1:j], "%d", &n)
	tail = gen[j+1:]
	var sb bytes.Buffer
	sb.Grow(len(unit)*n + len(tail))
	for k := 0; k < n; k++ {
		sb.WriteString(unit)
	}
	sb.WriteString(tail)
	return sb.Bytes()
}

func Run(job *wk.Job, w *wk.Worker) error {
	var p Params
	if err := json.Unmarshal(job.Params, &p); err != nil {
		return err
	}
	tab, err := jt.Load(p.Table)
	if err != nil {
		return err
	}
	r := &runner{w: w, tab: tab, ts: targets(false)}
	if job.Replay != nil {
		var c CaseDesc
		if err := json.Unmarshal(job.Replay, &c); err != nil {
			return err
		}
		var in []byte
		if c.Gen != "" {
			in = build(c.Gen)
		} else {
			in, _ = base64.StdEncoding.DecodeString(c.Input)
		}
		if c.Target != "*" && c.Target != "" {
			var keep []Target
			for _, t := range r.ts {
				if t.Name == c.Target {
					keep = append(keep, t)
				}
			}
			r.ts = keep
		}
		if strings.HasPrefix(c.Part, "P") {
			r.pathCase(c.Text, 0)
			return nil
		}
		r.exec(c.Part, in, c.Gen, 0)
		return nil
	}
	idx := int64(0)
	// part A: every byte-class string up to MaxLen
	tab.EachClassString(p.MaxLen, func(s []byte) {
		if w.Mine(idx) {
			in := append([]byte(nil), s...)
			w.Begin(idx, func() interface{} { return desc("A", "*", in) })
			if v := tab.Run(in); len(in) > 0 && (v.Accept || v.At >= len(in)-1) {
				w.Nontrivial()
			}
			r.exec("A", in, "", idx)
		}
		idx++
	})
	// part S: string literals over the item catalogue with every single-byte mutation, in three frames
	frames := []struct{ pre, post string }{{`"`, `"`}, {`{"`, `":1}`}, {`{"a":["`, `"]}`}}
	jt.EachItemString(p.StrItems, func(names []string, body string) {
		for _, f := range frames {
			if w.Mine(idx) {
				txt := []byte(f.pre + body + f.post)
				w.Begin(idx, func() interface{} { return desc("S", "*", txt) })
				w.Nontrivial()
				r.exec("S", txt, "", idx)
				lo, hi := len(f.pre)-1, len(f.pre)+len(body)+1
				for i := lo; i < hi; i++ {
					for _, mb := range jt.MutationBytes {
						if txt[i] != mb {
							m := append([]byte(nil), txt...)
							m[i] = mb
							r.exec("S", m, "", idx)
						}
					}
					r.exec("S", txt[:i], "", idx)
				}
			}
			idx++
		}
	})
	// part B0/B: generated valid texts: every prefix and a mutation at every position
	partB := func(part string, count int, seed int64) {
		for k := 0; k < count; k++ {
			if w.Mine(idx) {
				rng := rand.New(rand.NewSource(seed*1000003 + int64(k)))
				txt := jt.GenValid(tab, rng, 6+rng.Intn(40))
				if txt != nil {
					w.Begin(idx, func() interface{} { return desc(part, "*", txt) })
					w.Nontrivial()
					if w.WantSample() {
						w.Sample(map[string]interface{}{"part": part, "text": fmt.Sprintf("%q", txt), "prefixes": len(txt), "mutations": len(txt)})
					}
					r.exec(part, txt, "", idx)
					for i := 0; i < len(txt); i++ {
						r.exec(part, txt[:i], "", idx)
						m := append([]byte(nil), txt...)
						c := rng.Intn(len(tab.Classes))
						m[i] = tab.ClassByte[c][rng.Intn(len(tab.ClassByte[c]))]
						r.exec(part, m, "", idx)
					}
				}
			}
			idx++
		}
	}
	partB("B0", p.Random, 0)
	n := p.RandomSeeded
	if n == 0 {
		n = p.Random
	}
	partB("B", n, job.Seed+1)
	// part N: nesting around the limit and far beyond
	units := []struct{ open, close, leaf string }{{"[", "]", ""}, {`{"a":`, "}", "1"}, {`[{"a":`, "}]", "null"}, {"[ ", " ]", `"x"`}}
	for _, depth := range p.Depths {
		for _, u := range units {
			for _, closed := range []bool{true, false} {
				if w.Mine(idx) {
					gen := fmt.Sprintf("%s*%d+%s", u.open, depth, u.leaf)
					in := build(gen)
					if closed {
						in = append(in, bytes.Repeat([]byte(u.close), depth)...)
						gen += "+closers"
					}
					g := fmt.Sprintf("%s (depth %d, closed=%v, %d bytes)", gen, depth, closed, len(in))
					w.Begin(idx, func() interface{} {
						return CaseDesc{Part: "N", Target: "*", Gen: genExpr(u.open, depth, u.leaf, u.close, closed), Text: g}
					})
					w.Nontrivial()
					r.execHuge("N", in, genExpr(u.open, depth, u.leaf, u.close, closed), idx)
				}
				idx++
			}
		}
	}
	// part L: tokens placed at every offset around the stream buffer's boundaries (512, then 1024 after one doubling):
	// a token whose first, middle or last byte is the last data byte of a completely filled buffer, whole and truncated there
	toks := []string{`"\xef\xbc\x81"`, `"\xc3\xa9"`, `"\xe2\x82\xac"`, `"\xf0\x9f\x98\x80"`, `"\\n"`, `"\\u00e9"`, `"\\ud83d\\ude00"`, `"plain"`,
		`-12345.5e+3`, `true`, `null`, `{"k":1}`, `{"\xef\xbc\x81":[]}`, `[[]]`}
	for _, tk := range toks {
		tok, err := strconv.Unquote(`"` + strings.ReplaceAll(tk, `"`, `\"`) + `"`)
		if err != nil {
			return fmt.Errorf("part L token %q: %v", tk, err)
		}
		for _, edge := range []int{512, 1024} {
			for off := edge - 3 - len(tok); off <= edge+2; off++ {
				if off < 2 {
					continue
				}
				if w.Mine(idx) {
					doc := "[" + strings.Repeat(" ", off-1) + tok + "]"
					w.Begin(idx, func() interface{} { return desc("L", "*", []byte(doc)) })
					w.Nontrivial()
					r.exec("L", []byte(doc), "", idx)
					if edge-1 < len(doc) {
						r.exec("L", []byte(doc[:edge-1]), "", idx)
					}
					if edge < len(doc) {
						r.exec("L", []byte(doc[:edge]), "", idx)
					}
				}
				idx++
			}
		}
	}
	// part L2: strings with hundreds of invalid UTF-8 bytes (each is replaced by a three-byte U+FFFD in the stream window,
	// which outgrows the buffer), pure and mixed with valid text, at three offsets
	for _, n := range []int{90, 300, 600, 2100} {
		for _, unit := range []string{"\xff", "\xc0a", "\xed\xa0\x80", "ok\x80"} {
			for _, pre := range []int{0, 509} {
				if w.Mine(idx) {
					doc := strings.Repeat(" ", pre) + `["` + strings.Repeat(unit, n) + `",{"` + strings.Repeat(unit, n/3) + `":1}]`
					w.Begin(idx, func() interface{} { return desc("L2", "*", []byte(doc)) })
					w.Nontrivial()
					r.exec("L2", []byte(doc), "", idx)
				}
				idx++
			}
		}
	}
	// part P: path strings
	alpha := []string{"$", ".", "[", "]", "*", "'", "\"", "0", "1", "a", "b", "-", " "}
	var rec func(s string, depth int)
	rec = func(s string, depth int) {
		if w.Mine(idx) {
			ps := s
			w.Begin(idx, func() interface{} { return CaseDesc{Part: "P", Target: "CreatePath", Text: ps} })
			r.pathCase(ps, idx)
		}
		idx++
		if depth == p.PathLen {
			return
		}
		for _, a := range alpha {
			rec(s+a, depth+1)
		}
	}
	rec("", 0)
	return nil
}

func genExpr(open string, depth int, leaf, close string, closed bool) string {
	if closed {
		return fmt.Sprintf("%s*%d+%s|%s", open, depth, leaf, close)
	}
	return fmt.Sprintf("%s*%d+%s", open, depth, leaf)
}

// execHuge: like exec but the case is described by its generator expression.
func (r *runner) execHuge(part string, b []byte, gen string, idx int64) {
	single := r.w.Job.Only >= 0 || r.w.Job.Replay != nil
	for i := range r.ts {
		t := &r.ts[i]
		// per-destination fan-out is not needed at these sizes: one representative per entry point family
		switch targetGroup(t.Name) {
		case "Indent":
			continue // output is quadratic in the depth for a non-empty indent (also in encoding/json); Indent0 is used instead
		case "Indent0":
			if len(b) > 300000 {
				continue // time is quadratic in the depth (a loop over the depth per newline, as in encoding/json): not a hang
			}
		case "Unmarshal", "Decode":
			if !(strings.HasSuffix(t.Name, "|iface") || strings.HasSuffix(t.Name, "|rec") || strings.HasSuffix(t.Name, "|struct0") || strings.HasSuffix(t.Name, "|slice-slice") || strings.HasSuffix(t.Name, "|raw") || strings.HasSuffix(t.Name, "|jsonval")) {
				continue
			}
		case "Decode1", "DecodeFail", "UnmarshalNoEscape", "UnmarshalContext", "UnmarshalFirstWin", "DecodeOpts", "Token1":
			if len(b) > 3000000 || !(strings.HasSuffix(t.Name, "|iface") || strings.HasSuffix(t.Name, "|rec") || t.Name == "Token1") {
				continue
			}
		}
		if single {
			r.w.Begin(idx, func() interface{} { return CaseDesc{Part: part, Target: t.Name, Gen: gen, Text: gen} })
		}
		r.w.Count("calls", 1)
		r.w.Tick()
		if rec := wk.Guard(func() { t.Call(b) }); rec != nil {
			r.w.DivFine(targetGroup(t.Name)+"|panic:"+wk.PanicClass(rec)+"|deep-nesting", t.Name+"|"+wk.PanicClass(rec)+"|"+gen, true, fmt.Sprint(rec),
				CaseDesc{Part: part, Target: t.Name, Gen: gen, Text: gen})
		}
	}
}

var pathDocs = [][]byte{
	[]byte(`{"a":{"b":[1,{"x":2}],"a":3},"b":[{"a":1},{"a":[2]}],"0":5,"1":{"a":"s"}}`),
	[]byte(`[[1,2],{"a":[3]},"s",null]`),
	[]byte(`{"a":`),
	[]byte(`5`),
}

func (r *runner) pathCase(ps string, idx int64) {
	var pt *gojson.Path
	var err error
	r.w.Count("calls", 1)
	if rec := wk.Guard(func() { pt, err = gojson.CreatePath(ps) }); rec != nil {
		r.w.DivFine("CreatePath|panic:"+wk.PanicClass(rec), "CreatePath|"+wk.PanicClass(rec), true, fmt.Sprint(rec), CaseDesc{Part: "P", Target: "CreatePath", Text: ps})
		return
	}
	if err != nil || pt == nil {
		return
	}
	r.w.Nontrivial()
	for _, doc := range pathDocs {
		r.w.Count("calls", 3)
		if rec := wk.Guard(func() {
			_, _ = pt.Extract(doc)
			var v interface{}
			_ = pt.Unmarshal(doc, &v)
			var src interface{}
			if gojson.Unmarshal(doc, &src) == nil {
				var dst interface{}
				_ = pt.Get(src, &dst)
				var dsts []interface{}
				_ = pt.Get(src, &dsts)
			}
			_ = pt.PathString()
		}); rec != nil {
			r.w.DivFine("Path|panic:"+wk.PanicClass(rec), "Path|"+wk.PanicClass(rec)+"|"+pathShape(ps), true, fmt.Sprint(rec)+fmt.Sprintf(" (document %q)", doc),
				CaseDesc{Part: "P", Target: "Path", Text: ps})
		}
	}
}

func pathShape(ps string) string {
	var sb strings.Builder
	for _, c := range ps {
		switch {
		case c >= '0' && c <= '9':
			sb.WriteByte('n')
		case c >= 'a' && c <= 'z':
			sb.WriteByte('a')
		default:
			sb.WriteRune(c)
		}
	}
	return sb.String()
}
