// Package c09: stream decoding equals buffer decoding for every chunking of the input.
//
// Behaviours replayed: (destination, document, reader schedule).  A schedule is a list of cut
// positions (the reader delivers the pieces one Read at a time), a padding that moves a chosen
// document byte onto the decoder's internal 511/1023-byte refill boundary, or a reader failure at a
// byte position.  Yardsticks, as the property states them: Unmarshal on the same bytes for value
// and verdict; encoding/json's Decoder for More / InputOffset / Token.  Signatures name the
// JsonText automaton mode at the cut (i.e. which token the cut falls into, and where).
// A sample of the runs is recorded through the verif hooks and validated by TLC (StreamTrace.tla).
package c09

import (
	"bytes"
	"encoding/base64"
	stdjson "encoding/json"
	"encoding/json"
	"errors"
	"fmt"
	"io"
	"os"
	"reflect"
	"sort"
	"strings"

	gojson "github.com/goccy/go-json"

	"verifharness/jt"
	"verifharness/wk"
)

type Params struct {
	Table     string `json:"table"`
	TraceDir  string `json:"trace_dir"`  // where sampled hook traces are written (one file per shard)
	TraceEvery int64 `json:"trace_every"` // record every k-th case
	Level     int    `json:"level"`       // 1 quick, 2 thorough
}

// scripted reader ------------------------------------------------------------

type chunkReader struct {
	data   []byte
	cuts   []int // ascending positions where a Read ends
	pos    int
	ci     int
	eofWithData bool  // deliver io.EOF together with the final piece
	failAt int   // -1: never; otherwise after delivering data[:failAt] the reader fails
	failed bool
}

var errBoom = errors.New("scripted reader failure")

func (r *chunkReader) Read(p []byte) (int, error) {
	if len(p) == 0 {
		return 0, nil
	}
	limit := len(r.data)
	if r.failAt >= 0 && r.failAt < limit {
		limit = r.failAt
	}
	if r.pos >= limit {
		if r.failAt >= 0 && r.pos >= r.failAt {
			r.failed = true
			return 0, errBoom
		}
		return 0, io.EOF
	}
	end := limit
	for r.ci < len(r.cuts) && r.cuts[r.ci] <= r.pos {
		r.ci++
	}
	if r.ci < len(r.cuts) && r.cuts[r.ci] < end {
		end = r.cuts[r.ci]
	}
	n := copy(p, r.data[r.pos:end])
	r.pos += n
	if r.pos >= len(r.data) && r.eofWithData && r.failAt < 0 {
		return n, io.EOF
	}
	return n, nil
}

// destinations -----------------------------------------------------------------

type pair struct {
	A int    `json:"a"`
	B string `json:"b"`
}

type dest struct {
	name string
	mk   func() interface{}
	use  func(d *gojson.Decoder)
}

func dests() []dest {
	return []dest{
		{"iface", func() interface{} { return new(interface{}) }, nil},
		{"iface-number", func() interface{} { return new(interface{}) }, func(d *gojson.Decoder) { d.UseNumber() }},
		{"string", func() interface{} { return new(string) }, nil},
		{"float64", func() interface{} { return new(float64) }, nil},
		{"int", func() interface{} { return new(int) }, nil},
		{"bool", func() interface{} { return new(bool) }, nil},
		{"ptr-int", func() interface{} { return new(*int) }, nil},
		{"slice-iface", func() interface{} { return new([]interface{}) }, nil},
		{"slice-string", func() interface{} { return new([]string) }, nil},
		{"array2-int", func() interface{} { return new([2]int) }, nil},
		{"map-iface", func() interface{} { return new(map[string]interface{}) }, nil},
		{"map-string", func() interface{} { return new(map[string]string) }, nil},
		{"struct", func() interface{} { return new(pair) }, nil},
		{"raw", func() interface{} { return new(gojson.RawMessage) }, nil},
		{"bytes", func() interface{} { return new([]byte) }, nil},
		{"number", func() interface{} { return new(gojson.Number) }, nil},
	}
}

// documents -----------------------------------------------------------------

type docSpec struct {
	doc   string
	dests []string // nil = iface only... see docsFor
	tag   string
}

func scalarDocs() []docSpec {
	var out []docSpec
	add := func(tag string, ds []string, docs ...string) {
		for _, d := range docs {
			out = append(out, docSpec{doc: d, dests: ds, tag: tag})
		}
	}
	add("literal", []string{"iface", "bool", "ptr-int", "raw", "struct", "slice-iface", "map-iface", "string"}, "null", "true", "false", " null ", "\ttrue\n")
	add("number", []string{"iface", "iface-number", "float64", "int", "ptr-int", "raw", "number"}, "0", "-12", "7 ", "3.25", "1e2", "-0.5E-3", "12345678", "1234567890123", "-0", "1E+2")
	// strings from the item catalogue: single items and the pairs that interact (escapes next to each other)
	var strs []string
	for _, a := range jt.StringItems {
		strs = append(strs, `"`+a.Text+`"`)
	}
	inter := []string{"plain", "esc-n", "esc-bs", "u-latin", "u-high", "u-low", "u-pair", "u-pair-upper", "mb3", "u-nul"}
	for _, a := range inter {
		for _, b := range inter {
			strs = append(strs, `"`+itemText(a)+itemText(b)+`"`)
		}
	}
	strs = append(strs, `""`, `"abc"`, ` "a b" `, `"x`+itemText("u-pair")+`y`+itemText("esc-q")+`z"`, `"aGVsbG8="`)
	add("string", []string{"iface", "string", "raw", "bytes", "slice-iface"}, strs...)
	return out
}

func itemText(name string) string {
	for _, it := range jt.StringItems {
		if it.Name == name {
			return it.Text
		}
	}
	panic("no item " + name)
}

func containerDocs() []docSpec {
	var out []docSpec
	add := func(tag string, ds []string, docs ...string) {
		for _, d := range docs {
			out = append(out, docSpec{doc: d, dests: ds, tag: tag})
		}
	}
	add("array", []string{"iface", "slice-iface", "raw", "array2-int"}, "[]", "[ ]", "[1]", "[1,2]", "[1, 2 ,3]", "[[1],[2,[3]]]", "[1,2,3,4]")
	add("array-mixed", []string{"iface", "iface-number", "slice-iface", "raw"}, `[true,null,"a",1.5,{"k":[]}]`, `[ "x`+itemText("u-pair")+`" , -1e-2 , false ]`, `[[[[]]]]`, `[{},{"a":{}}]`)
	add("array-string", []string{"iface", "slice-string", "slice-iface"}, `["a","b"]`, `["`+itemText("esc-n")+`","`+itemText("u-latin")+`",""]`, `[ "`+itemText("u-high")+itemText("u-low")+`" ]`)
	add("object", []string{"iface", "map-iface", "raw", "struct"}, `{}`, `{ }`, `{"a":1}`, `{"a":1,"b":"x"}`, `{ "a" : 1 , "b" : "x" }`, `{"b":"y","a":2,"c":[1,{"d":null}]}`, `{"a":1,"a":2}`, `{"unknown":{"deep":[1,2,{"x":"`+itemText("esc-q")+`"}]},"a":5}`, `{"A":3,"B":"up"}`)
	add("object-string", []string{"iface", "map-string", "map-iface"}, `{"k":"v"}`, `{"`+itemText("u-latin")+`":"`+itemText("u-pair")+`"}`, `{"k`+itemText("esc-n")+`":"","":"e"}`, `{"`+itemText("mb3")+`":"`+itemText("mb4")+`"}`)
	return out
}

var invalidDocs = []string{
	"", " ", "nul", "nulx", "tru", "trux", "fals", "falsx", "nuxx", "-", "1.", "1e", "01", "1x", "[1,]", "[1 2]", "[", "[1", `{"a"}`, `{"a":}`, `{"a":1,}`,
	`{`, `{"a":1`, `"abc`, `"a\`, `"\x"`, `"\u12"`, `"\u12G4"`, `"\ud83d\ude0Z"`, "1 2x", "[1]]", `{"a":1}}`, "truefalse", "\"a\x01b\"", "1\x00",
}

// comparison -------------------------------------------------------------------

type streamResult struct {
	ok1      bool   // first Decode succeeded
	val      interface{}
	terminal string // result of the second Decode: "eof", "err", "value"
	panicked string
	readerErrSeen bool
}

func (a streamResult) verdict() bool { return a.ok1 && a.terminal == "eof" }

func sameResult(a, b streamResult) bool {
	if a.panicked != b.panicked || a.ok1 != b.ok1 || a.terminal != b.terminal {
		return false
	}
	if !a.ok1 {
		return true
	}
	return reflect.DeepEqual(a.val, b.val)
}

func runStream(d dest, r io.Reader) (res streamResult) {
	rec := wk.Guard(func() {
		dec := gojson.NewDecoder(r)
		if d.use != nil {
			d.use(dec)
		}
		v := d.mk()
		if err := dec.Decode(v); err != nil {
			res.terminal = "err"
			return
		}
		res.ok1 = true
		res.val = reflect.ValueOf(v).Elem().Interface()
		var x interface{}
		switch err := dec.Decode(&x); {
		case err == io.EOF:
			res.terminal = "eof"
		case err != nil:
			res.terminal = "err"
		default:
			res.terminal = "value"
		}
	})
	if rec != nil {
		res.panicked = wk.PanicClass(rec)
	}
	return
}

func runBuffer(d dest, doc []byte) (ok bool, val interface{}, panicked string) {
	rec := wk.Guard(func() {
		v := d.mk()
		var err error
		if d.name == "iface-number" {
			dec := stdUseNumberShim{}
			_ = dec
			err = gojson.Unmarshal(doc, v) // go-json has no UseNumber for Unmarshal; compare shapes below
		} else {
			err = gojson.Unmarshal(doc, v)
		}
		if err == nil {
			ok = true
			val = reflect.ValueOf(v).Elem().Interface()
		}
	})
	if rec != nil {
		panicked = wk.PanicClass(rec)
	}
	return
}

type stdUseNumberShim struct{}

// case description ---------------------------------------------------------------

type CaseDesc struct {
	Part  string `json:"part"`
	Dest  string `json:"dest"`
	Doc   string `json:"doc_b64"`
	Text  string `json:"text"`
	Cuts  []int  `json:"cuts,omitempty"`
	Pad   int    `json:"pad,omitempty"`    // leading spaces
	EOFWithData bool `json:"eof_with_data,omitempty"`
	FailAt int   `json:"fail_at"` // -1 none
}

func mkDesc(part, dst string, doc []byte, cuts []int, pad int, ewd bool, failAt int) CaseDesc {
	t := fmt.Sprintf("%q", doc)
	if len(t) > 120 {
		t = t[:60] + "..." + t[len(t)-50:]
	}
	return CaseDesc{Part: part, Dest: dst, Doc: base64.StdEncoding.EncodeToString(doc), Text: t, Cuts: cuts, Pad: pad, EOFWithData: ewd, FailAt: failAt}
}

type runner struct {
	w      *wk.Worker
	tab    *jt.Table
	p      Params
	dests  map[string]dest
	trace  *os.File
	tracing bool
	traced int64
}

// modeAt names the automaton mode before byte i of doc (which token the cut falls into).
func (r *runner) modeAt(doc []byte, i int) string {
	m, _ := r.tab.ModeBefore(doc, i)
	return m
}

func (r *runner) cutSig(doc []byte, cuts []int) string {
	set := map[string]bool{}
	for _, c := range cuts {
		set[r.modeAt(doc, c)] = true
	}
	var ms []string
	for m := range set {
		ms = append(ms, m)
	}
	sort.Strings(ms)
	return strings.Join(ms, "+")
}

func kindOf(a, b streamResult) string {
	switch {
	case b.panicked != "" && a.panicked == "":
		return "panic:" + b.panicked
	case a.verdict() && !b.verdict():
		if b.ok1 {
			return "trailing-diff"
		}
		return "rejects-when-chunked"
	case !a.verdict() && b.verdict():
		return "accepts-when-chunked"
	case a.ok1 && b.ok1:
		return "value-diff"
	default:
		return "verdict-detail-diff"
	}
}

func (r *runner) startTrace(data []byte) {
	doclen := len(data)
	hi := false
	for _, c := range data {
		if c >= 0x80 {
			hi = true
		}
	}
	if r.trace == nil || r.p.TraceEvery <= 0 {
		return
	}
	r.tracing = true
	fmt.Fprintf(r.trace, "{\"ev\":\"begin\",\"doclen\":%d,\"hi\":%v}\n", doclen, hi)
	gojson.VerifSetStreamTracer(func(e gojson.VerifStreamEvent) {
		fmt.Fprintf(r.trace, "{\"ev\":%q,\"pcur\":%d,\"plen\":%d,\"pblen\":%d,\"pbs\":%d,\"poff\":%d,\"pfil\":%v,\"n\":%d,\"eof\":%v,\"fail\":%v,\"cur\":%d,\"len\":%d,\"blen\":%d,\"bs\":%d,\"off\":%d,\"fil\":%v,\"sent\":%v}\n",
			e.Ev, e.PreCursor, e.PreLength, e.PreBufLen, e.PreBufSize, e.PreOffset, e.PreFilled, e.N, e.EOF, e.Fail, e.Cursor, e.Length, e.BufLen, e.BufSize, e.Offset, e.Filled, e.Sentinel)
	})
}

func (r *runner) stopTrace() {
	if r.tracing {
		gojson.VerifSetStreamTracer(nil)
		r.tracing = false
		r.traced++
	}
}

// one (dest, doc): whole-reader run vs buffer, then every schedule vs the whole-reader run
func (r *runner) checkDoc(part string, d dest, doc []byte, schedules [][]int, pads []int, counted bool, valid bool, traceThis bool) {
	w := r.w
	okB, valB, panB := runBuffer(d, doc)
	w.Count("calls", 1)
	whole := runStream(d, &chunkReader{data: doc, failAt: -1})
	w.Count("calls", 1)
	ref := r.tab.Run(doc)
	root := "valid"
	if !ref.Accept {
		root = "invalid:" + jt.CoarseRoot(ref)
	}
	// (1) stream (whole reader) vs buffer
	switch {
	case panB != "" || whole.panicked != "":
		w.DivFine("whole|"+d.name+"|panic", "whole|"+d.name+"|"+root, counted, "panic: buffer="+panB+" stream="+whole.panicked, mkDesc(part, d.name, doc, nil, 0, false, -1))
	case okB != whole.verdict():
		k := "stream-accepts"
		if okB {
			k = "stream-rejects"
		}
		if okB && whole.ok1 && whole.terminal != "eof" {
			k = "stream-trailing"
		}
		w.DivFine("whole|"+destGroup(d.name)+"|"+k+"|"+root, "whole|"+d.name+"|"+k+"|"+ref.Sig(), counted,
			fmt.Sprintf("Unmarshal ok=%v, Decoder ok=%v terminal=%s", okB, whole.ok1, whole.terminal), mkDesc(part, d.name, doc, nil, 0, false, -1))
	case okB && d.name != "iface-number" && !reflect.DeepEqual(valB, whole.val):
		w.DivFine("whole|"+destGroup(d.name)+"|value-diff|"+root, "whole|"+d.name+"|value-diff", counted,
			fmt.Sprintf("Unmarshal gives %#v, Decoder gives %#v", valB, whole.val), mkDesc(part, d.name, doc, nil, 0, false, -1))
	}
	// (2) every schedule vs the whole-reader stream result
	singleBad := map[int]bool{}
	try := func(cuts []int, pad int, ewd bool) (streamResult, []byte) {
		data := doc
		if pad > 0 {
			data = append(bytes.Repeat([]byte{' '}, pad), doc...)
		}
		sc := make([]int, len(cuts))
		for i, c := range cuts {
			sc[i] = c + pad
		}
		if traceThis {
			r.startTrace(data)
		}
		res := runStream(d, &chunkReader{data: data, cuts: sc, failAt: -1, eofWithData: ewd})
		r.stopTrace()
		w.Count("calls", 1)
		return res, data
	}
	report := func(cuts []int, pad int, ewd bool, res streamResult, kindPrefix string) {
		modes := r.cutSig(doc, cuts)
		k := kindOf(whole, res)
		w.DivFine("chunk|"+destGroup(d.name)+"|"+k+"|cut@"+coarseMode(modes)+"|"+root, kindPrefix+"|"+d.name+"|"+k+"|"+modes, counted,
			fmt.Sprintf("whole reader: ok=%v terminal=%s val=%#v; chunked: ok=%v terminal=%s val=%#v", whole.ok1, whole.terminal, whole.val, res.ok1, res.terminal, res.val),
			mkDesc(part, d.name, doc, cuts, pad, ewd, -1))
	}
	for _, cuts := range schedules {
		for _, ewd := range []bool{false, true} {
			if ewd && len(cuts) != 1 {
				continue
			}
			res, _ := try(cuts, 0, ewd)
			if sameResult(whole, res) {
				continue
			}
			if len(cuts) == 1 {
				singleBad[cuts[0]] = true
				report(cuts, 0, ewd, res, "cut1")
				continue
			}
			// multi-cut: attribute to a single cut when one of them reproduces it alone
			attributed := false
			for _, c := range cuts {
				if singleBad[c] {
					attributed = true
					break
				}
				r1, _ := try([]int{c}, 0, false)
				if !sameResult(whole, r1) {
					attributed = true
					break
				}
			}
			if attributed {
				w.Count("multi_cut_divergences_attributed_to_single_cut", 1)
				continue
			}
			report(cuts, 0, ewd, res, "cutN")
		}
	}
	// (3) paddings that move doc[k] onto the internal refill boundary
	for _, pad := range pads {
		res, _ := try(nil, pad, false)
		if sameResult(whole, res) {
			continue
		}
		boundary := 511
		if pad > 511 {
			boundary = 1023
		}
		k := boundary - pad
		if k >= 0 && k <= len(doc) && singleBad[k] {
			w.Count("boundary_divergences_attributed_to_single_cut", 1)
			continue
		}
		modes := "?"
		if k >= 0 && k <= len(doc) {
			modes = r.modeAt(doc, k)
		}
		kd := kindOf(whole, res)
		w.DivFine("boundary|"+destGroup(d.name)+"|"+kd+"|cut@"+coarseMode(modes)+"|"+root, fmt.Sprintf("pad%d|%s|%s|%s", boundary, d.name, kd, modes), counted,
			fmt.Sprintf("unpadded: ok=%v terminal=%s; padded by %d: ok=%v terminal=%s val=%#v", whole.ok1, whole.terminal, pad, res.ok1, res.terminal, res.val),
			mkDesc(part, d.name, doc, nil, pad, false, -1))
	}
}

func destGroup(n string) string {
	switch n {
	case "iface", "iface-number", "slice-iface", "map-iface":
		return "iface"
	case "raw":
		return "raw"
	}
	return "typed"
}

// coarseMode groups automaton modes into token positions.
func coarseMode(modes string) string {
	set := map[string]bool{}
	for _, m := range strings.Split(modes, "+") {
		switch {
		case len(m) == 2 && m[0] == 'U':
			set["in-u-escape"] = true
		case m == "SE":
			set["after-backslash"] = true
		case m == "S":
			set["in-string"] = true
		case len(m) == 2 && m[0] == 'N':
			set["in-number"] = true
		case len(m) == 2 && (m[0] == 'T' || m[0] == 'F' || m[0] == 'L'):
			set["in-literal"] = true
		case m == "REJ":
			set["after-reject"] = true
		default:
			set["between-tokens"] = true
		}
	}
	var out []string
	for k := range set {
		out = append(out, k)
	}
	sort.Strings(out)
	return strings.Join(out, "+")
}

func schedulesFor(n int, level int) [][]int {
	var out [][]int
	for c := 1; c < n; c++ {
		out = append(out, []int{c})
	}
	maxPairs := 14
	if level >= 2 {
		maxPairs = 40
	}
	if n <= maxPairs {
		for a := 1; a < n; a++ {
			for b := a + 1; b < n; b++ {
				out = append(out, []int{a, b})
			}
		}
	}
	for size := 1; size <= 17; size++ {
		var cuts []int
		for c := size; c < n; c += size {
			cuts = append(cuts, c)
		}
		if len(cuts) > 1 {
			out = append(out, cuts)
		}
	}
	return out
}

func padsFor(n int, level int) []int {
	var out []int
	for k := 0; k <= n && k <= 511; k++ {
		out = append(out, 511-k)
	}
	if level >= 2 {
		for k := 0; k <= n && k <= 500; k++ {
			out = append(out, 1023-k)
		}
	}
	return out
}

func Run(job *wk.Job, w *wk.Worker) error {
	var p Params
	if err := json.Unmarshal(job.Params, &p); err != nil {
		return err
	}
	tab, err := jt.Load(p.Table)
	if err != nil {
		return err
	}
	r := &runner{w: w, tab: tab, p: p, dests: map[string]dest{}}
	for _, d := range dests() {
		r.dests[d.name] = d
	}
	if p.TraceDir != "" && job.Only < 0 && job.Replay == nil {
		f, err := os.OpenFile(fmt.Sprintf("%s/trace-%d-%d.ndjson", p.TraceDir, job.Shard, job.Resume), os.O_CREATE|os.O_WRONLY|os.O_TRUNC, 0o644)
		if err != nil {
			return err
		}
		r.trace = f
		defer f.Close()
	}
	if job.Replay != nil {
		return r.replay(job.Replay)
	}
	if p.Level == 0 {
		p.Level = 1
		r.p.Level = 1
	}
	idx := int64(0)
	// part D: valid documents x destinations x schedules
	docs := append(scalarDocs(), containerDocs()...)
	for _, ds := range docs {
		for _, dn := range ds.dests {
			if w.Mine(idx) {
				d := r.dests[dn]
				doc := []byte(ds.doc)
				w.Begin(idx, func() interface{} { return mkDesc("D", dn, doc, nil, 0, false, -1) })
				w.Nontrivial()
				if w.WantSample() && len(doc) > 8 {
					w.Sample(map[string]interface{}{"part": "D", "dest": dn, "doc": ds.doc, "schedules": len(schedulesFor(len(doc), p.Level)), "boundary_paddings": len(padsFor(len(doc), p.Level))})
				}
				r.checkDoc("D", d, doc, schedulesFor(len(doc), p.Level), padsFor(len(doc), p.Level), true, true, p.TraceEvery > 0 && idx%p.TraceEvery == 0)
			}
			idx++
		}
	}
	// part L: long strings: an item placed so that each of its bytes meets the 511/1023 boundary, padding inside the string
	for _, it := range jt.StringItems {
		for _, dn := range []string{"iface", "string", "slice-string"} {
			for _, boundary := range []int{511, 1023} {
				if boundary == 1023 && p.Level < 2 {
					continue
				}
				for k := 0; k <= len(it.Text)+1; k++ {
					if w.Mine(idx) {
						pre := `"`
						if dn == "slice-string" {
							pre = `["`
						}
						fill := boundary - len(pre) - k
						body := strings.Repeat("x", fill) + it.Text + "tail"
						post := `"`
						if dn == "slice-string" {
							post = `"]`
						}
						doc := []byte(pre + body + post)
						d := r.dests[dn]
						w.Begin(idx, func() interface{} { return mkDesc("L", dn, doc, nil, 0, false, -1) })
						w.Nontrivial()
						r.checkLong(d, doc, boundary, it.Name, k, p.TraceEvery > 0 && idx%p.TraceEvery == 0)
					}
					idx++
				}
			}
		}
	}
	// part I: invalid documents (fixed list + single-byte mutations of the valid ones), a few destinations
	var inv [][]byte
	for _, s := range invalidDocs {
		inv = append(inv, []byte(s))
	}
	muts := []byte{'x', '"', '\\', ',', ']', '}', 0x00, '0'}
	for _, ds := range docs {
		if len(ds.doc) > 24 && p.Level < 2 {
			continue
		}
		for i := 0; i < len(ds.doc); i++ {
			for _, mb := range muts {
				if ds.doc[i] == mb {
					continue
				}
				m := []byte(ds.doc)
				m[i] = mb
				inv = append(inv, m)
			}
			inv = append(inv, append(append([]byte(nil), ds.doc[:i]...), ds.doc[i+1:]...))
			inv = append(inv, []byte(ds.doc[:i]))
		}
	}
	for _, doc := range inv {
		for _, dn := range []string{"iface", "struct", "slice-string"} {
			if w.Mine(idx) {
				d := r.dests[dn]
				dc := doc
				w.Begin(idx, func() interface{} { return mkDesc("I", dn, dc, nil, 0, false, -1) })
				var sch [][]int
				for c := 1; c < len(dc); c++ {
					sch = append(sch, []int{c})
				}
				sch = append(sch, allCuts(len(dc)))
				r.checkDoc("I", d, dc, sch, nil, true, false, false)
			}
			idx++
		}
	}
	// part F: reader failure at every byte position of the valid documents
	for _, ds := range docs {
		for _, dn := range ds.dests {
			if w.Mine(idx) {
				d := r.dests[dn]
				doc := []byte(ds.doc)
				w.Begin(idx, func() interface{} { return mkDesc("F", dn, doc, nil, 0, false, 0) })
				r.checkFaults(d, doc)
			}
			idx++
		}
	}
	// part M: concatenated documents; More / InputOffset / values against encoding/json's Decoder
	ms := multiStreams()
	for _, s := range ms {
		if w.Mine(idx) {
			doc := []byte(s)
			w.Begin(idx, func() interface{} { return mkDesc("M", "iface", doc, nil, 0, false, -1) })
			w.Nontrivial()
			r.checkMulti(doc)
		}
		idx++
	}
	// part T: Token() sequence against encoding/json's
	for _, ds := range docs {
		if w.Mine(idx) {
			doc := []byte(ds.doc)
			w.Begin(idx, func() interface{} { return mkDesc("T", "token", doc, nil, 0, false, -1) })
			r.checkTokens(doc)
		}
		idx++
	}
	w.Count("traced_runs", r.traced)
	return nil
}

func allCuts(n int) []int {
	var c []int
	for i := 1; i < n; i++ {
		c = append(c, i)
	}
	return c
}

func (r *runner) checkLong(d dest, doc []byte, boundary int, item string, k int, traceThis bool) {
	w := r.w
	okB, valB, _ := runBuffer(d, doc)
	if traceThis {
		r.startTrace(doc)
	}
	res := runStream(d, &chunkReader{data: doc, failAt: -1})
	r.stopTrace()
	w.Count("calls", 2)
	if res.panicked != "" || okB != res.verdict() || (okB && !reflect.DeepEqual(valB, res.val)) {
		kd := "value-diff"
		if res.panicked != "" {
			kd = "panic:" + res.panicked
		} else if okB != res.verdict() {
			kd = "verdict-diff"
		}
		w.DivFine("long|"+destGroup(d.name)+"|"+kd+"|"+itemGroup(item), fmt.Sprintf("long%d|%s|%s|%s@%d", boundary, d.name, kd, item, k), true,
			fmt.Sprintf("item %s with its byte %d on refill boundary %d: Unmarshal ok=%v, Decoder ok=%v terminal=%s", item, k, boundary, okB, res.ok1, res.terminal),
			mkDesc("L", d.name, doc, nil, 0, false, -1))
	}
}

func itemGroup(n string) string {
	switch {
	case strings.HasPrefix(n, "u-pair"), n == "u-high", n == "u-low":
		return "surrogate-escape"
	case strings.HasPrefix(n, "u-"):
		return "u-escape"
	case strings.HasPrefix(n, "esc-"):
		return "simple-escape"
	case strings.HasPrefix(n, "mb"):
		return "multibyte"
	}
	return n
}

func (r *runner) checkFaults(d dest, doc []byte) {
	w := r.w
	for p := 0; p < len(doc); p++ {
		for _, cutFirst := range []bool{false, true} {
			var cuts []int
			if cutFirst && p > 1 {
				cuts = []int{p / 2}
			} else if cutFirst {
				continue
			}
			rd := &chunkReader{data: doc, cuts: cuts, failAt: p}
			res := runStream(d, rd)
			w.Count("calls", 1)
			if res.panicked != "" {
				w.DivFine("fault|"+destGroup(d.name)+"|panic:"+res.panicked, "fault|"+d.name+"|panic|"+r.modeAt(doc, p), true, "panic with failing reader", mkDesc("F", d.name, doc, cuts, 0, false, p))
				continue
			}
			// the document was not delivered completely: a successfully decoded value is a violation
			if res.ok1 && rd.failed {
				// unless the bytes delivered so far already are a complete, self-delimited text
				pre := r.tab.Run(doc[:p])
				st := r.tab.Init()
				for _, c := range doc[:p] {
					r.tab.StepClass(&st, int(r.tab.ByteClass[c]))
				}
				if pre.Accept && r.tab.CompleteValue(&st) {
					continue
				}
				m := r.modeAt(doc, p)
				w.DivFine("fault|"+destGroup(d.name)+"|value-from-failed-read|at@"+coarseMode(m), "fault|"+d.name+"|"+m, true,
					fmt.Sprintf("reader failed after %d of %d bytes, Decode returned a value: %#v", p, len(doc), res.val), mkDesc("F", d.name, doc, cuts, 0, false, p))
			}
		}
	}
}

func multiStreams() []string {
	vals := []string{"1", "-2.5", `"a"`, `"` + itemText("u-pair") + `"`, `"` + itemText("esc-n") + itemText("u-latin") + `"`, "true", "null", "[1,2]", `{"a":1}`, "[]", `{"k":"` + itemText("esc-q") + `"}`}
	seps := []string{" ", "\n", "", "  \t"}
	var out []string
	for _, a := range vals {
		for _, b := range vals {
			for _, s := range seps {
				if s == "" && !(strings.HasSuffix(a, "]") || strings.HasSuffix(a, "}") || strings.HasSuffix(a, `"`)) {
					continue
				}
				out = append(out, a+s+b)
				out = append(out, a+s+b+s+"[3]\n")
			}
		}
	}
	return out
}

type step struct {
	More   bool
	Off    int64
	Ok     bool
	Val    interface{}
	EOF    bool
}

func (r *runner) checkMulti(doc []byte) {
	w := r.w
	std := func(rd io.Reader) []step {
		d := stdjson.NewDecoder(rd)
		var out []step
		for i := 0; i < 8; i++ {
			var s step
			s.More = d.More()
			var v interface{}
			err := d.Decode(&v)
			s.Off = d.InputOffset()
			s.Ok = err == nil
			s.EOF = err == io.EOF
			s.Val = v
			out = append(out, s)
			if err != nil {
				break
			}
		}
		return out
	}
	goj := func(rd io.Reader) (out []step, pan string) {
		rec := wk.Guard(func() {
			d := gojson.NewDecoder(rd)
			for i := 0; i < 8; i++ {
				var s step
				s.More = d.More()
				var v interface{}
				err := d.Decode(&v)
				s.Off = d.InputOffset()
				s.Ok = err == nil
				s.EOF = err == io.EOF
				s.Val = v
				out = append(out, s)
				if err != nil {
					break
				}
			}
		})
		if rec != nil {
			pan = wk.PanicClass(rec)
		}
		return
	}
	want := std(bytes.NewReader(doc))
	scheds := [][]int{nil}
	for size := 1; size <= 7; size += 2 {
		var cuts []int
		for c := size; c < len(doc); c += size {
			cuts = append(cuts, c)
		}
		scheds = append(scheds, cuts)
	}
	for _, cuts := range scheds {
		got, pan := goj(&chunkReader{data: doc, cuts: cuts, failAt: -1})
		w.Count("calls", int64(len(got)))
		if pan != "" {
			w.DivFine("multi|panic:"+pan, "multi|panic", true, "panic", mkDesc("M", "iface", doc, cuts, 0, false, -1))
			continue
		}
		aspect := ""
		for i := 0; i < len(want) && i < len(got); i++ {
			a, b := want[i], got[i]
			switch {
			case a.Ok != b.Ok || a.EOF != b.EOF:
				aspect = "sequence"
			case a.Ok && !reflect.DeepEqual(a.Val, b.Val):
				aspect = "value"
			case a.More != b.More:
				aspect = "more"
			case a.Ok && a.Off != b.Off:
				aspect = "input-offset"
			}
			if aspect != "" {
				break
			}
		}
		if aspect == "" && len(want) != len(got) {
			aspect = "sequence"
		}
		if aspect != "" {
			chunked := "whole"
			if cuts != nil {
				chunked = "chunked"
			}
			hasEsc := "plain"
			if bytes.Contains(doc, []byte(`\`)) {
				hasEsc = "escapes"
			}
			w.DivFine("multi|"+aspect+"|"+chunked+"|"+hasEsc, "multi|"+aspect+"|"+chunked+"|"+hasEsc, true,
				fmt.Sprintf("encoding/json: %+v; go-json: %+v", want, got), mkDesc("M", "iface", doc, cuts, 0, false, -1))
		}
	}
}

func (r *runner) checkTokens(doc []byte) {
	w := r.w
	stdToks := func() (out []interface{}, ok bool) {
		d := stdjson.NewDecoder(bytes.NewReader(doc))
		for i := 0; i < 200; i++ {
			t, err := d.Token()
			if err == io.EOF {
				return out, true
			}
			if err != nil {
				return out, false
			}
			out = append(out, t)
		}
		return out, false
	}
	want, ok := stdToks()
	if !ok {
		return
	}
	// third voice: the token kinds the specification (TokenStream.tla, through the exported table) assigns to the text
	if spec, acc := r.tab.TokenKinds(doc); acc {
		var kinds []string
		for _, t := range want {
			switch x := t.(type) {
			case stdjson.Delim:
				kinds = append(kinds, x.String())
			case string:
				kinds = append(kinds, "str")
			case float64, stdjson.Number:
				kinds = append(kinds, "num")
			case bool:
				kinds = append(kinds, fmt.Sprint(x))
			case nil:
				kinds = append(kinds, "null")
			}
		}
		if strings.Join(kinds, " ") != strings.Join(spec, " ") {
			w.DivFine("ORACLE|tokenstream", "ORACLE|tokenstream", true, fmt.Sprintf("specification %v; encoding/json %v", spec, kinds), mkDesc("T", "token", doc, nil, 0, false, -1))
			return
		}
		w.Count("token-sequences-agreeing-with-TokenStream", 1)
	}
	scheds := [][]int{nil, allCuts(len(doc))}
	for c := 1; c < len(doc); c++ {
		scheds = append(scheds, []int{c})
	}
	for _, cuts := range scheds {
		var got []interface{}
		var gerr error
		rec := wk.Guard(func() {
			d := gojson.NewDecoder(&chunkReader{data: doc, cuts: cuts, failAt: -1})
			for i := 0; i < 200; i++ {
				t, err := d.Token()
				if err != nil {
					gerr = err
					return
				}
				got = append(got, t)
			}
		})
		w.Count("calls", int64(len(got)+1))
		if rec != nil {
			w.DivFine("token|panic:"+wk.PanicClass(rec), "token|panic", true, fmt.Sprint(rec), mkDesc("T", "token", doc, cuts, 0, false, -1))
			continue
		}
		same := gerr == io.EOF && len(got) == len(want)
		if same {
			for i := range got {
				if fmt.Sprintf("%T:%v", got[i], got[i]) != fmt.Sprintf("%T:%v", want[i], want[i]) {
					same = false
					break
				}
			}
		}
		if !same {
			chunked := "whole"
			m := ""
			if len(cuts) == 1 {
				chunked = "cut1"
				m = coarseMode(r.modeAt(doc, cuts[0]))
			} else if cuts != nil {
				chunked = "cutAll"
			}
			w.DivFine("token|sequence-diff|"+chunked+"|"+m, "token|"+chunked+"|"+m, true,
				fmt.Sprintf("encoding/json tokens %v; go-json tokens %v (err=%v)", want, got, gerr), mkDesc("T", "token", doc, cuts, 0, false, -1))
		}
	}
}

func (r *runner) replay(raw json.RawMessage) error {
	var c CaseDesc
	if err := json.Unmarshal(raw, &c); err != nil {
		return err
	}
	doc, err := base64.StdEncoding.DecodeString(c.Doc)
	if err != nil {
		return err
	}
	r.w.Begin(0, func() interface{} { return c })
	switch c.Part {
	case "M":
		r.checkMulti(doc)
	case "T":
		r.checkTokens(doc)
	case "F":
		r.checkFaults(r.dests[c.Dest], doc)
	case "L":
		r.checkLong(r.dests[c.Dest], doc, 511, "replay", 0, false)
	default:
		var sch [][]int
		if c.Cuts != nil {
			sch = [][]int{c.Cuts}
		}
		var pads []int
		if c.Pad > 0 {
			pads = []int{c.Pad}
		}
		r.checkDoc(c.Part, r.dests[c.Dest], doc, sch, pads, false, true, false)
	}
	return nil
}
