// Package jtree is a minimal ordered JSON tree (objects keep member order and duplicates) used to
// derive documents from documents: mutations for C02/C07 and reductions for signatures.
package jtree

import (
	"bytes"
	"encoding/json"
	"fmt"
	"io"
	"strings"
)

type Node struct {
	Kind    string // "null","bool","num","str","arr","obj"
	Text    string // literal text for scalars (as it appears in JSON)
	Elems   []*Node
	Keys    []string // obj: raw key literals (with quotes)
}

func Parse(doc []byte) (*Node, error) {
	d := json.NewDecoder(bytes.NewReader(doc))
	d.UseNumber()
	n, err := parseValue(d)
	if err != nil {
		return nil, err
	}
	if _, err := d.Token(); err != io.EOF {
		return nil, fmt.Errorf("trailing data")
	}
	return n, nil
}

func parseValue(d *json.Decoder) (*Node, error) {
	t, err := d.Token()
	if err != nil {
		return nil, err
	}
	switch v := t.(type) {
	case nil:
		return &Node{Kind: "null", Text: "null"}, nil
	case bool:
		if v {
			return &Node{Kind: "bool", Text: "true"}, nil
		}
		return &Node{Kind: "bool", Text: "false"}, nil
	case json.Number:
		return &Node{Kind: "num", Text: string(v)}, nil
	case string:
		b, _ := json.Marshal(v)
		return &Node{Kind: "str", Text: string(b)}, nil
	case json.Delim:
		switch v {
		case '[':
			n := &Node{Kind: "arr"}
			for d.More() {
				e, err := parseValue(d)
				if err != nil {
					return nil, err
				}
				n.Elems = append(n.Elems, e)
			}
			_, err := d.Token()
			return n, err
		case '{':
			n := &Node{Kind: "obj"}
			for d.More() {
				kt, err := d.Token()
				if err != nil {
					return nil, err
				}
				kb, _ := json.Marshal(kt.(string))
				e, err := parseValue(d)
				if err != nil {
					return nil, err
				}
				n.Keys = append(n.Keys, string(kb))
				n.Elems = append(n.Elems, e)
			}
			_, err := d.Token()
			return n, err
		}
	}
	return nil, fmt.Errorf("unexpected token %v", t)
}

func (n *Node) write(sb *strings.Builder) {
	switch n.Kind {
	case "arr":
		sb.WriteByte('[')
		for i, e := range n.Elems {
			if i > 0 {
				sb.WriteByte(',')
			}
			e.write(sb)
		}
		sb.WriteByte(']')
	case "obj":
		sb.WriteByte('{')
		for i, e := range n.Elems {
			if i > 0 {
				sb.WriteByte(',')
			}
			sb.WriteString(n.Keys[i])
			sb.WriteByte(':')
			e.write(sb)
		}
		sb.WriteByte('}')
	default:
		sb.WriteString(n.Text)
	}
}

func (n *Node) String() string {
	var sb strings.Builder
	n.write(&sb)
	return sb.String()
}

func (n *Node) Clone() *Node {
	c := &Node{Kind: n.Kind, Text: n.Text, Keys: append([]string(nil), n.Keys...)}
	for _, e := range n.Elems {
		c.Elems = append(c.Elems, e.Clone())
	}
	return c
}

// Walk visits every node with a setter that replaces it in the (cloned) root.
func (n *Node) paths(prefix []int, out *[][]int) {
	*out = append(*out, append([]int(nil), prefix...))
	for i, e := range n.Elems {
		e.paths(append(prefix, i), out)
	}
}

func (n *Node) Paths() [][]int {
	var out [][]int
	n.paths(nil, &out)
	return out
}

func (n *Node) At(p []int) *Node {
	cur := n
	for _, i := range p {
		cur = cur.Elems[i]
	}
	return cur
}

// Replace returns a copy of the tree with the node at p replaced by r.
func (n *Node) Replace(p []int, r *Node) *Node {
	c := n.Clone()
	if len(p) == 0 {
		return r.Clone()
	}
	par := c.At(p[:len(p)-1])
	par.Elems[p[len(p)-1]] = r.Clone()
	return c
}

// Remove returns a copy with the node at p removed from its parent.
func (n *Node) Remove(p []int) *Node {
	if len(p) == 0 {
		return n.Clone()
	}
	c := n.Clone()
	par := c.At(p[:len(p)-1])
	i := p[len(p)-1]
	par.Elems = append(par.Elems[:i], par.Elems[i+1:]...)
	if par.Kind == "obj" {
		par.Keys = append(par.Keys[:i], par.Keys[i+1:]...)
	}
	return c
}

func Lit(kind, text string) *Node { return &Node{Kind: kind, Text: text} }

// Shape abstracts scalars to their kind (numbers keep a magnitude class).
func (n *Node) Shape() string {
	switch n.Kind {
	case "arr":
		var ps []string
		for _, e := range n.Elems {
			ps = append(ps, e.Shape())
		}
		return "[" + strings.Join(ps, ",") + "]"
	case "obj":
		var ps []string
		for i, e := range n.Elems {
			ps = append(ps, n.Keys[i]+":"+e.Shape())
		}
		return "{" + strings.Join(ps, ",") + "}"
	case "num":
		t := n.Text
		switch {
		case strings.ContainsAny(t, ".eE"):
			return "float"
		case len(strings.TrimPrefix(t, "-")) > 10:
			return "bigint"
		case strings.HasPrefix(t, "-"):
			return "negint"
		}
		return "int"
	case "str":
		if len(n.Text) > 12 {
			return "longstr"
		}
		return "str"
	}
	return n.Text
}
