// Package c08: encoding any acyclic value is safe; cyclic values give an error.
//
// Values of 90 recursive / interface-bearing struct shapes (every count of scalar fields before and
// after the recursive or interface member) and their holders are encoded at several nesting depths
// by the four interpreters, directly and through interface{}; the slot accesses recorded by the
// verif hooks are written as ndjson for validation by TLC (EncVMTrace.tla); the output must equal
// encoding/json's.  Marshalers that force garbage collection and grow the stack sit inside the
// values.  Cyclic values (through pointers, maps, slices, interfaces) must yield an error.
package c08

import (
	"bytes"
	"encoding/json"
	stdjson "encoding/json"
	"fmt"
	"os"
	"reflect"
	"runtime"
	"strings"

	gojson "github.com/goccy/go-json"

	"verifharness/wk"
)

type Params struct {
	TraceDir   string `json:"trace_dir"`
	Depths     []int  `json:"depths"`
	TraceDepth int    `json:"trace_depth"` // record slot traces for depths up to this
	TraceEvery int64  `json:"trace_every"`
}

type Case struct {
	Type    string `json:"type"`
	Depth   int    `json:"depth"`
	Reach   string `json:"reach"`
	Variant string `json:"variant"`
	Cycle   string `json:"cycle,omitempty"`
}

// a marshaler that allocates, forces GC and grows the stack while the interpreter holds raw pointers
type gcMarshaler struct{ N int }

func grow(n int) int {
	var pad [128]byte
	if n == 0 {
		return int(pad[0])
	}
	return grow(n-1) + int(pad[1])
}

func (g gcMarshaler) MarshalJSON() ([]byte, error) {
	_ = make([]byte, 1<<16)
	runtime.GC()
	_ = grow(200)
	return []byte(fmt.Sprintf(`{"gc":%d}`, g.N)), nil
}

type gcText struct{ S string }

func (g *gcText) MarshalText() ([]byte, error) {
	runtime.GC()
	_ = grow(100)
	return []byte("t:" + g.S), nil
}

// sub gives the depth of the value below member `name`: the type's primary recursive member (Next if it has one)
// carries the full depth, every other recursive member only one more level (the value stays linear in depth).
func sub(t reflect.Type, depth int, name string) int {
	if _, hasNext := t.FieldByName("Next"); hasNext && name != "Next" {
		if depth > 1 {
			return 0
		}
		return depth - 1
	}
	if _, hasP := t.FieldByName("P"); hasP && name == "M" {
		return 0
	}
	return depth - 1
}

// build constructs a value of recursive type t nested `depth` levels deep.
func build(t reflect.Type, depth int) reflect.Value {
	v := reflect.New(t).Elem()
	for i := 0; i < t.NumField(); i++ {
		f := v.Field(i)
		name := t.Field(i).Name
		switch {
		case f.Kind() == reflect.Int:
			f.SetInt(int64(i*7 + depth))
		case name == "Next":
			if depth > 0 {
				p := reflect.New(t)
				p.Elem().Set(build(t, depth-1))
				f.Set(p)
			}
		case name == "M" && f.Type().Elem().Kind() == reflect.Interface:
			m := map[string]interface{}{"k": []interface{}{1.5, "s", nil, map[string]interface{}{"n": true}}, "g": gcMarshaler{depth}}
			if depth > 0 {
				p := reflect.New(t)
				p.Elem().Set(build(t, sub(t, depth, "M")))
				m["deep"] = p.Interface()
			}
			f.Set(reflect.ValueOf(m))
		case name == "M":
			if depth > 0 {
				m := reflect.MakeMap(f.Type())
				p := reflect.New(t)
				p.Elem().Set(build(t, sub(t, depth, "M")))
				m.SetMapIndex(reflect.ValueOf("x"), p)
				m.SetMapIndex(reflect.ValueOf("nil"), reflect.Zero(f.Type().Elem()))
				f.Set(m)
			}
		case name == "I":
			switch {
			case depth == 0:
				f.Set(reflect.ValueOf(&gcText{"leaf"}))
			case depth%2 == 1:
				p := reflect.New(t)
				p.Elem().Set(build(t, sub(t, depth, "I")))
				f.Set(p)
			default:
				f.Set(reflect.ValueOf([]interface{}{build(t, sub(t, depth, "I")).Interface(), map[string]interface{}{"m": build(t, 0).Interface()}}))
			}
		case name == "S":
			if depth > 0 {
				s := reflect.MakeSlice(f.Type(), 2, 2)
				s.Index(0).Set(build(t, depth-1))
				s.Index(1).Set(build(t, 0))
				f.Set(s)
			}
		case name == "P":
			if depth > 0 {
				s := reflect.MakeSlice(f.Type(), 2, 2)
				p := reflect.New(t)
				p.Elem().Set(build(t, depth-1))
				s.Index(0).Set(p)
				f.Set(s)
			}
		}
	}
	return v
}

func holder(h, t reflect.Type, depth int) reflect.Value {
	v := reflect.New(h).Elem()
	p := reflect.New(t)
	p.Elem().Set(build(t, depth))
	v.Field(0).Set(p)
	for i := 1; i <= 4; i++ {
		v.Field(i).SetInt(int64(100 + i))
	}
	v.Field(5).SetString("tail")
	return v
}

func reach(v reflect.Value, how string) interface{} {
	switch how {
	case "direct":
		return v.Interface()
	case "ptr":
		p := reflect.New(v.Type())
		p.Elem().Set(v)
		return p.Interface()
	case "iface-slice":
		return []interface{}{v.Interface(), 7}
	case "iface-map":
		return map[string]interface{}{"v": v.Interface(), "w": []interface{}{v.Interface()}}
	}
	panic(how)
}

var variants = []string{"plain", "indent", "color", "color-indent"}

func encodeWith(variant string, val interface{}) ([]byte, error) {
	switch variant {
	case "plain":
		return gojson.Marshal(val)
	case "indent":
		return gojson.MarshalIndent(val, "", " ")
	case "color":
		return gojson.MarshalWithOption(val, gojson.Colorize(&gojson.ColorScheme{}))
	case "color-indent":
		return gojson.MarshalIndentWithOption(val, "", " ", gojson.Colorize(&gojson.ColorScheme{}))
	}
	panic(variant)
}

type runner struct {
	w     *wk.Worker
	trace *os.File
	p     Params
}

func (r *runner) check(c Case, val interface{}, traced bool, counted bool) {
	w := r.w
	if traced && r.trace != nil {
		fmt.Fprintf(r.trace, "{\"k\":\"b\",\"b\":0,\"i\":0,\"plen\":0}\n")
		gojson.VerifSetSlotTracer(func(e gojson.VerifSlotEvent) {
			if e.Kind == 'b' {
				fmt.Fprintf(r.trace, "{\"k\":\"b\",\"b\":0,\"i\":0,\"plen\":%d}\n", e.PLen)
				return
			}
			fmt.Fprintf(r.trace, "{\"k\":\"%c\",\"b\":%d,\"i\":%d,\"plen\":%d}\n", e.Kind, e.Base, e.Idx, e.PLen)
		})
	}
	var out []byte
	var err error
	w.Count("calls", 1)
	rec := wk.Guard(func() { out, err = encodeWith(c.Variant, val) })
	gojson.VerifSetSlotTracer(nil)
	if traced {
		w.Count("traced_encodings", 1)
	}
	fine := fmt.Sprintf("%s|%d|%s|%s", c.Type, c.Depth, c.Reach, c.Variant)
	shape := shapeClass(c.Type)
	if rec != nil {
		w.DivFine("vm|panic:"+wk.PanicClass(rec)+"|"+shape, fine, counted, fmt.Sprint(rec), c)
		return
	}
	var want []byte
	var serr error
	if strings.HasSuffix(c.Variant, "indent") {
		want, serr = stdjson.MarshalIndent(val, "", " ")
	} else {
		want, serr = stdjson.Marshal(val)
	}
	switch {
	case (err != nil) != (serr != nil):
		w.DivFine("vm|error-mismatch|"+shape, fine, counted, fmt.Sprintf("go-json err=%v, encoding/json err=%v", err, serr), c)
	case err == nil && !bytes.Equal(out, want):
		d := 0
		for d < len(out) && d < len(want) && out[d] == want[d] {
			d++
		}
		w.DivFine("vm|wrong-document|"+shape, fine, counted,
			fmt.Sprintf("outputs differ at byte %d of %d/%d: go-json ...%q, encoding/json ...%q", d, len(out), len(want), clip(out, d), clip(want, d)), c)
	}
}

func clip(b []byte, at int) []byte {
	lo, hi := at-20, at+40
	if lo < 0 {
		lo = 0
	}
	if hi > len(b) {
		hi = len(b)
	}
	return b[lo:hi]
}

// shapeClass: member kind + whether there are scalar fields before / after it
func shapeClass(name string) string {
	p := strings.Split(name, "_")
	if len(p) < 4 {
		return name
	}
	b, a := "no-fields-before", "no-fields-after"
	if p[2] != "b0" {
		b = "fields-before"
	}
	if p[3] != "a0" {
		a = "fields-after"
	}
	kind := p[0]
	return kind + ":" + p[1] + "," + b + "," + a
}

func (r *runner) cycles(counted bool) {
	w := r.w
	type node struct {
		V    int
		Next *node
		M    map[string]interface{}
		S    []interface{}
		I    interface{}
	}
	mk := map[string]func() interface{}{
		"pointer-self":        func() interface{} { n := &node{V: 1}; n.Next = n; return n },
		"pointer-2":           func() interface{} { a, b := &node{V: 1}, &node{V: 2}; a.Next, b.Next = b, a; return a },
		"map":                 func() interface{} { m := map[string]interface{}{"a": 1}; m["self"] = m; return m },
		"map-in-struct":       func() interface{} { n := &node{M: map[string]interface{}{}}; n.M["n"] = n; return n },
		"slice":               func() interface{} { s := []interface{}{1, nil}; s[1] = s; return s },
		"slice-in-struct":     func() interface{} { n := &node{S: []interface{}{nil}}; n.S[0] = n; return n },
		"interface":           func() interface{} { n := &node{}; n.I = n; return n },
		"interface-via-slice": func() interface{} { n := &node{}; n.I = []interface{}{map[string]interface{}{"back": n}}; return n },
	}
	for name, f := range mk {
		for _, variant := range variants {
			c := Case{Type: "cycle", Cycle: name, Variant: variant}
			var err error
			w.Count("calls", 1)
			w.Tick()
			rec := wk.Guard(func() { _, err = encodeWith(variant, f()) })
			switch {
			case rec != nil:
				w.DivFine("cycle|panic:"+wk.PanicClass(rec)+"|"+name, "cycle|"+name+"|"+variant, counted, fmt.Sprint(rec), c)
			case err == nil:
				w.DivFine("cycle|no-error|"+name, "cycle|"+name+"|"+variant, counted, "a cyclic value was encoded without an error", c)
			}
		}
	}
}

// afterFailure: an encode that FAILS while nested deep (a cycle, an error from a marshaler) must leave nothing behind:
// the same nodes, repaired into an acyclic chain longer than the cycle-detection threshold (1000 frames), must
// then encode exactly as encoding/json does - on every interpreter.
type failNode struct {
	V    int         `json:"v"`
	F    *failing    `json:"f,omitempty"`
	Next *failNode   `json:"next,omitempty"`
	I    interface{} `json:"i,omitempty"`
}

type failing struct{}

func (f *failing) MarshalJSON() ([]byte, error) { return nil, fmt.Errorf("refuses") }

func (r *runner) afterFailure(counted bool) {
	w := r.w
	const n = 1150
	for _, through := range []string{"pointer", "interface"} {
		for _, how := range []string{"cycle", "marshaler-error"} {
			for _, variant := range variants {
				nodes := make([]*failNode, n)
				for i := range nodes {
					nodes[i] = &failNode{V: i}
				}
				link := func(i int, to *failNode) {
					if through == "pointer" {
						nodes[i].Next = to
					} else {
						nodes[i].I = to
					}
				}
				for i := 0; i+1 < n; i++ {
					link(i, nodes[i+1])
				}
				if how == "cycle" {
					link(n-1, nodes[0])
				} else {
					nodes[n-1].F = &failing{}
				}
				c := Case{Type: "after-failure", Cycle: how + "-through-" + through, Variant: variant}
				var err error
				w.Count("calls", 3)
				w.Tick()
				if rec := wk.Guard(func() { _, err = encodeWith(variant, nodes[0]) }); rec != nil {
					w.DivFine("after-failure|panic:"+wk.PanicClass(rec)+"|"+c.Cycle, c.Cycle+"|"+variant, counted, fmt.Sprint(rec), c)
					continue
				}
				if err == nil {
					w.DivFine("after-failure|first-call-succeeds|"+c.Cycle, c.Cycle+"|"+variant, counted, "the failing value was encoded without an error", c)
					continue
				}
				// repair
				if how == "cycle" {
					link(n-1, nil)
				} else {
					nodes[n-1].F = nil
				}
				var want []byte
				if variant == "indent" || variant == "color-indent" {
					want, _ = stdjson.MarshalIndent(nodes[0], "", " ")
				} else {
					want, _ = stdjson.Marshal(nodes[0])
				}
				var got []byte
				if rec := wk.Guard(func() { got, err = encodeWith(variant, nodes[0]) }); rec != nil {
					w.DivFine("after-failure|panic:"+wk.PanicClass(rec)+"|"+c.Cycle, c.Cycle+"|"+variant, counted, fmt.Sprint(rec), c)
					continue
				}
				if err != nil || !bytes.Equal(got, want) {
					w.DivFine("after-failure|repaired-value-not-encoded|"+c.Cycle, c.Cycle+"|"+variant, counted,
						fmt.Sprintf("after the failed call the repaired acyclic chain of %d nodes gives err=%v, %d bytes (encoding/json: %d bytes)", n, err, len(got), len(want)), c)
				}
			}
		}
	}
}

func Run(job *wk.Job, w *wk.Worker) error {
	var p Params
	if err := json.Unmarshal(job.Params, &p); err != nil {
		return err
	}
	r := &runner{w: w, p: p}
	w.CheckEvery = 200
	if p.TraceDir != "" && job.Only < 0 && job.Replay == nil {
		f, err := os.OpenFile(fmt.Sprintf("%s/slots-%d-%d.ndjson", p.TraceDir, job.Shard, job.Resume), os.O_CREATE|os.O_WRONLY|os.O_TRUNC, 0o644)
		if err != nil {
			return err
		}
		r.trace = f
		defer f.Close()
	}
	byName := map[string]int{}
	for i, rt := range recTypes {
		byName[rt.Name] = i
	}
	one := func(c Case, traced, counted bool) {
		if c.Type == "cycle" || c.Type == "stack-value" || c.Type == "shared-deep" {
			return
		}
		holderCase := strings.HasPrefix(c.Type, "H_")
		rt := recTypes[byName["R_"+c.Type[2:]]]
		var v reflect.Value
		if holderCase {
			v = holder(rt.H, rt.T, c.Depth)
		} else {
			v = build(rt.T, c.Depth)
		}
		r.check(c, reach(v, c.Reach), traced, counted)
	}
	if job.Replay != nil {
		var c Case
		if err := json.Unmarshal(job.Replay, &c); err != nil {
			return err
		}
		w.Begin(0, func() interface{} { return c })
		if c.Type == "cycle" {
			r.cycles(false)
		} else if c.Type == "after-failure" {
			r.afterFailure(false)
		} else if c.Type == "stack-value" {
			r.stackValues(false)
		} else if c.Type == "shared-deep" {
			r.sharedDeep(false)
		} else {
			one(c, false, false)
		}
		return nil
	}
	idx := int64(0)
	for _, rt := range recTypes {
		for _, prefix := range []string{"R_", "H_"} {
			name := prefix + rt.Name[2:]
			for _, depth := range p.Depths {
				if w.Mine(idx) {
					c0 := Case{Type: name, Depth: depth}
					w.Begin(idx, func() interface{} { return c0 })
					w.Nontrivial()
					if w.WantSample() && depth == 2 && prefix == "H_" {
						v := holder(rt.H, rt.T, depth)
						b, _ := stdjson.Marshal(v.Interface())
						s := string(b)
						if len(s) > 300 {
							s = s[:300] + "..."
						}
						w.Sample(map[string]interface{}{"type": name, "go_type": rt.H.String(), "depth": depth, "document": s})
					}
					for _, how := range []string{"direct", "ptr", "iface-slice", "iface-map"} {
						if depth > 100 && how == "iface-map" {
							continue
						}
						for _, variant := range variants {
							w.Tick()
							traced := r.trace != nil && depth <= p.TraceDepth && (p.TraceEvery <= 1 || idx%p.TraceEvery == 0)
							one(Case{Type: name, Depth: depth, Reach: how, Variant: variant}, traced, true)
						}
					}
				}
				idx++
			}
		}
	}
	if w.Mine(idx) {
		w.Begin(idx, func() interface{} { return Case{Type: "cycle"} })
		w.Nontrivial()
		r.cycles(true)
	}
	idx++
	if w.Mine(idx) {
		w.Begin(idx, func() interface{} { return Case{Type: "after-failure"} })
		w.Nontrivial()
		r.afterFailure(true)
	}
	idx++
	if w.Mine(idx) {
		w.Begin(idx, func() interface{} { return Case{Type: "stack-value"} })
		w.Nontrivial()
		r.stackValues(true)
	}
	idx++
	if w.Mine(idx) {
		w.Begin(idx, func() interface{} { return Case{Type: "shared-deep"} })
		w.Nontrivial()
		r.sharedDeep(true)
	}
	return nil
}
