package c08

// Part "stack-value": values that live in the CALLER'S FRAME.
//
// The interpreters hold the value as a uintptr in ctx.Ptrs, which the runtime does not adjust when it moves a goroutine
// stack.  The public entry points are therefore safe only because their argument escapes to the heap.  Here every entry
// point is called, from a fresh goroutine (small stack), on the address of a local variable that nothing else lets escape;
// the first member's MarshalJSON grows the stack (the runtime moves it) and then lets short-lived goroutines recycle the
// released stack memory, filling it with 0xAB.  The output must still be encoding/json's.  (MarshalNoEscape is excluded:
// not letting the value escape is its documented contract.)

import (
	"bytes"
	"context"
	stdjson "encoding/json"
	"fmt"
	"runtime"
	"runtime/debug"
	"strconv"
	"sync"

	gojson "github.com/goccy/go-json"

	"verifharness/wk"
)

type stackGrower struct{ N int64 }

var (
	stackDepth    int
	stackScribble bool
	stackSink     byte
)

//go:noinline
func stackGrow(n int) byte {
	var pad [512]byte
	for i := range pad {
		pad[i] = byte(n + i)
	}
	if n > 0 {
		return stackGrow(n-1) + pad[n%len(pad)]
	}
	return pad[0]
}

//go:noinline
func stackFill(n int) byte {
	var junk [256]byte
	for i := range junk {
		junk[i] = 0xAB
	}
	if n > 0 {
		return stackFill(n-1) ^ junk[n%len(junk)]
	}
	return junk[0]
}

func (g stackGrower) MarshalJSON() ([]byte, error) {
	stackSink += stackGrow(stackDepth)
	if stackScribble {
		var wg sync.WaitGroup
		for i := 0; i < 64; i++ {
			wg.Add(1)
			go func() {
				defer wg.Done()
				stackSink ^= stackFill(400)
			}()
		}
		wg.Wait()
	}
	return strconv.AppendInt(nil, g.N, 10), nil
}

// scalars only after the callback member: a stale read shows as a wrong number, not as a wild pointer
type stackPayload struct {
	A stackGrower
	B int64
	C int64
	D uint32
	E int64
	P int64 `json:"p,omitempty"`
	F float64
	G bool
	H uint8
	I int16 `json:"i,string"`
}

func stackValue() stackPayload {
	return stackPayload{A: stackGrower{N: 1}, B: 1111111111, C: -2222222222, D: 333333, E: 4444444444444, P: 55555, F: 6.5, G: true, H: 77, I: -888}
}

// one function per entry point, calling it directly so that the compiler's escape analysis alone decides where x lives

//go:noinline
func svMarshal() ([]byte, error) { x := stackValue(); return gojson.Marshal(&x) }

//go:noinline
func svMarshalValue() ([]byte, error) { x := stackValue(); return gojson.Marshal(x) }

//go:noinline
func svMarshalIndent() ([]byte, error) { x := stackValue(); return gojson.MarshalIndent(&x, "", " ") }

//go:noinline
func svMarshalIndentValue() ([]byte, error) { x := stackValue(); return gojson.MarshalIndent(x, "", " ") }

//go:noinline
func svMarshalWithOption() ([]byte, error) {
	x := stackValue()
	return gojson.MarshalWithOption(&x, gojson.UnorderedMap())
}

//go:noinline
func svMarshalColor() ([]byte, error) {
	x := stackValue()
	return gojson.MarshalWithOption(&x, gojson.Colorize(&gojson.ColorScheme{}))
}

//go:noinline
func svMarshalIndentWithOption() ([]byte, error) {
	x := stackValue()
	return gojson.MarshalIndentWithOption(&x, "", " ", gojson.UnorderedMap())
}

//go:noinline
func svMarshalIndentColor() ([]byte, error) {
	x := stackValue()
	return gojson.MarshalIndentWithOption(&x, "", " ", gojson.Colorize(&gojson.ColorScheme{}))
}

//go:noinline
func svMarshalContext() ([]byte, error) {
	x := stackValue()
	return gojson.MarshalContext(context.Background(), &x)
}

//go:noinline
func svEncoder() ([]byte, error) {
	x := stackValue()
	var buf bytes.Buffer
	err := gojson.NewEncoder(&buf).Encode(&x)
	return bytes.TrimSuffix(buf.Bytes(), []byte("\n")), err
}

//go:noinline
func svEncoderIndent() ([]byte, error) {
	x := stackValue()
	var buf bytes.Buffer
	enc := gojson.NewEncoder(&buf)
	enc.SetIndent("", " ")
	err := enc.Encode(&x)
	return bytes.TrimSuffix(buf.Bytes(), []byte("\n")), err
}

//go:noinline
func svEncoderContext() ([]byte, error) {
	x := stackValue()
	var buf bytes.Buffer
	err := gojson.NewEncoder(&buf).EncodeContext(context.Background(), &x)
	return bytes.TrimSuffix(buf.Bytes(), []byte("\n")), err
}

var stackEntries = []struct {
	name   string
	indent bool
	fn     func() ([]byte, error)
}{
	{"Marshal", false, svMarshal},
	{"Marshal-by-value", false, svMarshalValue},
	{"MarshalIndent", true, svMarshalIndent},
	{"MarshalIndent-by-value", true, svMarshalIndentValue},
	{"MarshalWithOption", false, svMarshalWithOption},
	{"MarshalWithOption-color", false, svMarshalColor},
	{"MarshalIndentWithOption", true, svMarshalIndentWithOption},
	{"MarshalIndentWithOption-color", true, svMarshalIndentColor},
	{"MarshalContext", false, svMarshalContext},
	{"Encoder.Encode", false, svEncoder},
	{"Encoder.Encode-indent", true, svEncoderIndent},
	{"Encoder.EncodeContext", false, svEncoderContext},
}

func (r *runner) stackValues(counted bool) {
	w := r.w
	defer runtime.GOMAXPROCS(runtime.GOMAXPROCS(1)) // the released stack block is recycled by the goroutines started in the callback
	defer debug.SetGCPercent(debug.SetGCPercent(-1))
	y := stackValue()
	wantIndent, _ := stdjson.MarshalIndent(&y, "", " ")
	wantCompact, _ := stdjson.Marshal(&y)
	for _, scribble := range []bool{false, true} {
		for _, e := range stackEntries {
			for _, depth := range []int{0, 40, 400} {
				stackDepth, stackScribble = depth, scribble
				c := Case{Type: "stack-value", Variant: e.name, Depth: depth}
				var out []byte
				var err error
				var rec interface{}
				w.Count("calls", 1)
				w.Tick()
				done := make(chan struct{})
				go func() { // a goroutine of its own: the stack starts small
					defer close(done)
					rec = wk.Guard(func() { out, err = e.fn() })
				}()
				<-done
				exp := wantCompact
				if e.indent {
					exp = wantIndent
				}
				fine := fmt.Sprintf("stack-value|%s|%d|%v", e.name, depth, scribble)
				switch {
				case rec != nil:
					w.DivFine("stack|panic:"+wk.PanicClass(rec)+"|"+e.name, fine, counted, fmt.Sprint(rec), c)
				case err != nil:
					w.DivFine("stack|error|"+e.name, fine, counted, err.Error(), c)
				case !bytes.Equal(out, exp):
					d := 0
					for d < len(out) && d < len(exp) && out[d] == exp[d] {
						d++
					}
					w.DivFine("stack|wrong-document|"+e.name, fine, counted,
						fmt.Sprintf("a value in the caller's frame, stack grown by %d frames in a MarshalJSON callback (released memory recycled: %v): go-json %q, encoding/json %q",
							depth, scribble, clip(out, d), clip(exp, d)), c)
				}
			}
		}
	}
}
