package c08

// Part "shared-deep": an ACYCLIC value in which one node is reached twice (a DAG), below the depth at which the encoder
// starts looking for cycles (1000 nested recursive frames).  Sharing is not a cycle: the result must be encoding/json's.
// The shared node carries a nil / typed-nil / non-nil interface member, a nil or non-nil map and slice: an entry that a
// nil member leaves behind in the list of pointers being visited makes the second visit look like a cycle.

import (
	"bytes"
	stdjson "encoding/json"
	"fmt"

	"verifharness/wk"
)

type dagNode struct {
	V     int                    `json:"v"`
	I     interface{}            `json:"i"`
	M     map[string]interface{} `json:"m"`
	S     []interface{}          `json:"s"`
	Next  *dagNode               `json:"next,omitempty"`
	Other *dagNode               `json:"other,omitempty"`
}

func (r *runner) sharedDeep(counted bool) {
	w := r.w
	var typedNil *dagNode
	shapes := []struct {
		name string
		mk   func() *dagNode
	}{
		{"nil-interface", func() *dagNode { return &dagNode{V: 7} }},
		{"typed-nil-interface", func() *dagNode { return &dagNode{V: 7, I: typedNil} }},
		{"scalar-interface", func() *dagNode { return &dagNode{V: 7, I: 5} }},
		{"struct-interface", func() *dagNode { return &dagNode{V: 7, I: &dagNode{V: 8}} }},
		{"empty-map-and-slice", func() *dagNode { return &dagNode{V: 7, M: map[string]interface{}{}, S: []interface{}{}} }},
		{"map-and-slice", func() *dagNode {
			return &dagNode{V: 7, M: map[string]interface{}{"a": nil, "b": 1}, S: []interface{}{nil, 2}}
		}},
	}
	for _, sh := range shapes {
		for _, depth := range []int{3, 995, 1005, 1200} {
			for _, via := range []string{"two-pointers", "pointer-and-interface", "slice-twice"} {
				for _, variant := range variants {
					shared := sh.mk()
					var head *dagNode
					switch via {
					case "two-pointers":
						head = &dagNode{V: -1, Next: shared, Other: shared}
					case "pointer-and-interface":
						head = &dagNode{V: -1, Next: shared, I: shared}
					default:
						head = &dagNode{V: -1, S: []interface{}{shared, shared}}
					}
					for i := 0; i < depth; i++ {
						head = &dagNode{V: i, I: 1, Next: head}
					}
					c := Case{Type: "shared-deep", Cycle: sh.name + "-" + via, Depth: depth, Variant: variant}
					var got []byte
					var err error
					w.Count("calls", 1)
					w.Tick()
					fine := fmt.Sprintf("shared-deep|%s|%s|%d|%s", sh.name, via, depth, variant)
					if rec := wk.Guard(func() { got, err = encodeWith(variant, head) }); rec != nil {
						w.DivFine("shared|panic:"+wk.PanicClass(rec)+"|"+sh.name, fine, counted, fmt.Sprint(rec), c)
						continue
					}
					var want []byte
					var serr error
					if variant == "indent" || variant == "color-indent" {
						want, serr = stdjson.MarshalIndent(head, "", " ")
					} else {
						want, serr = stdjson.Marshal(head)
					}
					band := "deeper-than-1000-frames"
					if depth < 1000 {
						band = "shallower-than-1000-frames"
					}
					switch {
					case serr != nil:
						// encoding/json itself refuses (it does not at these depths): nothing to compare
					case err != nil:
						w.DivFine("shared|error-for-acyclic-value|"+sh.name+"|"+band, fine, counted,
							fmt.Sprintf("a node reached twice (%s) under %d nested frames: %v; encoding/json encodes it (%d bytes)", via, depth, err, len(want)), c)
					case !bytes.Equal(got, want):
						w.DivFine("shared|wrong-document|"+sh.name+"|"+band, fine, counted,
							fmt.Sprintf("a node reached twice (%s) under %d nested frames: %d bytes, encoding/json %d bytes", via, depth, len(got), len(want)), c)
					}
				}
			}
		}
	}
}
