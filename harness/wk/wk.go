// Package wk is the worker side of the crash-isolating supervisor protocol.
//
// A worker enumerates a deterministic, globally indexed case space, executes the
// cases of its shard, and reports divergences (with a signature) plus a summary
// as ndjson on stdout.  Before each case it stores the case index in a small
// shared file so that the supervisor knows which case killed or hung the process.
package wk

import (
	"bufio"
	"encoding/binary"
	"encoding/json"
	"fmt"
	"os"
	"runtime/debug"
	"sort"
	"strings"
	"syscall"
)

// Job is what the supervisor hands to a worker (as a JSON file).
type Job struct {
	Prop    string          `json:"prop"`
	Tier    string          `json:"tier"`
	Seed    int64           `json:"seed"`
	Shard   int64           `json:"shard"`  // this worker handles idx % Shards == Shard
	Shards  int64           `json:"shards"`
	Resume  int64           `json:"resume"` // skip every idx < Resume
	Only    int64           `json:"only"`   // if >= 0 run just this index
	Until   int64           `json:"until"`  // if > 0 skip every idx > Until (window re-runs of the supervisor)
	Skip    []int64         `json:"skip"`   // indices that killed an earlier incarnation of this shard
	CurFile string          `json:"cur_file"`
	Params  json.RawMessage `json:"params"`
	Replay  json.RawMessage `json:"replay"` // a single case description to execute (replay mode)
}

type sigStat struct {
	Count    int64             `json:"count"`
	Counted  bool              `json:"counted"` // deterministic part: count is comparable between runs
	Examples []json.RawMessage `json:"examples"`
	Details  []string          `json:"details"`
	Fine     map[string]int64  `json:"fine,omitempty"` // fine-grained signature -> count (extent of the finding)
}

// Worker carries the per-process reporting state.
type Worker struct {
	Job      *Job
	out      *bufio.Writer
	cur      []byte
	sigs     map[string]*sigStat
	evals    int64
	nontriv  int64
	counters map[string]int64
	samples  []json.RawMessage
	curIdx   int64
	tick     uint64
	skip     map[int64]bool
	sinceCk  int64
	CheckEvery int64
	curDesc  func() interface{}
	MaxEx    int
}

func LoadJob(path string) (*Job, error) {
	b, err := os.ReadFile(path)
	if err != nil {
		return nil, err
	}
	j := &Job{Only: -1, Shards: 1}
	if err := json.Unmarshal(b, j); err != nil {
		return nil, err
	}
	if j.Shards <= 0 {
		j.Shards = 1
	}
	return j, nil
}

func New(job *Job) *Worker {
	w := &Worker{Job: job, out: bufio.NewWriterSize(os.Stdout, 1<<16), sigs: map[string]*sigStat{},
		counters: map[string]int64{}, MaxEx: 3, skip: map[int64]bool{}, CheckEvery: 20000}
	for _, i := range job.Skip {
		w.skip[i] = true
	}
	if job.CurFile != "" {
		f, err := os.OpenFile(job.CurFile, os.O_RDWR|os.O_CREATE, 0o644)
		if err == nil {
			_ = f.Truncate(16)
			m, err := syscall.Mmap(int(f.Fd()), 0, 16, syscall.PROT_READ|syscall.PROT_WRITE, syscall.MAP_SHARED)
			if err == nil {
				w.cur = m
				binary.LittleEndian.PutUint64(w.cur[0:8], ^uint64(0))
			}
			f.Close()
		}
	}
	debug.SetPanicOnFault(true)
	return w
}

// Mine reports whether this worker has to execute case idx.
func (w *Worker) Mine(idx int64) bool {
	j := w.Job
	if j.Only >= 0 {
		return idx == j.Only
	}
	if idx < j.Resume || (len(w.skip) > 0 && w.skip[idx]) {
		return false
	}
	if j.Until > 0 && idx > j.Until {
		return false
	}
	return idx%j.Shards == j.Shard
}

// Done reports whether enumeration can stop early (single-case mode, case passed).
func (w *Worker) Done(idx int64) bool { return w.Job.Only >= 0 && idx > w.Job.Only }

// Begin marks the start of case idx.  desc lazily describes the case (JSON-able).
func (w *Worker) Begin(idx int64, desc func() interface{}) {
	if w.sinceCk >= w.CheckEvery && w.Job.Only < 0 {
		// checkpoint: everything before idx is reported; a crash later resumes from idx
		w.summary(idx, false)
		w.sinceCk = 0
	}
	w.sinceCk++
	w.curIdx = idx
	w.curDesc = desc
	w.evals++
	if w.cur != nil {
		binary.LittleEndian.PutUint64(w.cur[0:8], uint64(idx))
	}
	if w.Job.Only >= 0 {
		// single-case mode: print the description first so that a crash still leaves it behind
		w.emit(map[string]interface{}{"k": "case", "idx": idx, "case": desc()})
		w.out.Flush()
	}
}

// Tick tells the supervisor that the current case is making progress (long cases with many calls).
func (w *Worker) Tick() {
	if w.cur != nil {
		w.tick++
		binary.LittleEndian.PutUint64(w.cur[8:16], w.tick)
	}
}

// Calls counts library calls (several per case).
func (w *Worker) Count(name string, n int64) { w.counters[name] += n }

// Nontrivial counts the current case as distinct and non-trivial by the property's rule.
func (w *Worker) Nontrivial() { w.nontriv++ }

// Sample keeps a few complete case records for the evidence file.
func (w *Worker) Sample(v interface{}) {
	if len(w.samples) < 4 {
		b, _ := json.Marshal(v)
		w.samples = append(w.samples, b)
	}
}
func (w *Worker) WantSample() bool { return len(w.samples) < 4 }

// Div records a divergence of the real code from the property under signature sig.
// counted marks divergences from deterministic exhaustive parts.
func (w *Worker) Div(sig string, counted bool, detail string) {
	s := w.sigs[sig]
	if s == nil {
		s = &sigStat{Counted: counted}
		w.sigs[sig] = s
	}
	s.Count++
	if len(s.Examples) < w.MaxEx {
		var d interface{}
		if w.curDesc != nil {
			d = w.curDesc()
		}
		b, _ := json.Marshal(d)
		s.Examples = append(s.Examples, b)
		s.Details = append(s.Details, detail)
	}
}

// DivFine records a divergence under a coarse (root-cause) signature and a fine-grained one whose
// per-run count is compared with the recorded extent of the finding.
func (w *Worker) DivFine(sig, fine string, counted bool, detail string, desc interface{}) {
	w.DivCase(sig, counted, detail, desc)
	if !counted {
		return
	}
	s := w.sigs[sig]
	s.Counted = true
	if s.Fine == nil {
		s.Fine = map[string]int64{}
	}
	s.Fine[fine]++
}

// DivCase is Div with an explicit case description (one enumerated case may fan out
// into several library calls, each of which is replayable on its own).
func (w *Worker) DivCase(sig string, counted bool, detail string, desc interface{}) {
	old := w.curDesc
	w.curDesc = func() interface{} { return desc }
	w.Div(sig, counted, detail)
	w.curDesc = old
}

// Guard runs fn, converting a panic into a divergence with the given signature prefix.
// It returns the recovered value (nil when fn returned normally).
func Guard(fn func()) (rec interface{}) {
	defer func() {
		if r := recover(); r != nil {
			rec = r
		}
	}()
	fn()
	return nil
}

// PanicClass maps a recovered panic to a short stable class name.
func PanicClass(r interface{}) string {
	s := fmt.Sprint(r)
	switch {
	case strings.Contains(s, "index out of range"):
		return "index-out-of-range"
	case strings.Contains(s, "slice bounds out of range"):
		return "slice-bounds"
	case strings.Contains(s, "nil pointer dereference"), strings.Contains(s, "invalid memory address"):
		return "nil-deref"
	case strings.Contains(s, "unexpected fault address"):
		return "fault"
	case strings.Contains(s, "nil map"):
		return "nil-map"
	case strings.Contains(s, "makeslice"), strings.Contains(s, "len out of range"):
		return "makeslice"
	case strings.Contains(s, "reflect"):
		return "reflect"
	default:
		if len(s) > 40 {
			s = s[:40]
		}
		return "other:" + s
	}
}

func (w *Worker) emit(v interface{}) {
	b, err := json.Marshal(v)
	if err != nil {
		b, _ = json.Marshal(map[string]interface{}{"k": "error", "msg": err.Error()})
	}
	w.out.Write(b)
	w.out.WriteByte('\n')
}

// Note emits a free-form observation (not a divergence).
func (w *Worker) Note(key string, v interface{}) {
	w.emit(map[string]interface{}{"k": "note", "key": key, "v": v})
}

// Finish writes the final summary line.
func (w *Worker) Finish() {
	w.summary(-1, true)
	w.out.Flush()
	if w.cur != nil {
		binary.LittleEndian.PutUint64(w.cur[0:8], ^uint64(0)-1) // finished marker
	}
}

func (w *Worker) summary(next int64, final bool) {
	keys := make([]string, 0, len(w.sigs))
	for k := range w.sigs {
		keys = append(keys, k)
	}
	sort.Strings(keys)
	sigs := map[string]*sigStat{}
	for _, k := range keys {
		sigs[k] = w.sigs[k]
	}
	w.emit(map[string]interface{}{"k": "sum", "evaluations": w.evals, "nontrivial": w.nontriv,
		"counters": w.counters, "sigs": sigs, "samples": w.samples, "next": next, "final": final})
	w.out.Flush()
	w.evals, w.nontriv = 0, 0
	w.counters = map[string]int64{}
	w.sigs = map[string]*sigStat{}
	w.samples = nil
}
