// Package c20: JSON Path extraction is a pure, correct function of path and document.
//
// Path strings, their membership in the reference grammar and the expected sub-documents for four
// documents are emitted by TLC from specs/PathEval.tla.  Every string goes to CreatePath; paths of
// the reference language must be accepted and evaluate to the reference result (Extract, and
// Path.Unmarshal on the same parts); every accepted path is then used in histories on ONE Path
// object (successful, non-matching and failing calls in every order) whose every result must equal
// that of a fresh Path.
package c20

import (
	"bytes"
	stdjson "encoding/json"
	"encoding/json"
	"fmt"
	"os"
	"reflect"
	"strings"

	gojson "github.com/goccy/go-json"

	"verifharness/wk"
)

type Params struct {
	Cases   string `json:"cases"`
	HistLen int    `json:"hist_len"`
}

type pathCase struct {
	Path    string     `json:"path"`
	Accept  bool       `json:"accept"`
	Results [][]string `json:"results"`
}

type Case struct {
	Part    string   `json:"part"`
	Path    string   `json:"path"`
	Doc     string   `json:"doc,omitempty"`
	History []string `json:"history,omitempty"`
	Accept  *bool    `json:"reference_accepts,omitempty"` // part P: does the documented grammar accept the text
	Want    []string `json:"reference_selection,omitempty"`
	HasWant bool     `json:"has_reference_selection,omitempty"`
}

func pCase(pc pathCase, doc string, want []string, has bool) Case {
	a := pc.Accept
	return Case{Part: "P", Path: pc.Path, Doc: doc, Accept: &a, Want: want, HasWant: has}
}

func compact(b []byte) string {
	var o bytes.Buffer
	if stdjson.Compact(&o, b) != nil {
		return "!" + string(b)
	}
	return o.String()
}

func extract(p *gojson.Path, doc string) (out []string, err error, pan string) {
	rec := wk.Guard(func() {
		var parts [][]byte
		parts, err = p.Extract([]byte(doc))
		for _, x := range parts {
			out = append(out, compact(x))
		}
	})
	if rec != nil {
		pan = wk.PanicClass(rec)
	}
	return
}

// selector kinds of a path string (for signatures): c child, q quoted child, r recursive, i index, a all
func selKinds(p string) string {
	var sb strings.Builder
	for i := 0; i < len(p); i++ {
		switch {
		case p[i] == '.' && i+1 < len(p) && p[i+1] == '.':
			sb.WriteByte('r')
			i++
		case p[i] == '.' && i+1 < len(p) && p[i+1] == '"':
			sb.WriteByte('q')
		case p[i] == '.':
			sb.WriteByte('c')
		case p[i] == '[' && i+1 < len(p) && p[i+1] == '*':
			sb.WriteByte('a')
		case p[i] == '[' && i+1 < len(p) && p[i+1] == '\'':
			sb.WriteByte('q')
		case p[i] == '[':
			sb.WriteByte('i')
		}
	}
	if sb.Len() == 0 {
		return "root"
	}
	return sb.String()
}

func sameList(a, b []string) bool {
	if len(a) != len(b) {
		return false
	}
	for i := range a {
		if a[i] != b[i] {
			return false
		}
	}
	return true
}

type runner struct {
	w    *wk.Worker
	docs []string
}

// malformedClass names the first thing that is wrong with a path text the reference grammar rejects.
func malformedClass(p string) string {
	if p == "" || p[0] != '$' {
		return "no-root"
	}
	i := 1
	for i < len(p) {
		switch p[i] {
		case '.':
			i++
			if i < len(p) && p[i] == '.' {
				i++
			}
			if i >= len(p) {
				return "trailing-dot"
			}
			if p[i] == '"' {
				j := i + 1
				for j < len(p) && p[j] != '"' {
					j++
				}
				if j >= len(p) {
					return "unclosed-double-quote"
				}
				if j == i+1 {
					return "empty-quoted-name"
				}
				i = j + 1
				continue
			}
			j := i
			for j < len(p) && (p[j] == 'a' || p[j] == 'b' || (p[j] >= '0' && p[j] <= '9')) {
				j++
			}
			if j == i {
				return "empty-name-after-dot"
			}
			i = j
		case '[':
			i++
			if i >= len(p) {
				return "unclosed-bracket"
			}
			switch {
			case p[i] == '*':
				if i+1 >= len(p) {
					return "unclosed-bracket"
				}
				if p[i+1] != ']' {
					return "junk-after-wildcard"
				}
				i += 2
			case p[i] == '\'':
				j := i + 1
				for j < len(p) && p[j] != '\'' {
					j++
				}
				if j >= len(p) {
					return "unclosed-single-quote"
				}
				if j == i+1 {
					return "empty-quoted-name"
				}
				if j+1 >= len(p) {
					return "unclosed-bracket-after-quoted-name"
				}
				if p[j+1] != ']' {
					return "junk-after-quoted-name"
				}
				i = j + 2
			case p[i] >= '0' && p[i] <= '9':
				j := i
				for j < len(p) && p[j] >= '0' && p[j] <= '9' {
					j++
				}
				if j-i > 1 && p[i] == '0' {
					return "index-with-leading-zero"
				}
				if j >= len(p) {
					return "unclosed-bracket"
				}
				if p[j] != ']' {
					return "junk-in-index"
				}
				i = j + 1
			case p[i] == ']':
				return "empty-brackets"
			default:
				return "junk-in-brackets"
			}
		default:
			return "junk-between-selectors"
		}
	}
	return "other"
}

const keyEsc = "\\" + "u00"

// escapeKeyStarts spells the first character of every member name of a compact document as an escape.
func escapeKeyStarts(doc string) string {
	var sb strings.Builder
	for i := 0; i < len(doc); i++ {
		if doc[i] != '"' {
			sb.WriteByte(doc[i])
			continue
		}
		// a string literal doc[i..j], honouring backslash escapes
		j := i + 1
		for j < len(doc) && doc[j] != '"' {
			if doc[j] == '\\' {
				j++
			}
			j++
		}
		if j >= len(doc) {
			sb.WriteString(doc[i:])
			break
		}
		isKey := j+1 < len(doc) && doc[j+1] == ':' && (i == 0 || doc[i-1] == '{' || doc[i-1] == ',')
		if isKey && j > i+1 && doc[i+1] != '\\' {
			sb.WriteByte('"')
			fmt.Fprintf(&sb, "%s%02x", keyEsc, doc[i+1])
			sb.WriteString(doc[i+2 : j+1])
		} else {
			sb.WriteString(doc[i : j+1])
		}
		i = j
	}
	return sb.String()
}

func unescapeKeyStarts(s string) string {
	for _, c := range "ab01" {
		s = strings.ReplaceAll(s, fmt.Sprintf("\"%s%02x", keyEsc, c), "\""+string(c))
	}
	return s
}

func (r *runner) checkPath(pc pathCase, counted bool) (*gojson.Path, bool) {
	w := r.w
	var p *gojson.Path
	var err error
	w.Count("calls", 1)
	if rec := wk.Guard(func() { p, err = gojson.CreatePath(pc.Path) }); rec != nil {
		w.DivFine("create|panic:"+wk.PanicClass(rec), "create|"+pc.Path, counted, fmt.Sprint(rec), pCase(pc, "", nil, false))
		return nil, false
	}
	if err != nil {
		if pc.Accept {
			w.DivFine("create|rejects-reference-path|"+selKinds(pc.Path), "create|"+pc.Path, counted, "CreatePath: "+err.Error(), pCase(pc, "", nil, false))
		}
		return nil, false
	}
	if !pc.Accept {
		// the property: malformed path text is rejected with an error
		w.Count("accepted_outside_reference_language", 1)
		w.DivFine("create|accepts-malformed-path|"+malformedClass(pc.Path), "create|"+pc.Path, counted, "CreatePath accepts a text outside the documented grammar", pCase(pc, "", nil, false))
		return p, false
	}
	// every document is also offered in a second spelling: the first character of each member name as a \uXXXX escape
	// (the same document; the selection must be the same)
	ndocs := len(r.docs)
	for dj := 0; dj < 2*ndocs; dj++ {
		di := dj % ndocs
		doc := r.docs[di]
		spelled := ""
		if dj >= ndocs {
			doc = escapeKeyStarts(doc)
			if doc == r.docs[di] {
				continue
			}
			spelled = "|escaped-member-names"
		}
		w.Count("calls", 2)
		got, gerr, pan := extract(p, doc)
		if spelled != "" {
			for k := range got {
				got[k] = unescapeKeyStarts(got[k])
			}
		}
		want := pc.Results[di]
		c := pCase(pc, doc, want, true)
		switch {
		case pan != "":
			w.DivFine("extract|panic:"+pan+"|"+selKinds(pc.Path)+spelled, "extract|"+pc.Path+"|"+fmt.Sprint(di), counted, "panic", c)
			continue
		case len(want) == 0:
			if gerr == nil && len(got) != 0 {
				w.DivFine("extract|selects-where-reference-selects-nothing|"+selKinds(pc.Path)+spelled, "extract|"+pc.Path+"|"+fmt.Sprint(di), counted, fmt.Sprintf("got %v", got), c)
			}
		case gerr != nil:
			w.DivFine("extract|error-where-reference-selects|"+selKinds(pc.Path)+spelled, "extract|"+pc.Path+"|"+fmt.Sprint(di), counted, fmt.Sprintf("error %v; reference %v", gerr, want), c)
		case !sameList(got, want):
			w.DivFine("extract|different-selection|"+selKinds(pc.Path)+spelled, "extract|"+pc.Path+"|"+fmt.Sprint(di), counted, fmt.Sprintf("got %v; reference %v", got, want), c)
		}
		// Path.Unmarshal decodes the same parts
		if gerr == nil && pan == "" {
			var v interface{}
			var uerr error
			if rec := wk.Guard(func() { uerr = p.Unmarshal([]byte(doc), &v) }); rec != nil {
				w.DivFine("unmarshal|panic:"+wk.PanicClass(rec)+"|"+selKinds(pc.Path)+spelled, "unmarshal|"+pc.Path+"|"+fmt.Sprint(di), counted, fmt.Sprint(rec), c)
				continue
			}
			if uerr == nil {
				var wantV []interface{}
				for _, g := range got {
					var x interface{}
					_ = stdjson.Unmarshal([]byte(g), &x)
					wantV = append(wantV, x)
				}
				gv, _ := v.([]interface{})
				if len(gv) != len(wantV) || (len(gv) > 0 && !reflect.DeepEqual(gv, wantV)) {
					w.DivFine("unmarshal|differs-from-extract|"+selKinds(pc.Path)+spelled, "unmarshal|"+pc.Path+"|"+fmt.Sprint(di), counted, fmt.Sprintf("Unmarshal %v; Extract %v", v, got), c)
				}
			}
		}
	}
	return p, true
}

var extraDocs = []string{`{"a":`, `5`, `{"a":{"a":1,"b":[2,{"a":"x\"`}

func (r *runner) histories(path string, histLen int, counted bool) {
	w := r.w
	pool := append(append([]string(nil), r.docs...), extraDocs...)
	fresh := func(doc string) ([]string, bool, string) {
		p, err := gojson.CreatePath(path)
		if err != nil {
			return nil, false, ""
		}
		out, e, pan := extract(p, doc)
		return out, e == nil, pan
	}
	idxs := make([]int, histLen)
	var rec func(k int)
	rec = func(k int) {
		if k == histLen {
			p, err := gojson.CreatePath(path)
			if err != nil {
				return
			}
			var hist []string
			failed := false
			for step, di := range idxs {
				doc := pool[di]
				hist = append(hist, doc)
				w.Count("calls", 2)
				got, gerr, pan := extract(p, doc)
				want, wok, wpan := fresh(doc)
				if pan != wpan || (gerr == nil) != wok || (wok && !sameList(got, want)) {
					kind := "after-successful-calls"
					if failed {
						kind = "after-a-failed-call"
					}
					w.DivFine("history|"+kind+"|"+selKinds(path), fmt.Sprintf("history|%s|%v", path, idxs[:step+1]), counted,
						fmt.Sprintf("call %d on a reused Path: got %v (err=%v); a fresh Path gives %v (ok=%v)", step+1, got, gerr, want, wok),
						Case{Part: "H", Path: path, History: append([]string(nil), hist...)})
					return
				}
				if gerr != nil {
					failed = true
				}
			}
			return
		}
		for i := range pool {
			idxs[k] = i
			rec(k + 1)
		}
	}
	rec(0)
}

func Run(job *wk.Job, w *wk.Worker) error {
	var p Params
	if err := json.Unmarshal(job.Params, &p); err != nil {
		return err
	}
	r := &runner{w: w}
	if job.Replay != nil {
		var c Case
		if err := json.Unmarshal(job.Replay, &c); err != nil {
			return err
		}
		w.Begin(0, func() interface{} { return c })
		var pt *gojson.Path
		var err error
		if rec := wk.Guard(func() { pt, err = gojson.CreatePath(c.Path) }); rec != nil {
			w.DivCase("create|panic:"+wk.PanicClass(rec), false, fmt.Sprint(rec), c)
			return nil
		}
		if c.Accept != nil {
			switch {
			case err == nil && !*c.Accept:
				w.DivCase("create|accepts-malformed-path|"+malformedClass(c.Path), false, "CreatePath accepts a text outside the documented grammar", c)
				return nil
			case err != nil && *c.Accept:
				w.DivCase("create|rejects-reference-path", false, "CreatePath: "+err.Error(), c)
				return nil
			case err != nil:
				return nil
			}
			if c.HasWant {
				got, gerr, pan := extract(pt, c.Doc)
				if pan != "" || (gerr != nil && len(c.Want) > 0) || (gerr == nil && !sameList(got, c.Want)) {
					w.DivCase("extract|differs-from-reference", false, fmt.Sprintf("got %v (err %v, panic %q); reference %v", got, gerr, pan, c.Want), c)
				}
				return nil
			}
		}
		if err != nil {
			w.DivCase("create|rejects", false, err.Error(), c)
			return nil
		}
		docs := c.History
		if len(docs) == 0 {
			docs = []string{c.Doc}
		}
		for i, d := range docs {
			got, gerr, pan := extract(pt, d)
			fp, _ := gojson.CreatePath(c.Path)
			want, werr, wpan := extract(fp, d)
			if pan != wpan || (gerr == nil) != (werr == nil) || !sameList(got, want) {
				w.DivCase("history|replay", false, fmt.Sprintf("call %d: reused %v (%v), fresh %v (%v)", i+1, got, gerr, want, werr), c)
			}
			fmt.Fprintf(os.Stderr, "call %d: %v err=%v\n", i+1, got, gerr)
		}
		return nil
	}
	data, err := os.ReadFile(p.Cases)
	if err != nil {
		return err
	}
	lines := bytes.Split(data, []byte("\n"))
	// first line: the documents
	if err := json.Unmarshal(lines[0], &r.docs); err != nil {
		return err
	}
	idx := int64(0)
	for _, line := range lines[1:] {
		if len(line) == 0 {
			continue
		}
		if w.Mine(idx) {
			var pc pathCase
			if err := json.Unmarshal(line, &pc); err != nil {
				return err
			}
			w.Begin(idx, func() interface{} { return Case{Part: "P", Path: pc.Path} })
			pt, inRef := r.checkPath(pc, true)
			if pt != nil {
				w.Nontrivial()
				if w.WantSample() && inRef && len(pc.Path) >= 5 {
					w.Sample(map[string]interface{}{"path": pc.Path, "reference_results_per_document": pc.Results})
				}
				r.histories(pc.Path, p.HistLen, true)
			}
		}
		idx++
	}
	return nil
}
