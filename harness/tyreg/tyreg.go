// Package tyreg is the registry of the generated type catalogue: the many-types worker binary
// (generated at check time by lib/gentypes.py) fills Static before calling vmain.Main.
package tyreg

// Entry is one generated static type (or an unnamed type built from generated types).
type Entry struct {
	Idx  int    // generation index of the family
	Kind string // which member of the family
	New  func() interface{}
}

// Static is empty in the ordinary worker binary.
var Static []Entry

// ByKind returns the entries of one kind in generation order.
func ByKind(kind string) []Entry {
	var out []Entry
	for _, e := range Static {
		if e.Kind == kind {
			out = append(out, e)
		}
	}
	return out
}
