// Package c02: Unmarshal agrees with encoding/json on every valid document and target.
//
// Destination types are the constructions TLC enumerates from specs/GoTypes.tla.  Documents are
// derived per type: encoding/json's own encoding of the generated values, and every single-node
// mutation of those documents (null, other kinds, range-boundary numbers, unknown and duplicate
// members, surplus / missing elements).  The destination starts zeroed or pre-populated.  Both
// libraries decode into identically built destinations; error/no-error and, on success, deep
// equality (nil versus empty included) must agree.  A divergence is reduced by shrinking the
// document; the type, the initial state, the option and the shape of the minimal document name it.
package c02

import (
	"bytes"
	stdjson "encoding/json"
	"encoding/json"
	"fmt"
	"os"
	"reflect"
	"strings"

	gojson "github.com/goccy/go-json"

	"verifharness/jtree"
	"verifharness/tygen"
	"verifharness/wk"
)

type Params struct {
	Types     string `json:"types"`
	RandModes int    `json:"rand_modes"`
	MaxMut    int    `json:"max_mutations"` // cap on mutated documents per base document
}

type Case struct {
	Desc   tygen.Desc `json:"type"`
	Init   string     `json:"init"`   // "zero" or a value mode used to pre-populate the destination
	Option string     `json:"option"` // "", "usenumber", "disallow", "stream"
	Doc    string     `json:"doc"`
}

var replacements = []*jtree.Node{
	jtree.Lit("null", "null"), jtree.Lit("bool", "true"), jtree.Lit("num", "0"), jtree.Lit("num", "-1"), jtree.Lit("num", "1.5"),
	jtree.Lit("num", "256"), jtree.Lit("num", "-129"), jtree.Lit("num", "65536"), jtree.Lit("num", "4294967296"), jtree.Lit("num", "-2147483649"),
	jtree.Lit("num", "9223372036854775808"), jtree.Lit("num", "18446744073709551616"), jtree.Lit("num", "1e2"), jtree.Lit("num", "1e400"), jtree.Lit("num", "3.5e38"),
	jtree.Lit("str", `"s"`), jtree.Lit("str", `"12"`), jtree.Lit("str", `""`), jtree.Lit("str", `"2020-02-29T12:30:15Z"`), jtree.Lit("str", `"aGk="`),
	{Kind: "arr"}, {Kind: "arr", Elems: []*jtree.Node{jtree.Lit("num", "1"), jtree.Lit("num", "2"), jtree.Lit("num", "3")}},
	{Kind: "obj"}, {Kind: "obj", Keys: []string{`"zz"`}, Elems: []*jtree.Node{jtree.Lit("num", "1")}},
}

// mutations of a document tree: every node replaced by every replacement of another kind/value, plus structural edits
func mutations(root *jtree.Node, max int) []*jtree.Node {
	var out []*jtree.Node
	paths := root.Paths()
	for _, p := range paths {
		cur := root.At(p)
		for _, r := range replacements {
			if r.Kind == cur.Kind && r.Text == cur.Text && len(r.Elems) == len(cur.Elems) {
				continue
			}
			out = append(out, root.Replace(p, r))
		}
		switch cur.Kind {
		case "obj":
			// unknown member first / last, duplicate of the first member with another value, member order reversed
			add := func(front bool) *jtree.Node {
				c := root.Clone()
				o := c.At(p)
				unk := &jtree.Node{Kind: "obj", Keys: []string{`"deep"`}, Elems: []*jtree.Node{{Kind: "arr", Elems: []*jtree.Node{jtree.Lit("num", "1"), jtree.Lit("str", `"x"`)}}}}
				if front {
					o.Keys = append([]string{`"unknown_member"`}, o.Keys...)
					o.Elems = append([]*jtree.Node{unk}, o.Elems...)
				} else {
					o.Keys = append(o.Keys, `"unknown_member"`)
					o.Elems = append(o.Elems, unk)
				}
				return c
			}
			out = append(out, add(true), add(false))
			if len(cur.Elems) > 0 {
				c := root.Clone()
				o := c.At(p)
				o.Keys = append(o.Keys, o.Keys[0])
				o.Elems = append(o.Elems, jtree.Lit("null", "null"))
				out = append(out, c)
				c2 := root.Clone()
				o2 := c2.At(p)
				o2.Keys = append(o2.Keys, o2.Keys[0])
				o2.Elems = append(o2.Elems, o2.Elems[0].Clone())
				out = append(out, c2)
				// upper-cased key
				c3 := root.Clone()
				o3 := c3.At(p)
				var ks string
				if stdjson.Unmarshal([]byte(o3.Keys[0]), &ks) == nil {
					kb, _ := stdjson.Marshal(strings.ToUpper(ks))
					o3.Keys[0] = string(kb)
					out = append(out, c3)
				}
			}
		case "arr":
			if len(cur.Elems) > 0 {
				c := root.Clone()
				a := c.At(p)
				a.Elems = append(a.Elems, a.Elems[0].Clone(), a.Elems[0].Clone())
				out = append(out, c)
				out = append(out, root.Remove(append(append([]int(nil), p...), len(cur.Elems)-1)))
			}
		}
		if len(out) > max {
			break
		}
	}
	if len(out) > max {
		out = out[:max]
	}
	return out
}

func decodeBoth(c Case, n *tygen.Node) (gv, sv reflect.Value, gerr, serr error) {
	mk := func() reflect.Value {
		p := reflect.New(n.RT)
		if c.Init != "zero" {
			p.Elem().Set(n.Value(c.Init))
		}
		return p
	}
	gp, sp := mk(), mk()
	doc := []byte(c.Doc)
	switch c.Option {
	case "":
		gerr = gojson.Unmarshal(doc, gp.Interface())
		serr = stdjson.Unmarshal(doc, sp.Interface())
	case "usenumber", "disallow", "stream":
		gd := gojson.NewDecoder(bytes.NewReader(doc))
		sd := stdjson.NewDecoder(bytes.NewReader(doc))
		if c.Option == "usenumber" {
			gd.UseNumber()
			sd.UseNumber()
		}
		if c.Option == "disallow" {
			gd.DisallowUnknownFields()
			sd.DisallowUnknownFields()
		}
		gerr = gd.Decode(gp.Interface())
		serr = sd.Decode(sp.Interface())
	}
	return gp.Elem(), sp.Elem(), gerr, serr
}

// Divergence classifies one case: "" = agreement.
func Divergence(c Case) (kind, detail string) {
	n, err := tygen.Build(c.Desc)
	if err != nil {
		return "", ""
	}
	var gv, sv reflect.Value
	var gerr, serr error
	if rec := wk.Guard(func() { gv, sv, gerr, serr = decodeBoth(c, n) }); rec != nil {
		return "panic:" + wk.PanicClass(rec), fmt.Sprint(rec)
	}
	switch {
	case gerr != nil && serr == nil:
		return "error-where-std-succeeds", fmt.Sprintf("go-json: %v; encoding/json stores %s", gerr, show(sv))
	case gerr == nil && serr != nil:
		return "success-where-std-fails", fmt.Sprintf("encoding/json: %v; go-json stores %s", serr, show(gv))
	case gerr != nil:
		return "", ""
	}
	if !reflect.DeepEqual(gv.Interface(), sv.Interface()) {
		return "different-value", fmt.Sprintf("go-json stores %s; encoding/json stores %s", show(gv), show(sv))
	}
	return "", ""
}

func show(v reflect.Value) string {
	s := fmt.Sprintf("%#v", v.Interface())
	if b, err := stdjson.Marshal(v.Interface()); err == nil {
		s = string(b) + " (" + s + ")"
	}
	if len(s) > 260 {
		s = s[:260] + "..."
	}
	return s
}

// shrink the document while the same kind of divergence persists
func minimiseDoc(c Case, kind string) Case {
	cur := c
	tree, err := jtree.Parse([]byte(c.Doc))
	if err != nil {
		return c
	}
	try := func(t *jtree.Node) bool {
		n := cur
		n.Doc = t.String()
		if k, _ := Divergence(n); k == kind {
			cur, tree = n, t
			return true
		}
		return false
	}
	simple := map[string]*jtree.Node{"num": jtree.Lit("num", "1"), "str": jtree.Lit("str", `"s"`), "bool": jtree.Lit("bool", "true")}
	for changed := true; changed; {
		changed = false
		for _, p := range tree.Paths() {
			if len(p) == 0 {
				continue
			}
			if try(tree.Remove(p)) {
				changed = true
				break
			}
		}
		if changed {
			continue
		}
		for _, p := range tree.Paths() {
			n := tree.At(p)
			if s, ok := simple[n.Kind]; ok && n.Text != s.Text {
				if try(tree.Replace(p, s)) {
					changed = true
					break
				}
			}
			if (n.Kind == "arr" || n.Kind == "obj") && len(n.Elems) > 0 {
				if try(tree.Replace(p, &jtree.Node{Kind: n.Kind})) {
					changed = true
					break
				}
			}
		}
	}
	if cur.Init != "zero" {
		n := cur
		n.Init = "zero"
		if k, _ := Divergence(n); k == kind {
			cur = n
		}
	}
	return cur
}

type runner struct {
	w     *wk.Worker
	cache map[string]Case
}

func (r *runner) check(c Case) {
	w := r.w
	w.Count("calls", 1)
	kind, detail := Divergence(c)
	if kind == "" {
		return
	}
	key := kind + "|" + c.Desc.String() + "|" + c.Init + "|" + c.Option + "|" + c.Doc
	min, ok := r.cache[key]
	if !ok {
		min = c
		for round := 0; round < 4; round++ {
			before := min
			min = minimiseDoc(min, kind)
			// then the type, keeping the document: remove constructor steps, simplify leaf and struct options
			tc := tygen.Minimise(tygen.Case{Desc: min.Desc, Mode: "zero"}, kind, func(n tygen.Case) string {
				m := min
				m.Desc = n.Desc
				k, _ := Divergence(m)
				return k
			})
			min.Desc = tc.Desc
			// peel the outermost constructor together with the outermost document layer
			for len(min.Desc.Steps) > 0 {
				last := min.Desc.Steps[len(min.Desc.Steps)-1]
				tree, err := jtree.Parse([]byte(min.Doc))
				if err != nil {
					break
				}
				cand := min
				cand.Desc.Steps = append([]string(nil), min.Desc.Steps[:len(min.Desc.Steps)-1]...)
				switch {
				case last == "ptr":
				case (last == "slice" || strings.HasPrefix(last, "array")) && tree.Kind == "arr" && len(tree.Elems) == 1:
					cand.Doc = tree.Elems[0].String()
				case (strings.HasPrefix(last, "map_") || strings.HasPrefix(last, "struct:")) && tree.Kind == "obj" && len(tree.Elems) == 1:
					cand.Doc = tree.Elems[0].String()
				default:
					cand.Doc = ""
				}
				if cand.Doc == "" {
					break
				}
				if k, _ := Divergence(cand); k != kind {
					break
				}
				min = cand
			}
			if min.Doc == before.Doc && min.Desc.String() == before.Desc.String() {
				break
			}
		}
		r.cache[key] = min
	}
	_, mdetail := Divergence(min)
	shape := min.Doc
	if t, err := jtree.Parse([]byte(min.Doc)); err == nil {
		shape = t.Shape()
	}
	opt := min.Option
	if opt == "" {
		opt = "unmarshal"
	}
	sig := "dec|" + kind + "|" + min.Desc.String() + "|init=" + min.Init + "|" + opt + "|" + shape
	fine := c.Desc.String() + "|" + c.Init + "|" + c.Option + "|" + c.Doc
	if len(fine) > 300 {
		fine = fine[:300]
	}
	w.DivFine(sig, fine, true, "minimal document "+min.Doc+": "+mdetail+" -- original: "+detail, c)
}

func Run(job *wk.Job, w *wk.Worker) error {
	var p Params
	if err := json.Unmarshal(job.Params, &p); err != nil {
		return err
	}
	w.CheckEvery = 100
	r := &runner{w: w, cache: map[string]Case{}}
	if job.Replay != nil {
		var c Case
		if err := json.Unmarshal(job.Replay, &c); err != nil {
			return err
		}
		w.Begin(0, func() interface{} { return c })
		r.check(c)
		return nil
	}
	data, err := os.ReadFile(p.Types)
	if err != nil {
		return err
	}
	modes := append([]string(nil), tygen.Modes...)
	for i := 0; i < p.RandModes; i++ {
		modes = append(modes, fmt.Sprintf("rand:%d", i+1))
	}
	idx := int64(0)
	for _, line := range bytes.Split(data, []byte("\n")) {
		if len(line) == 0 {
			continue
		}
		var d tygen.Desc
		if err := json.Unmarshal(line, &d); err != nil {
			return err
		}
		n, err := tygen.Build(d)
		if err != nil {
			continue
		}
		if w.Mine(idx) {
			dd := d
			w.Begin(idx, func() interface{} { return Case{Desc: dd, Init: "*", Doc: "*"} })
			w.Nontrivial()
			seen := map[string]bool{}
			for _, m := range modes {
				var base []byte
				if rec := wk.Guard(func() { base, err = stdjson.Marshal(n.Value(m).Interface()) }); rec != nil || err != nil {
					continue
				}
				if seen[string(base)] {
					continue
				}
				seen[string(base)] = true
				w.Tick()
				for _, init := range []string{"zero", "typical", "boundary"} {
					for _, opt := range []string{"", "usenumber", "disallow", "stream"} {
						if init != "zero" && opt != "" {
							continue
						}
						r.check(Case{Desc: d, Init: init, Option: opt, Doc: string(base)})
					}
				}
				tree, err := jtree.Parse(base)
				if err != nil {
					continue
				}
				if m == "zero" || m == "typical" || m == "boundary" {
					muts := mutations(tree, p.MaxMut)
					if w.WantSample() && len(muts) > 3 && len(d.Steps) == 2 {
						w.Sample(map[string]interface{}{"type": d.String(), "go_type": n.RT.String(), "base_document": string(base), "mutated_documents": len(muts), "example_mutation": muts[len(muts)/2].String()})
					}
					for mi, mt := range muts {
						doc := mt.String()
						if seen[doc] || !stdjson.Valid([]byte(doc)) {
							continue
						}
						seen[doc] = true
						init := "zero"
						if mi%3 == 1 {
							init = "typical"
						}
						opt := ""
						if mi%5 == 2 {
							opt = "disallow"
						} else if mi%5 == 4 {
							opt = "usenumber"
						}
						r.check(Case{Desc: d, Init: init, Option: opt, Doc: doc})
					}
				}
			}
		}
		idx++
	}
	return nil
}
