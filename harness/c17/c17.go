// Package c17: string escaping and unescaping are faithful for every byte sequence.
//
// The token table (which tokens are well formed, how many U+FFFD an ill-formed one becomes, which
// must be escaped always / under HTML escaping) and the expected scalar sequence of every JSON
// string-literal item sequence are evaluated by TLC from specs/StrCodec.tla.  The harness
// instantiates tokens and items with concrete bytes, places them at every offset relative to the
// encoder's 8-byte scanning window, and checks go-json against the specification's meaning, with
// encoding/json's decoder as "any conforming parser" and its encoder as third voice.
package c17

import (
	"bytes"
	stdjson "encoding/json"
	"encoding/json"
	"fmt"
	"io"
	"os"
	"strings"
	"unicode/utf8"

	gojson "github.com/goccy/go-json"

	"verifharness/jt"
	"verifharness/wk"
)

type Params struct {
	Spec     string `json:"spec"`      // JSON file with the TLC exports
	EncLen   int    `json:"enc_len"`   // token sequences up to this length
	ByteLen  int    `json:"byte_len"`  // all byte strings up to this length
	Pads     []int  `json:"pads"`
}

type tokenRow struct {
	Tok              string `json:"tok"`
	WellFormed       bool   `json:"wellformed"`
	Bytes            int    `json:"bytes"`
	MustEscapeAlways bool   `json:"must_escape_always"`
	MustEscapeHTML   bool   `json:"must_escape_html"`
}
type decRow struct {
	Items   []string `json:"items"`
	Scalars []string `json:"scalars"`
}
type specFile struct {
	Tokens []tokenRow `json:"tokens"`
	Dec    []decRow   `json:"dec"`
}

// concrete instantiations of the specification's tokens
var tokenBytes = map[string][]string{
	"pl": {"a", "Z", "0", " ", "~", "/"}, "q": {`"`}, "bs": {`\`}, "lt": {"<"}, "gt": {">"}, "amp": {"&"},
	"cn": {"\n", "\r", "\t"}, "cb": {"\b", "\f"}, "cu": {"\x01", "\x1f", "\x0b"}, "nul": {"\x00"}, "del": {"\x7f"},
	"u2": {"\xc3\xa9", "\xc2\x80", "\xdf\xbf"}, "u3": {"\xe2\x82\xac", "\xe0\xa0\x80", "\xef\xbf\xbd", "\xed\x9f\xbf", "\xee\x80\x80", "\xe2\x80\xa7", "\xe2\x80\xaa"},
	"ls": {"\xe2\x80\xa8"}, "ps": {"\xe2\x80\xa9"}, "u4": {"\xf0\x9f\x98\x80", "\xf4\x8f\xbf\xbf", "\xf0\x90\x80\x80"},
	"xff": {"\xff", "\xf5", "\xfe", "\xf8"}, "xc0": {"\xc0", "\xc1"}, "cont": {"\x80", "\xbf"}, "tr3": {"\xe2\x82", "\xe2\x80"}, "sur": {"\xed\xa0\x80", "\xed\xbf\xbf"},
	"tr4": {"\xf0\x90\x80", "\xf4\x8f\xbf", "\xf1\x80\x80"}, "tr42": {"\xf0\x90", "\xf4\x8f"},
}

// scalar names of the decoder export
var scalarText = map[string]string{
	"sc:plain": "a", "sc:esc-n": "\n", "sc:esc-q": `"`, "sc:esc-bs": `\`, "sc:esc-sl": "/", "sc:esc-b": "\b",
	"sc:u-ascii": "A", "sc:u-quote": `"`, "sc:u-bs": `\`, "sc:u-latin": string(rune(0xe9)), "sc:u-nul": "\x00", "sc:u-ctl": "\x1f", "sc:u-2028": string(rune(0x2028)), "sc:u-bmp": string(rune(0xfffd)),
	"supp:u-pair": string(rune(0x1F60A)), "supp:u-pair-upper": string(rune(0x1D11E)), "supp:high+low": string(rune(0x1F60A)), "fffd": string(rune(0xfffd)),
	"sc:mb2": "\xc3\xa9", "sc:mb3": "\xe2\x82\xac", "sc:mb4": "\xf0\x9f\x98\x80",
}

type CaseDesc struct {
	Part   string   `json:"part"`
	Ctx    string   `json:"ctx"`
	Flags  string   `json:"flags,omitempty"`
	Tokens []string `json:"tokens,omitempty"`
	Input  string   `json:"input"` // %q of the Go string (encoder) or of the JSON document (decoder)
}

type runner struct {
	w    *wk.Worker
	spec specFile
	tok  map[string]tokenRow
}

type flagSet struct {
	name string
	html bool
	norm bool
	opts []gojson.EncodeOptionFunc
}

var flagSets = []flagSet{
	{"html+norm", true, true, nil},
	{"nohtml+norm", false, true, []gojson.EncodeOptionFunc{gojson.DisableHTMLEscape()}},
	{"html+nonorm", true, false, []gojson.EncodeOptionFunc{gojson.DisableNormalizeUTF8()}},
	{"nohtml+nonorm", false, false, []gojson.EncodeOptionFunc{gojson.DisableHTMLEscape(), gojson.DisableNormalizeUTF8()}},
}

// tokenise splits a Go string into the specification's tokens (utf8.DecodeRune is the trusted tokeniser).
func tokenise(s string) (names []string, offs []int) {
	for i := 0; i < len(s); {
		r, n := utf8.DecodeRuneInString(s[i:])
		name := ""
		switch {
		case r == utf8.RuneError && n == 1:
			name = "bad1"
		case r == '"':
			name = "q"
		case r == '\\':
			name = "bs"
		case r == '<':
			name = "lt"
		case r == '>':
			name = "gt"
		case r == '&':
			name = "amp"
		case r == 0:
			name = "nul"
		case r == '\n' || r == '\r' || r == '\t':
			name = "cn"
		case r == '\b' || r == '\f':
			name = "cb"
		case r < 0x20:
			name = "cu"
		case r == 0x7f:
			name = "del"
		case r < 0x80:
			name = "pl"
		case r == 0x2028:
			name = "ls"
		case r == 0x2029:
			name = "ps"
		case n == 2:
			name = "u2"
		case n == 3:
			name = "u3"
		default:
			name = "u4"
		}
		names = append(names, name)
		offs = append(offs, i)
		i += n
	}
	return
}

// repl is the string every conforming parser must read back: ill-formed bytes become U+FFFD.
func repl(s string) string {
	var sb strings.Builder
	for i := 0; i < len(s); {
		r, n := utf8.DecodeRuneInString(s[i:])
		if r == utf8.RuneError && n == 1 {
			sb.WriteString(string(rune(0xfffd)))
		} else {
			sb.WriteString(s[i : i+n])
		}
		i += n
	}
	return sb.String()
}

func offClass(off int) string {
	if off < 8 {
		return fmt.Sprintf("first-chunk+%d", off)
	}
	return fmt.Sprintf("later-chunk+%d", off%8)
}

// checkEncode marshals s under one flag set in one context and checks it against the specification.
func (r *runner) checkEncode(part string, s string, fs flagSet, ctx string, counted bool, toks []string) {
	w := r.w
	var v interface{}
	switch ctx {
	case "value":
		v = s
	case "mapkey":
		v = map[string]int{s: 1}
	case "field":
		v = struct {
			A int    `json:"a"`
			S string `json:"s"`
		}{1, s}
	case "slice":
		v = []string{"x", s}
	case "iface":
		v = []interface{}{s}
	}
	var out []byte
	var err error
	w.Count("calls", 1)
	rec := wk.Guard(func() { out, err = gojson.MarshalWithOption(v, fs.opts...) })
	d := CaseDesc{Part: part, Ctx: ctx, Flags: fs.name, Tokens: toks, Input: fmt.Sprintf("%q", s)}
	if rec != nil {
		w.DivFine("enc|panic:"+wk.PanicClass(rec), "enc|panic|"+fs.name+"|"+ctx, counted, fmt.Sprint(rec), d)
		return
	}
	if err != nil {
		w.DivFine("enc|error|"+fs.name, "enc|error|"+fs.name+"|"+ctx, counted, err.Error(), d)
		return
	}
	// locate the literal inside the output
	var lit []byte
	switch ctx {
	case "value":
		lit = out
	case "mapkey":
		if len(out) >= 4 {
			lit = out[1 : len(out)-3]
		}
	case "field":
		pre := `{"a":1,"s":`
		if bytes.HasPrefix(out, []byte(pre)) && len(out) > len(pre) {
			lit = out[len(pre) : len(out)-1]
		}
	case "slice":
		pre := `["x",`
		if bytes.HasPrefix(out, []byte(pre)) && len(out) > len(pre) {
			lit = out[len(pre) : len(out)-1]
		}
	case "iface":
		if len(out) >= 2 {
			lit = out[1 : len(out)-1]
		}
	}
	names, offs := tokenise(s)
	blame := func(pos int) (string, string) {
		// which input token produced output around byte pos of the literal: approximate by decoding prefix
		if len(names) == 0 {
			return "empty", "first-chunk+0"
		}
		return names[len(names)-1], offClass(offs[len(offs)-1])
	}
	_ = blame
	firstBad := func(pred func(name string) bool) (string, string) {
		for i, n := range names {
			if pred(n) {
				return n, offClass(offs[i])
			}
		}
		return "?", "?"
	}
	if len(lit) < 2 || lit[0] != '"' || lit[len(lit)-1] != '"' {
		w.DivFine("enc|malformed-output|"+fs.name, "enc|malformed|"+fs.name+"|"+ctx, counted, fmt.Sprintf("output %q", out), d)
		return
	}
	// (1) any conforming parser reads back Repl(s)
	var back string
	if e := stdjson.Unmarshal(lit, &back); e != nil {
		tn, oc := firstBad(func(n string) bool { return r.tok[n].MustEscapeAlways || n == "bad1" })
		w.DivFine("enc|unparsable-literal|"+fs.name+"|"+tn, "enc|unparsable|"+fs.name+"|"+ctx+"|"+tn+"|"+oc, counted, fmt.Sprintf("literal %q: %v", lit, e), d)
		return
	}
	if want := repl(s); back != want {
		// first differing scalar
		tn, oc := "?", "?"
		bi := 0
		for i := range names {
			n := 1
			if i+1 < len(offs) {
				n = offs[i+1] - offs[i]
			} else {
				n = len(s) - offs[i]
			}
			seg := repl(s[offs[i] : offs[i]+n])
			if !strings.HasPrefix(back[min(bi, len(back)):], seg) {
				tn, oc = names[i], offClass(offs[i])
				break
			}
			bi += len(seg)
		}
		w.DivFine("enc|wrong-meaning|"+fs.name+"|"+tn, "enc|meaning|"+fs.name+"|"+ctx+"|"+tn+"|"+oc, counted, fmt.Sprintf("literal %q reads back as %q, expected %q", lit, back, want), d)
		return
	}
	// (2) forbidden raw bytes
	inner := lit[1 : len(lit)-1]
	for i := 0; i < len(inner); i++ {
		c := inner[i]
		bad := ""
		switch {
		case c < 0x20:
			bad = "raw-control"
		case fs.html && (c == '<' || c == '>' || c == '&'):
			bad = "raw-html"
		case fs.html && c == 0xe2 && i+2 < len(inner) && inner[i+1] == 0x80 && (inner[i+2] == 0xa8 || inner[i+2] == 0xa9):
			bad = "raw-line-separator"
		}
		if bad != "" {
			tn, oc := firstBad(func(n string) bool {
				switch bad {
				case "raw-control":
					return n == "cn" || n == "cb" || n == "cu" || n == "nul"
				case "raw-html":
					return n == "lt" || n == "gt" || n == "amp"
				}
				return n == "ls" || n == "ps"
			})
			w.DivFine("enc|"+bad+"|"+fs.name, "enc|"+bad+"|"+fs.name+"|"+ctx+"|"+tn+"|"+oc, counted, fmt.Sprintf("literal %q", lit), d)
			return
		}
	}
	// (3) with normalisation on the output is valid UTF-8 and byte-equal to encoding/json's
	if fs.norm {
		if !utf8.Valid(lit) {
			w.DivFine("enc|invalid-utf8-output|"+fs.name, "enc|invalid-utf8|"+fs.name+"|"+ctx, counted, fmt.Sprintf("literal %q", lit), d)
			return
		}
		var sb bytes.Buffer
		e := stdjson.NewEncoder(&sb)
		e.SetEscapeHTML(fs.html)
		_ = e.Encode(s)
		std := bytes.TrimSuffix(sb.Bytes(), []byte("\n"))
		if !bytes.Equal(std, lit) && !sameModuloShortEscapes(std, lit) {
			w.DivFine("enc|differs-from-encoding-json|"+fs.name, "enc|std-diff|"+fs.name+"|"+ctx, counted, fmt.Sprintf("go-json %q, encoding/json %q", lit, std), d)
		}
	}
}

func min(a, b int) int {
	if a < b {
		return a
	}
	return b
}

// \b and \f may be spelled \u0008 / \u000c
func sameModuloShortEscapes(a, b []byte) bool {
	norm := func(x []byte) string {
		s := string(x)
		s = strings.ReplaceAll(s, `\u0008`, `\b`)
		s = strings.ReplaceAll(s, `\u000c`, `\f`)
		return s
	}
	return norm(a) == norm(b)
}

// decoder ------------------------------------------------------------------------

type textU struct{ S string }

func (t *textU) UnmarshalText(b []byte) error { t.S = string(b); return nil }

type oneByte struct{ r io.Reader }

func (o oneByte) Read(p []byte) (int, error) {
	if len(p) == 0 {
		return 0, nil
	}
	return o.r.Read(p[:1])
}

var decContexts = []string{"string", "iface", "mapkey", "structkey", "string-tag", "text", "token", "stream", "stream1", "slice"}

// decodeIn returns (result string, ok) of go-json and encoding/json for the literal in a context.
func decodeIn(ctx string, lit string) (g string, gok bool, s string, sok bool, doc string) {
	switch ctx {
	case "string":
		doc = lit
		var a, b string
		gok = gojson.Unmarshal([]byte(doc), &a) == nil
		sok = stdjson.Unmarshal([]byte(doc), &b) == nil
		return a, gok, b, sok, doc
	case "iface":
		doc = lit
		var a, b interface{}
		gok = gojson.Unmarshal([]byte(doc), &a) == nil
		sok = stdjson.Unmarshal([]byte(doc), &b) == nil
		as, _ := a.(string)
		bs, _ := b.(string)
		return as, gok, bs, sok, doc
	case "mapkey":
		doc = `{` + lit + `:1}`
		var a, b map[string]int
		gok = gojson.Unmarshal([]byte(doc), &a) == nil
		sok = stdjson.Unmarshal([]byte(doc), &b) == nil
		for k := range a {
			g = k
		}
		for k := range b {
			s = k
		}
		return g, gok, s, sok, doc
	case "structkey":
		// the key is unknown to the struct and must be skipped; the following member must still be found
		doc = `{` + lit + `:1,"z":"found"}`
		type T struct {
			Z string `json:"z"`
		}
		var a, b T
		gok = gojson.Unmarshal([]byte(doc), &a) == nil
		sok = stdjson.Unmarshal([]byte(doc), &b) == nil
		return a.Z, gok, b.Z, sok, doc
	case "string-tag":
		// a ,string member holds a JSON string whose content is itself a JSON string literal
		q, _ := stdjson.Marshal(lit)
		doc = `{"v":` + string(q) + `}`
		type T struct {
			V string `json:"v,string"`
		}
		var a, b T
		gok = gojson.Unmarshal([]byte(doc), &a) == nil
		sok = stdjson.Unmarshal([]byte(doc), &b) == nil
		return a.V, gok, b.V, sok, doc
	case "text":
		doc = lit
		var a, b textU
		gok = gojson.Unmarshal([]byte(doc), &a) == nil
		sok = stdjson.Unmarshal([]byte(doc), &b) == nil
		return a.S, gok, b.S, sok, doc
	case "token":
		doc = lit
		ta, ea := gojson.NewDecoder(strings.NewReader(doc)).Token()
		tb, eb := stdjson.NewDecoder(strings.NewReader(doc)).Token()
		as, _ := ta.(string)
		bs, _ := tb.(string)
		return as, ea == nil, bs, eb == nil, doc
	case "stream", "stream1":
		doc = lit
		var a, b string
		var rd io.Reader = strings.NewReader(doc)
		if ctx == "stream1" {
			rd = oneByte{rd}
		}
		gok = gojson.NewDecoder(rd).Decode(&a) == nil
		sok = stdjson.NewDecoder(strings.NewReader(doc)).Decode(&b) == nil
		return a, gok, b, sok, doc
	case "slice":
		doc = `[` + lit + `,` + lit + `]`
		var a, b []string
		gok = gojson.Unmarshal([]byte(doc), &a) == nil
		sok = stdjson.Unmarshal([]byte(doc), &b) == nil
		return strings.Join(a, "|"), gok, strings.Join(b, "|"), sok, doc
	}
	panic(ctx)
}

func (r *runner) checkDecode(part string, items []string, body string, expect string, haveExpect bool, counted bool) {
	w := r.w
	lit := `"` + body + `"`
	for _, ctx := range decContexts {
		var g, s, doc string
		var gok, sok bool
		w.Count("calls", 1)
		rec := wk.Guard(func() { g, gok, s, sok, doc = decodeIn(ctx, lit) })
		d := CaseDesc{Part: part, Ctx: ctx, Tokens: items, Input: fmt.Sprintf("%q", lit)}
		if rec != nil {
			w.DivFine("dec|panic:"+wk.PanicClass(rec)+"|"+ctx, "dec|panic|"+ctx+"|"+strings.Join(items, "+"), counted, fmt.Sprint(rec), d)
			continue
		}
		_ = doc
		if haveExpect && sok && ctx != "slice" && ctx != "structkey" && s != expect {
			w.DivCase("ORACLE|dec|"+ctx, counted, fmt.Sprintf("encoding/json gives %q, StrCodec gives %q", s, expect), d)
			continue
		}
		ig := itemGroupOf(items)
		switch {
		case gok != sok:
			k := "accepts"
			if sok {
				k = "rejects"
			}
			w.DivFine("dec|"+k+"|"+ctx+"|"+ig, "dec|"+k+"|"+ctx+"|"+strings.Join(items, "+"), counted, fmt.Sprintf("go-json ok=%v, encoding/json ok=%v", gok, sok), d)
		case gok && g != s:
			w.DivFine("dec|wrong-string|"+ctx+"|"+ig, "dec|wrong|"+ctx+"|"+strings.Join(items, "+"), counted, fmt.Sprintf("go-json %q, encoding/json %q", g, s), d)
		}
	}
}

func itemGroupOf(items []string) string {
	set := map[string]bool{}
	for _, n := range items {
		switch {
		case n == "u-high" || n == "u-low":
			set["lone-or-split-surrogate"] = true
		case strings.HasPrefix(n, "u-pair"):
			set["surrogate-pair"] = true
		case strings.HasPrefix(n, "u-"):
			set["u-escape"] = true
		case strings.HasPrefix(n, "esc-"):
			set["simple-escape"] = true
		case strings.HasPrefix(n, "mb"):
			set["multibyte"] = true
		case strings.HasPrefix(n, "raw-"):
			set[n] = true
		default:
			set["plain"] = true
		}
	}
	var out []string
	for _, k := range []string{"lone-or-split-surrogate", "surrogate-pair", "u-escape", "simple-escape", "multibyte", "raw-invalid", "raw-control", "plain"} {
		if set[k] {
			out = append(out, k)
		}
	}
	return strings.Join(out, "+")
}

func Run(job *wk.Job, w *wk.Worker) error {
	var p Params
	if err := json.Unmarshal(job.Params, &p); err != nil {
		return err
	}
	r := &runner{w: w, tok: map[string]tokenRow{}}
	b, err := os.ReadFile(p.Spec)
	if err != nil {
		return err
	}
	if err := json.Unmarshal(b, &r.spec); err != nil {
		return err
	}
	for _, t := range r.spec.Tokens {
		r.tok[t.Tok] = t
	}
	r.tok["bad1"] = tokenRow{Tok: "bad1", Bytes: 1}
	if job.Replay != nil {
		var c CaseDesc
		if err := json.Unmarshal(job.Replay, &c); err != nil {
			return err
		}
		var in string
		if _, err := fmt.Sscanf(c.Input, "%q", &in); err != nil {
			return err
		}
		w.Begin(0, func() interface{} { return c })
		if strings.HasPrefix(c.Part, "enc") {
			for _, fs := range flagSets {
				if fs.name == c.Flags || c.Flags == "" {
					for _, ctx := range []string{"value", "mapkey", "field", "slice", "iface"} {
						if ctx == c.Ctx || c.Ctx == "" {
							r.checkEncode(c.Part, in, fs, ctx, false, c.Tokens)
						}
					}
				}
			}
		} else {
			r.checkDecode(c.Part, c.Tokens, in[1:len(in)-1], "", false, false)
		}
		return nil
	}
	idx := int64(0)
	encCtx := []string{"value", "mapkey", "field", "slice", "iface"}
	// part E: token sequences x concrete variants x padding (offset relative to the 8-byte window) x flags x contexts
	var names []string
	for _, t := range r.spec.Tokens {
		names = append(names, t.Tok)
	}
	sortStrings(names)
	var rec func(seq []string)
	rec = func(seq []string) {
		if len(seq) > 0 {
			if w.Mine(idx) {
				sq := append([]string(nil), seq...)
				w.Begin(idx, func() interface{} { return CaseDesc{Part: "encE", Tokens: sq} })
				w.Nontrivial()
				r.encodeSeq(sq, p.Pads, encCtx)
			}
			idx++
		}
		if len(seq) == p.EncLen {
			return
		}
		for _, n := range names {
			// a truncated sequence followed by a continuation byte would be a different (well-formed) token
			if len(seq) > 0 && (seq[len(seq)-1] == "tr3" || seq[len(seq)-1] == "tr4" || seq[len(seq)-1] == "tr42") && n == "cont" {
				continue
			}
			rec(append(seq, n))
		}
	}
	rec(nil)
	// part B: every byte string up to ByteLen (value context, four flag sets); tokens by utf8.DecodeRune
	var brec func(buf []byte)
	brec = func(buf []byte) {
		if w.Mine(idx) {
			s := string(buf)
			w.Begin(idx, func() interface{} { return CaseDesc{Part: "encB", Input: fmt.Sprintf("%q", s)} })
			for _, fs := range flagSets {
				r.checkEncode("encB", s, fs, "value", true, nil)
			}
			if len(buf) > 0 {
				r.checkEncode("encB", "12345678"+s, flagSets[0], "value", true, nil)
				r.checkEncode("encB", "1234567"+s+"z", flagSets[2], "mapkey", true, nil)
			}
		}
		idx++
		if len(buf) == p.ByteLen {
			return
		}
		for c := 0; c < 256; c++ {
			brec(append(buf, byte(c)))
		}
	}
	brec(nil)
	// part D: item sequences exported by TLC, with paddings
	itemText := map[string]string{}
	for _, it := range jt.StringItems {
		itemText[it.Name] = it.Text
	}
	for _, row := range r.spec.Dec {
		if w.Mine(idx) {
			body, expect := "", ""
			for _, n := range row.Items {
				body += itemText[n]
			}
			ok := true
			for _, sc := range row.Scalars {
				t, found := scalarText[sc]
				if !found {
					ok = false
				}
				expect += t
			}
			if !ok {
				return fmt.Errorf("unknown scalar name in %v", row.Scalars)
			}
			rw := row
			w.Begin(idx, func() interface{} { return CaseDesc{Part: "decD", Tokens: rw.Items, Input: fmt.Sprintf("%q", body)} })
			w.Nontrivial()
			if w.WantSample() && len(row.Items) == 3 {
				w.Sample(map[string]interface{}{"part": "decD", "items": row.Items, "literal_body": body, "expected_scalars": row.Scalars})
			}
			r.checkDecode("decD", row.Items, body, expect, true, true)
			if len(row.Items) >= 1 && len(row.Items) <= 2 {
				for _, pad := range p.Pads {
					pb := strings.Repeat("x", pad)
					r.checkDecode("decD", row.Items, pb+body+"yz", pb+expect+"yz", true, true)
				}
			}
		}
		idx++
	}
	// part R: raw bytes inside a literal (invalid UTF-8, DEL, raw control): encoding/json is the yardstick
	raws := []struct{ name, b string }{{"raw-invalid", "\xff"}, {"raw-invalid", "\xc0\x80"}, {"raw-invalid", "\xe2\x82"}, {"raw-invalid", "\xed\xa0\x80"}, {"raw-invalid", "\x80"},
		{"raw-invalid", "\xf0\x9f\x98"}, {"plain", "\x7f"}, {"multibyte", "\xef\xbf\xbd"}, {"raw-invalid", "\xf4\x90\x80\x80"}}
	for _, rw := range raws {
		for _, pre := range []string{"", "a", "abcdefg", "abcdefgh", `\n`} {
			for _, post := range []string{"", "b", "\xc3\xa9"} {
				if w.Mine(idx) {
					body := pre + rw.b + post
					nm := rw.name
					w.Begin(idx, func() interface{} { return CaseDesc{Part: "decR", Tokens: []string{nm}, Input: fmt.Sprintf("%q", body)} })
					r.checkDecode("decR", []string{rw.name}, body, "", false, true)
				}
				idx++
			}
		}
	}
	return nil
}

func sortStrings(a []string) {
	for i := 1; i < len(a); i++ {
		for j := i; j > 0 && a[j] < a[j-1]; j-- {
			a[j], a[j-1] = a[j-1], a[j]
		}
	}
}

// encodeSeq instantiates a token sequence: the first variant of every token plus, for single tokens and
// pairs, every variant; each with every padding, flag set and context.
func (r *runner) encodeSeq(seq []string, pads []int, ctxs []string) {
	var variants []string
	var build func(i int, cur string, allVariants bool)
	build = func(i int, cur string, allVariants bool) {
		if i == len(seq) {
			variants = append(variants, cur)
			return
		}
		vs := tokenBytes[seq[i]]
		if !allVariants {
			vs = vs[:1]
		}
		for _, v := range vs {
			build(i+1, cur+v, allVariants)
		}
	}
	build(0, "", len(seq) <= 2)
	for _, body := range variants {
		for _, pad := range pads {
			s := strings.Repeat("x", pad) + body
			for _, suffix := range []string{"", "yz"} {
				for _, fs := range flagSets {
					for ci, ctx := range ctxs {
						if ci > 0 && (pad%8 != 0 && pad%8 != 7) {
							continue // other contexts only at the window seams
						}
						r.checkEncode("encE", s+suffix, fs, ctx, true, seq)
					}
				}
			}
		}
	}
}
