// Package c07: decoding touches only the destination.
//
// (layout, document) pairs are emitted by TLC from specs/MemLayout.tla.  A layout is realised as
// struct{ G0 [16]byte; F1 T1; G1 [16]byte; F2 T2; G2 [16]byte } with reflect.StructOf, several Go
// types per abstract field kind (element sizes 1..64).  Guards and scalar bytes are filled with a
// recognisable pattern, pointer-bearing fields with sentinel objects.  After Unmarshal / Decode of
// the corresponding document (valid, failing half-way or truncated) every byte the document does not
// address must be unchanged, the result must equal encoding/json's, and every string / slice
// header in the destination must be walkable.
package c07

import (
	"bytes"
	"encoding"
	"encoding/json"
	stdjson "encoding/json"
	"fmt"
	"os"
	"reflect"
	"runtime"
	"strings"
	"unsafe"

	gojson "github.com/goccy/go-json"

	"verifharness/wk"
)

type Params struct {
	Cases string `json:"cases"`
	Every int    `json:"every"` // run every k-th case only (checkptr pass)
}

type tlcCase struct {
	Layout []string `json:"layout"`
	Doc    []string `json:"doc"`
}

type Case struct {
	Layout  []string `json:"layout"`
	Doc     []string `json:"doc"`
	Variant int      `json:"variant"`
	Mode    string   `json:"mode"`
	Text    string   `json:"text,omitempty"`
}

// narrow named scalars that implement encoding.TextUnmarshaler (a JSON null must not touch them)
type tu1 uint8
type ti1 int8
type tu2 uint16
type tu4 uint32
type tf4 float32

func (t *tu1) UnmarshalText(b []byte) error { *t = tu1(len(b)); return nil }
func (t *ti1) UnmarshalText(b []byte) error { *t = ti1(len(b)); return nil }
func (t *tu2) UnmarshalText(b []byte) error { *t = tu2(len(b)); return nil }
func (t *tu4) UnmarshalText(b []byte) error { *t = tu4(len(b)); return nil }
func (t *tf4) UnmarshalText(b []byte) error { *t = tf4(len(b)); return nil }

var textUnmarshalerT = reflect.TypeOf((*encoding.TextUnmarshaler)(nil)).Elem()

type s12 struct{ A, B, C uint32 }
type s64 struct{ A, B, C, D, E, F, G, H int64 }

// Go realisations of the abstract field kinds (several per kind)
var kindTypes = map[string][]reflect.Type{
	"s1":    {reflect.TypeOf(uint8(0)), reflect.TypeOf(int8(0)), reflect.TypeOf(false)},
	"s2":    {reflect.TypeOf(uint16(0)), reflect.TypeOf(int16(0))},
	"s4":    {reflect.TypeOf(float32(0)), reflect.TypeOf(int32(0)), reflect.TypeOf(uint32(0))},
	"s8":    {reflect.TypeOf(int64(0)), reflect.TypeOf(float64(0)), reflect.TypeOf((*int)(nil)), reflect.TypeOf(map[string]int(nil)), reflect.TypeOf(uint(0))},
	"hdr16": {reflect.TypeOf(""), reflect.TypeOf((*interface{})(nil)).Elem(), reflect.TypeOf(gojson.Number(""))},
	"hdr24": {reflect.TypeOf([]int(nil)), reflect.TypeOf([]byte(nil)), reflect.TypeOf([]string(nil)), reflect.TypeOf(gojson.RawMessage(nil))},
	// ",string" members (the tag is added in build)
	"q1": {reflect.TypeOf(int8(0)), reflect.TypeOf(uint8(0)), reflect.TypeOf(false)},
	"q2": {reflect.TypeOf(uint16(0)), reflect.TypeOf(int16(0))},
	"q4": {reflect.TypeOf(float32(0)), reflect.TypeOf(int32(0)), reflect.TypeOf(uint32(0))},
	"q8": {reflect.TypeOf(int64(0)), reflect.TypeOf(float64(0)), reflect.TypeOf(uint64(0))},
	// narrow TextUnmarshaler values
	"t1":    {reflect.TypeOf(tu1(0)), reflect.TypeOf(ti1(0))},
	"t2":    {reflect.TypeOf(tu2(0))},
	"t4":    {reflect.TypeOf(tu4(0)), reflect.TypeOf(tf4(0))},
	"a2x1":  {reflect.TypeOf([2]uint8{}), reflect.TypeOf([2]bool{}), reflect.TypeOf([2]int8{})},
	"a3x1":  {reflect.TypeOf([3]int8{}), reflect.TypeOf([3]uint8{})},
	"a4x1":  {reflect.TypeOf([4]uint8{}), reflect.TypeOf([4]bool{})},
	"a2x2":  {reflect.TypeOf([2]uint16{}), reflect.TypeOf([2]int16{})},
	"a3x3":  {reflect.TypeOf([3][3]uint8{}), reflect.TypeOf([3]struct{ A, B, C int8 }{})},
	"a2x4":  {reflect.TypeOf([2]float32{}), reflect.TypeOf([2]int32{})},
	"a2x8":  {reflect.TypeOf([2]int64{}), reflect.TypeOf([2]*int{}), reflect.TypeOf([2]float64{}), reflect.TypeOf([2]map[string]int{})},
	"a3x5":  {reflect.TypeOf([3][5]uint8{}), reflect.TypeOf([3]struct{ A, B, C, D, E bool }{})},
	"a2x12": {reflect.TypeOf([2]s12{}), reflect.TypeOf([2][3]float32{})},
	"a2x16": {reflect.TypeOf([2]string{}), reflect.TypeOf([2]interface{}{}), reflect.TypeOf([2][2]int64{})},
	"a2x24": {reflect.TypeOf([2][]int{}), reflect.TypeOf([2][]string{}), reflect.TypeOf([2][3]int64{})},
	"a1x64": {reflect.TypeOf([1]s64{}), reflect.TypeOf([1][8]int64{}), reflect.TypeOf([1][4]string{})},
}

var guardT = reflect.TypeOf([16]byte{})

func build(layout []string, variant int) (reflect.Type, []int) {
	var fs []reflect.StructField
	var fidx []int
	for i, k := range layout {
		fs = append(fs, reflect.StructField{Name: fmt.Sprintf("G%d", i), Type: guardT, Tag: `json:"-"`})
		ts := kindTypes[k]
		fidx = append(fidx, len(fs))
		opt := ""
		if k[0] == 'q' {
			opt = ",string"
		}
		fs = append(fs, reflect.StructField{Name: fmt.Sprintf("F%d", i+1), Type: ts[(variant+i)%len(ts)], Tag: reflect.StructTag(fmt.Sprintf(`json:"f%d%s"`, i+1, opt))})
	}
	fs = append(fs, reflect.StructField{Name: fmt.Sprintf("G%d", len(layout)), Type: guardT, Tag: `json:"-"`})
	return reflect.StructOf(fs), fidx
}

// fill gives every position a recognisable non-zero content
func fill(v reflect.Value, salt int) {
	switch v.Kind() {
	case reflect.Bool:
		v.SetBool(true)
	case reflect.Int, reflect.Int8, reflect.Int16, reflect.Int32, reflect.Int64:
		v.SetInt(int64(0x55 + salt%7))
	case reflect.Uint, reflect.Uint8, reflect.Uint16, reflect.Uint32, reflect.Uint64, reflect.Uintptr:
		v.SetUint(uint64(0xA5 - salt%5))
	case reflect.Float32, reflect.Float64:
		v.SetFloat(-77.5)
	case reflect.String:
		v.SetString(strings.Repeat("canary", 1+salt%2))
	case reflect.Ptr:
		p := reflect.New(v.Type().Elem())
		fill(p.Elem(), salt+1)
		v.Set(p)
	case reflect.Map:
		m := reflect.MakeMap(v.Type())
		k := reflect.New(v.Type().Key()).Elem()
		fill(k, salt)
		e := reflect.New(v.Type().Elem()).Elem()
		fill(e, salt+1)
		m.SetMapIndex(k, e)
		v.Set(m)
	case reflect.Slice:
		s := reflect.MakeSlice(v.Type(), 5, 5)
		for i := 0; i < 5; i++ { // elements 3 and 4 end up in the spare capacity: not part of the value, must never be written
			fill(s.Index(i), salt+i)
		}
		v.Set(s.Slice(0, 3))
	case reflect.Array:
		for i := 0; i < v.Len(); i++ {
			fill(v.Index(i), salt+i)
		}
	case reflect.Struct:
		for i := 0; i < v.NumField(); i++ {
			fill(v.Field(i), salt+i)
		}
	case reflect.Interface:
		v.Set(reflect.ValueOf("iface-canary"))
	}
}

// validJSON renders a JSON value for type t with n elements at the top array level (n < 0: natural length)
func validJSON(t reflect.Type, n int) string {
	switch t.Kind() {
	case reflect.Bool:
		return "false"
	case reflect.Int, reflect.Int8, reflect.Int16, reflect.Int32, reflect.Int64, reflect.Uint, reflect.Uint8, reflect.Uint16, reflect.Uint32, reflect.Uint64, reflect.Float32, reflect.Float64:
		return "3"
	case reflect.String:
		if t == reflect.TypeOf(gojson.Number("")) {
			return "12.5"
		}
		return `"new"`
	case reflect.Ptr:
		return validJSON(t.Elem(), -1)
	case reflect.Map:
		return `{"k":` + validJSON(t.Elem(), -1) + `}`
	case reflect.Interface:
		return `{"any":[1,"x"]}`
	case reflect.Slice:
		if t.Elem().Kind() == reflect.Uint8 {
			if t == reflect.TypeOf(gojson.RawMessage(nil)) {
				return `{"raw":true}`
			}
			return `"aGVsbG8="`
		}
		return "[" + validJSON(t.Elem(), -1) + "," + validJSON(t.Elem(), -1) + "]"
	case reflect.Array:
		if n < 0 {
			n = t.Len()
		}
		var parts []string
		for i := 0; i < n; i++ {
			parts = append(parts, validJSON(t.Elem(), -1))
		}
		return "[" + strings.Join(parts, ",") + "]"
	case reflect.Struct:
		var parts []string
		for i := 0; i < t.NumField(); i++ {
			parts = append(parts, fmt.Sprintf(`"%s":%s`, t.Field(i).Name, validJSON(t.Field(i).Type, -1)))
		}
		return "{" + strings.Join(parts, ",") + "}"
	}
	return "null"
}

func wrongKind(t reflect.Type) string {
	switch t.Kind() {
	case reflect.Array, reflect.Slice, reflect.Struct, reflect.Map, reflect.Ptr, reflect.Interface:
		return `"not-a-container"`
	case reflect.String:
		return `[1,2]`
	}
	return `{"zz":[1,2]}`
}

func document(t reflect.Type, fidx []int, doc []string, truncate bool) string {
	var parts []string
	for i, a := range doc {
		ft := t.Field(fidx[i]).Type
		var v string
		switch a {
		case "absent":
			continue
		case "null":
			v = "null"
		case "wrongkind":
			v = wrongKind(ft)
		case "short":
			if ft.Kind() == reflect.Array {
				n := ft.Len() - 1
				if n < 0 {
					n = 0
				}
				v = validJSON(ft, n)
			} else {
				v = validJSON(ft, -1)
			}
		case "long":
			if ft.Kind() == reflect.Array {
				v = validJSON(ft, ft.Len()+2)
			} else {
				v = validJSON(ft, -1)
			}
		default:
			v = validJSON(ft, -1)
		}
		if a != "null" && a != "wrongkind" {
			if reflect.PtrTo(ft).Implements(textUnmarshalerT) && ft.Kind() != reflect.Struct && ft.Kind() != reflect.String && ft.Kind() != reflect.Slice {
				v = `"abc"`
			} else if strings.Contains(string(t.Field(fidx[i]).Tag), ",string") {
				v = `"` + v + `"`
			}
		}
		parts = append(parts, fmt.Sprintf(`"f%d":%s`, i+1, v))
	}
	s := " {" + strings.Join(parts, " ,\n") + "} "
	if truncate && len(s) > 6 {
		s = s[:len(s)-4]
	}
	return s
}

// walk touches every byte reachable from v and checks header sanity
func walk(v reflect.Value, depth int) (sum uint64, bad string) {
	if depth > 8 {
		return 0, ""
	}
	switch v.Kind() {
	case reflect.String:
		s := v.String()
		for i := 0; i < len(s); i++ {
			sum += uint64(s[i])
		}
	case reflect.Slice:
		if v.Len() > v.Cap() {
			return 0, fmt.Sprintf("slice len %d > cap %d", v.Len(), v.Cap())
		}
		if v.Len() > 0 && v.Pointer() == 0 {
			return 0, fmt.Sprintf("slice with nil data and len %d", v.Len())
		}
		if v.Len() > 1<<20 {
			return 0, fmt.Sprintf("implausible slice length %d", v.Len())
		}
		for i := 0; i < v.Len(); i++ {
			s, b := walk(v.Index(i), depth+1)
			if b != "" {
				return 0, b
			}
			sum += s
		}
	case reflect.Array:
		for i := 0; i < v.Len(); i++ {
			s, b := walk(v.Index(i), depth+1)
			if b != "" {
				return 0, b
			}
			sum += s
		}
	case reflect.Struct:
		for i := 0; i < v.NumField(); i++ {
			s, b := walk(v.Field(i), depth+1)
			if b != "" {
				return 0, b
			}
			sum += s
		}
	case reflect.Ptr, reflect.Interface:
		if !v.IsNil() {
			return walk(v.Elem(), depth+1)
		}
	case reflect.Map:
		it := v.MapRange()
		for it.Next() {
			s, b := walk(it.Value(), depth+1)
			if b != "" {
				return 0, b
			}
			sum += s
		}
	}
	return sum, ""
}

type runner struct {
	w     *wk.Worker
	alive []interface{}
	n     int
}

func (r *runner) check(c Case, counted bool) {
	w := r.w
	t, fidx := build(c.Layout, c.Variant)
	trunc := c.Mode == "truncated"
	text := document(t, fidx, c.Doc, trunc)
	c.Text = text
	mk := func() reflect.Value {
		p := reflect.New(t)
		for i := 0; i < t.NumField(); i++ {
			f := p.Elem().Field(i)
			if t.Field(i).Type == guardT {
				for j := 0; j < 16; j++ {
					f.Index(j).SetUint(uint64(0xC0 + j))
				}
			} else {
				fill(f, i)
			}
		}
		return p
	}
	before, g, s := mk(), mk(), mk()
	// spare capacity of the destination's slices (what lies beyond len in the backing array)
	type spare struct {
		field int
		data  unsafe.Pointer
		full  reflect.Value // copy of [:cap]
	}
	var spares []spare
	for i := 0; i < t.NumField(); i++ {
		f := g.Elem().Field(i)
		if f.Kind() == reflect.Slice && f.Cap() > f.Len() {
			full := f.Slice(0, f.Cap())
			cp := reflect.MakeSlice(f.Type(), f.Cap(), f.Cap())
			reflect.Copy(cp, full)
			spares = append(spares, spare{i, f.UnsafePointer(), cp})
		}
	}
	var gerr error
	w.Count("calls", 1)
	rec := wk.Guard(func() {
		if c.Mode == "stream" {
			gerr = gojson.NewDecoder(strings.NewReader(text)).Decode(g.Interface())
		} else {
			gerr = gojson.Unmarshal([]byte(text), g.Interface())
		}
	})
	first, act := "?", "?"
	for i, a := range c.Doc {
		if a != "absent" {
			first, act = kindClass(c.Layout[i]), a
			break
		}
	}
	fine := fmt.Sprintf("%v|%v|%d|%s", c.Layout, c.Doc, c.Variant, c.Mode)
	if rec != nil {
		w.DivFine("mem|panic:"+wk.PanicClass(rec)+"|"+first+"|"+act, fine, counted, fmt.Sprint(rec), c)
		return
	}
	serr := stdjson.Unmarshal([]byte(text), s.Interface())
	// (1) guards and unaddressed fields
	for i := 0; i < t.NumField(); i++ {
		gf, bf := g.Elem().Field(i), before.Elem().Field(i)
		if t.Field(i).Type == guardT {
			if !reflect.DeepEqual(gf.Interface(), bf.Interface()) {
				nb := "first"
				if i > 0 {
					nb = kindClass(c.Layout[i/2-1+i%2])
				}
				w.DivFine("mem|guard-modified|after="+nb+"|"+act, fine, counted, fmt.Sprintf("guard G%d is now %v", i/2, gf.Interface()), c)
				return
			}
			continue
		}
		li := i / 2
		if li < len(c.Doc) && c.Doc[li] == "absent" && !reflect.DeepEqual(gf.Interface(), bf.Interface()) {
			w.DivFine("mem|unaddressed-field-modified|"+kindClass(c.Layout[li])+"|neighbour-"+first+"|"+act, fine, counted,
				fmt.Sprintf("field F%d is not named by the document but changed from %v to %v", li+1, bf.Interface(), gf.Interface()), c)
			return
		}
	}
	// (1b) spare capacity: when the backing array is reused, everything beyond both the old and the new length is untouched
	for _, sp := range spares {
		f := g.Elem().Field(sp.field)
		if f.Kind() != reflect.Slice || f.UnsafePointer() != sp.data || f.Cap() != sp.full.Len() {
			continue
		}
		from := 3
		if f.Len() > from {
			from = f.Len()
		}
		now := f.Slice(0, f.Cap())
		for k := from; k < f.Cap(); k++ {
			if !reflect.DeepEqual(now.Index(k).Interface(), sp.full.Index(k).Interface()) {
				li := sp.field / 2
				w.DivFine("mem|spare-capacity-modified|"+kindClass(c.Layout[li])+"|"+c.Doc[li], fine, counted,
					fmt.Sprintf("element %d of F%d's backing array (beyond the old and the new length) changed from %v to %v", k, li+1, sp.full.Index(k).Interface(), now.Index(k).Interface()), c)
				return
			}
		}
	}
	// (2) the destination is a walkable Go value
	var bad string
	if rec := wk.Guard(func() { _, bad = walk(g.Elem(), 0) }); rec != nil {
		bad = "walking the destination panics: " + fmt.Sprint(rec)
	}
	if bad != "" {
		w.DivFine("mem|malformed-value|"+first+"|"+act, fine, counted, bad, c)
		return
	}
	// (3) inside the addressed set: encoding/json's result
	if (gerr != nil) != (serr != nil) {
		k := "error-where-std-succeeds"
		if gerr == nil {
			k = "success-where-std-fails"
		}
		ek, ea := first, act
		// attribute the mismatch to a single field when that field alone reproduces it
		for i := range c.Doc {
			if c.Doc[i] == "absent" {
				continue
			}
			only := make([]string, len(c.Doc))
			for j := range only {
				only[j] = "absent"
			}
			only[i] = c.Doc[i]
			txt := document(t, fidx, only, false)
			g1, s1 := mk(), mk()
			var e1 error
			if wk.Guard(func() { e1 = gojson.Unmarshal([]byte(txt), g1.Interface()) }) != nil {
				continue
			}
			e2 := stdjson.Unmarshal([]byte(txt), s1.Interface())
			if (e1 != nil) != (e2 != nil) {
				ek, ea = kindClass(c.Layout[i])+":"+t.Field(fidx[i]).Type.String(), c.Doc[i]
				break
			}
		}
		w.DivFine("mem|"+k+"|"+ek+"|"+ea, fine, counted, fmt.Sprintf("go-json err=%v, encoding/json err=%v", gerr, serr), c)
		return
	}
	if gerr == nil && !reflect.DeepEqual(g.Elem().Interface(), s.Elem().Interface()) {
		// attribute the difference to the field that differs
		for li := range c.Layout {
			gf, sf := g.Elem().Field(fidx[li]), s.Elem().Field(fidx[li])
			if !reflect.DeepEqual(gf.Interface(), sf.Interface()) {
				w.DivFine("mem|differs-from-std|"+kindClass(c.Layout[li])+"|"+c.Doc[li], fine, counted,
					fmt.Sprintf("field F%d (%s): go-json %+v; encoding/json %+v", li+1, gf.Type(), gf.Interface(), sf.Interface()), c)
				break
			}
		}
	}
	r.alive = append(r.alive, g.Interface())
	r.n++
	if r.n%300 == 0 {
		runtime.GC() // the collector must be able to traverse everything decoded so far
		for _, v := range r.alive {
			_, _ = walk(reflect.ValueOf(v).Elem(), 0)
		}
		r.alive = r.alive[:0]
	}
}

func kindClass(k string) string {
	switch {
	case strings.HasPrefix(k, "a"):
		e := k[strings.IndexByte(k, 'x')+1:]
		return "array-elem" + e
	}
	return k
}

func Run(job *wk.Job, w *wk.Worker) error {
	var p Params
	if err := json.Unmarshal(job.Params, &p); err != nil {
		return err
	}
	if p.Every <= 0 {
		p.Every = 1
	}
	r := &runner{w: w}
	if job.Replay != nil {
		var c Case
		if err := json.Unmarshal(job.Replay, &c); err != nil {
			return err
		}
		w.Begin(0, func() interface{} { return c })
		if c.Mode == "history" {
			r.earlierDestination(false)
			return nil
		}
		r.check(c, false)
		return nil
	}
	data, err := os.ReadFile(p.Cases)
	if err != nil {
		return err
	}
	idx := int64(0)
	for _, line := range bytes.Split(data, []byte("\n")) {
		if len(line) == 0 {
			continue
		}
		if idx%int64(p.Every) == 0 && w.Mine(idx) {
			var tc tlcCase
			if err := json.Unmarshal(line, &tc); err != nil {
				return err
			}
			w.Begin(idx, func() interface{} { return Case{Layout: tc.Layout, Doc: tc.Doc} })
			w.Nontrivial()
			if w.WantSample() && len(tc.Layout) == 2 {
				t, fidx := build(tc.Layout, 0)
				w.Sample(map[string]interface{}{"layout": tc.Layout, "go_type": t.String(), "doc_actions": tc.Doc, "document": document(t, fidx, tc.Doc, false)})
			}
			for variant := 0; variant < 3; variant++ {
				for _, mode := range []string{"buffer", "stream", "truncated"} {
					if mode == "truncated" && variant > 0 {
						continue
					}
					r.check(Case{Layout: tc.Layout, Doc: tc.Doc, Variant: variant, Mode: mode}, true)
				}
			}
		}
		idx++
	}
	if p.Every == 1 && w.Mine(idx) {
		w.Begin(idx, func() interface{} { return Case{Layout: []string{"earlier-destination"}, Mode: "history"} })
		w.Nontrivial()
		r.earlierDestination(true)
	}
	runtime.GC()
	return nil
}
