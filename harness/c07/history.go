package c07

// Part "earlier-destination": decoding into B touches only B - in particular not the objects of a destination A that an
// EARLIER call (successful or failed) decoded into.  A is a non-empty slice whose elements hold references (pointers, inner
// slices, maps); after the first call everything reachable from A is rendered, a second call decodes another document of
// the same slice type into a fresh B, and A must render the same and share no pointer with B.

import (
	"bytes"
	stdjson "encoding/json"
	"fmt"
	"reflect"

	gojson "github.com/goccy/go-json"

	"verifharness/wk"
)

type hNode struct {
	V int            `json:"v"`
	S []int          `json:"s,omitempty"`
	P *int           `json:"p,omitempty"`
	M map[string]int `json:"m,omitempty"`
}

func hptr(i int) *int { return &i }

type hScenario struct {
	name         string
	mkA          func() interface{} // pointer to a pre-populated slice
	mkB          func() interface{}
	first, again string // first: document for A (valid); again: document for B
}

var hScenarios = []hScenario{
	{"slice-of-pointers", func() interface{} {
		a := []*hNode{{V: 1, S: []int{1, 2, 3}, P: hptr(5)}, {V: 2, S: []int{4, 5, 6}, M: map[string]int{"k": 1}}}
		return &a
	}, func() interface{} { return new([]*hNode) },
		`[{"v":11,"s":[7]},{"v":12,"p":3},{"v":13,"m":{"z":9}}]`, `[{"v":21,"s":[9,9]},{"v":22,"p":8,"m":{"q":2}},{"v":23}]`},
	{"slice-of-structs", func() interface{} {
		a := []hNode{{V: 1, S: []int{1, 2, 3}, P: hptr(5)}, {V: 2, S: []int{4, 5, 6}, M: map[string]int{"k": 1}}}
		return &a
	}, func() interface{} { return new([]hNode) },
		`[{"v":11,"s":[7]},{"v":12,"p":3},{"v":13,"m":{"z":9}}]`, `[{"v":21,"s":[9,9]},{"v":22,"p":8,"m":{"q":2}},{"v":23}]`},
	{"slice-of-maps", func() interface{} {
		a := []map[string]int{{"a": 1}, {"b": 2}}
		return &a
	}, func() interface{} { return new([]map[string]int) },
		`[{"x":1},{"y":2},{"z":3}]`, `[{"p":7},{"q":8},{"r":9}]`},
	{"slice-of-slices", func() interface{} {
		a := [][]int{{1, 2, 3}, {4, 5, 6}}
		return &a
	}, func() interface{} { return new([][]int) },
		`[[7],[8,8],[9,9,9]]`, `[[1,1],[2],[3,3,3]]`},
}

// every pointer reachable from v (pointers, map and slice data pointers)
func reachable(v reflect.Value, into map[uintptr]bool, depth int) {
	if depth > 8 {
		return
	}
	switch v.Kind() {
	case reflect.Ptr:
		if !v.IsNil() {
			into[v.Pointer()] = true
			reachable(v.Elem(), into, depth+1)
		}
	case reflect.Slice:
		if !v.IsNil() && v.Cap() > 0 {
			into[v.Pointer()] = true
		}
		for i := 0; i < v.Len(); i++ {
			reachable(v.Index(i), into, depth+1)
		}
	case reflect.Map:
		if !v.IsNil() {
			into[v.Pointer()] = true
		}
	case reflect.Struct:
		for i := 0; i < v.NumField(); i++ {
			reachable(v.Field(i), into, depth+1)
		}
	}
}

// render: the value with the FULL capacity of every slice (a write behind len is a write to A's memory too)
func renderFull(v reflect.Value, depth int) string {
	if depth > 8 {
		return "?"
	}
	switch v.Kind() {
	case reflect.Ptr:
		if v.IsNil() {
			return "nil"
		}
		return "&" + renderFull(v.Elem(), depth+1)
	case reflect.Slice:
		if v.IsNil() {
			return "nil"
		}
		full := v.Slice(0, v.Cap())
		s := fmt.Sprintf("[len=%d:", v.Len())
		for i := 0; i < full.Len(); i++ {
			s += renderFull(full.Index(i), depth+1) + ","
		}
		return s + "]"
	case reflect.Struct:
		s := "{"
		for i := 0; i < v.NumField(); i++ {
			s += renderFull(v.Field(i), depth+1) + ";"
		}
		return s + "}"
	case reflect.Map:
		b, _ := stdjson.Marshal(v.Interface())
		return string(b)
	}
	return fmt.Sprint(v.Interface())
}

func (r *runner) earlierDestination(counted bool) {
	w := r.w
	calls := map[string]func(doc string, dst interface{}) error{
		"Unmarshal": func(doc string, dst interface{}) error { return gojson.Unmarshal([]byte(doc), dst) },
		"Decoder":   func(doc string, dst interface{}) error { return gojson.NewDecoder(bytes.NewReader([]byte(doc))).Decode(dst) },
	}
	for _, sc := range hScenarios {
		firsts := map[string]string{"valid": sc.first, "truncated": sc.first[:len(sc.first)-1], "bad-separator": sc.first[:len(sc.first)-1] + " 1]"}
		// cut right behind the first / second element: "[{...}" and "[{...},{...}"
		depth, n := 0, 0
		for i, ch := range sc.first {
			if ch == '{' || ch == '[' {
				depth++
			}
			if ch == '}' || ch == ']' {
				depth--
				if depth == 1 {
					n++
					firsts[fmt.Sprintf("cut-after-element-%d", n)] = sc.first[:i+1]
				}
			}
		}
		for fname, fdoc := range firsts {
			for cname, call := range calls {
				for _, call2 := range []string{"Unmarshal", "Decoder"} {
					c := Case{Layout: []string{"earlier-destination", sc.name}, Doc: []string{fname, cname, call2}, Mode: "history"}
					fine := fmt.Sprintf("earlier-destination|%s|%s|%s|%s", sc.name, fname, cname, call2)
					a := sc.mkA()
					w.Count("calls", 2)
					w.Tick()
					if rec := wk.Guard(func() { _ = call(fdoc, a) }); rec != nil {
						continue // a panic on the first call is C06's business
					}
					av := reflect.ValueOf(a).Elem()
					before := renderFull(av, 0)
					owned := map[uintptr]bool{}
					reachable(av, owned, 0)
					b := sc.mkB()
					var err error
					if rec := wk.Guard(func() { err = calls[call2](sc.again, b) }); rec != nil {
						w.DivFine("history|panic:"+wk.PanicClass(rec)+"|"+sc.name, fine, counted, fmt.Sprint(rec), c)
						continue
					}
					if after := renderFull(av, 0); after != before {
						w.DivFine("history|earlier-destination-modified|"+sc.name, fine, counted,
							fmt.Sprintf("after a %s %s into A, decoding %s into a fresh B (err %v) changed A: %s -> %s", fname, cname, sc.again, err, before, after), c)
						continue
					}
					theirs := map[uintptr]bool{}
					reachable(reflect.ValueOf(b).Elem(), theirs, 0)
					for p := range theirs {
						if owned[p] {
							w.DivFine("history|later-destination-shares-memory|"+sc.name, fine, counted,
								fmt.Sprintf("after a %s %s into A, the fresh B decoded from %s points into A's memory", fname, cname, sc.again), c)
							break
						}
					}
				}
			}
		}
	}
}
