// Package c16: integer text conversion is exact; out-of-range input is an error.
//
// Decoding cases (kind, literal, fits, canonical text, class) come from TLC's exploration of
// specs/IntCodec.tla; each is replayed in six positions (plain, pointer, slice element, map key,
// `,string` member, Decoder stream).  math/big re-derives the verdict as a third voice.  Encoding is
// swept locally (all 8/16-bit values, neighbourhoods of every power of two and ten and the j*100^p
// family for 32/64-bit kinds) against strconv, which is outside the model and labelled so.
package c16

import (
	"bytes"
	"encoding/json"
	"fmt"
	"io"
	"math/big"
	"os"
	"reflect"
	"strconv"
	"strings"

	gojson "github.com/goccy/go-json"

	"verifharness/wk"
)

type Params struct {
	Cases    string `json:"cases"`     // ndjson written by the driver from TLC's output
	EncWidth int    `json:"enc_width"` // neighbourhood of each boundary in the encoder sweep
	Full16   bool   `json:"full16"`
}

type Case struct {
	Kind  string `json:"kind"`
	Text  string `json:"text"`
	Fits  bool   `json:"fits"`
	Canon string `json:"canon"`
	Class string `json:"class"`
}

type CaseDesc struct {
	Part     string `json:"part"`
	Kind     string `json:"kind"`
	Position string `json:"position"`
	Text     string `json:"text"`
	Class    string `json:"class,omitempty"`
}

var kindTypes = map[string]reflect.Type{
	"int8": reflect.TypeOf(int8(0)), "int16": reflect.TypeOf(int16(0)), "int32": reflect.TypeOf(int32(0)), "int64": reflect.TypeOf(int64(0)),
	"uint8": reflect.TypeOf(uint8(0)), "uint16": reflect.TypeOf(uint16(0)), "uint32": reflect.TypeOf(uint32(0)), "uint64": reflect.TypeOf(uint64(0)),
	"int": reflect.TypeOf(int(0)), "uint": reflect.TypeOf(uint(0)), "uintptr": reflect.TypeOf(uintptr(0)),
}

// kinds that share a specification kind (64-bit platform)
var alias = map[string][]string{"int64": {"int64", "int"}, "uint64": {"uint64", "uint", "uintptr"}}

func goKinds(k string) []string {
	if a, ok := alias[k]; ok {
		return a
	}
	return []string{k}
}

var positions = []string{"plain", "pointer", "slice", "mapkey", "string-tag", "stream", "struct-field"}

// destination type and document for a position
func build(pos string, t reflect.Type, lit string) (reflect.Type, []byte, func(reflect.Value) (reflect.Value, bool)) {
	switch pos {
	case "plain", "stream":
		return t, []byte(lit), func(v reflect.Value) (reflect.Value, bool) { return v, true }
	case "pointer":
		return reflect.PtrTo(t), []byte(lit), func(v reflect.Value) (reflect.Value, bool) {
			if v.IsNil() {
				return v, false
			}
			return v.Elem(), true
		}
	case "slice":
		return reflect.SliceOf(t), []byte("[" + lit + "]"), func(v reflect.Value) (reflect.Value, bool) {
			if v.Len() != 1 {
				return v, false
			}
			return v.Index(0), true
		}
	case "mapkey":
		mt := reflect.MapOf(t, reflect.TypeOf(true))
		return mt, []byte(`{"` + lit + `":true}`), func(v reflect.Value) (reflect.Value, bool) {
			if v.Len() != 1 {
				return v, false
			}
			return v.MapKeys()[0], true
		}
	case "string-tag":
		st := reflect.StructOf([]reflect.StructField{{Name: "V", Type: t, Tag: `json:"v,string"`}})
		return st, []byte(`{"v":"` + lit + `"}`), func(v reflect.Value) (reflect.Value, bool) { return v.Field(0), true }
	case "struct-field":
		st := reflect.StructOf([]reflect.StructField{{Name: "A", Type: reflect.TypeOf(""), Tag: `json:"a"`}, {Name: "V", Type: t, Tag: `json:"v"`}})
		return st, []byte(`{"a":"x","v":` + lit + `}`), func(v reflect.Value) (reflect.Value, bool) { return v.Field(1), true }
	}
	panic(pos)
}

func fmtInt(v reflect.Value) string {
	switch v.Kind() {
	case reflect.Int, reflect.Int8, reflect.Int16, reflect.Int32, reflect.Int64:
		return strconv.FormatInt(v.Int(), 10)
	default:
		return strconv.FormatUint(v.Uint(), 10)
	}
}

// third voice: math/big
func bigFits(text string, t reflect.Type) (bool, bool) {
	// returns (wellFormedInteger, fits)
	s := text
	if s == "" || s == "-" {
		return false, false
	}
	neg := s[0] == '-'
	d := s
	if neg {
		d = s[1:]
	}
	if d == "" {
		return false, false
	}
	for _, c := range d {
		if c < '0' || c > '9' {
			return false, false
		}
	}
	if len(d) > 1 && d[0] == '0' {
		return false, false
	}
	n, _ := new(big.Int).SetString(s, 10)
	bits := t.Bits()
	var lo, hi *big.Int
	switch t.Kind() {
	case reflect.Int, reflect.Int8, reflect.Int16, reflect.Int32, reflect.Int64:
		hi = new(big.Int).Sub(new(big.Int).Lsh(big.NewInt(1), uint(bits-1)), big.NewInt(1))
		lo = new(big.Int).Neg(new(big.Int).Lsh(big.NewInt(1), uint(bits-1)))
	default:
		if neg {
			return true, false
		}
		hi = new(big.Int).Sub(new(big.Int).Lsh(big.NewInt(1), uint(bits)), big.NewInt(1))
		lo = big.NewInt(0)
	}
	return true, n.Cmp(lo) >= 0 && n.Cmp(hi) <= 0
}

type runner struct{ w *wk.Worker }

func (r *runner) decodeCase(c Case, gk, pos string, counted bool) {
	w := r.w
	t := kindTypes[gk]
	dt, doc, pick := build(pos, t, c.Text)
	wf, bf := bigFits(c.Text, t)
	if (wf && bf) != c.Fits {
		w.DivCase("ORACLE|"+c.Class, counted, fmt.Sprintf("math/big says fits=%v, IntCodec says %v", wf && bf, c.Fits), CaseDesc{"dec", gk, pos, c.Text, c.Class})
		return
	}
	dst := reflect.New(dt)
	var err error
	w.Count("calls", 1)
	rec := wk.Guard(func() {
		if pos == "stream" {
			dec := gojson.NewDecoder(bytes.NewReader(doc))
			err = dec.Decode(dst.Interface())
			if err == nil {
				// the literal must be the whole stream: what follows the value must be the end of input
				var rest interface{}
				if e2 := dec.Decode(&rest); e2 != io.EOF {
					err = fmt.Errorf("trailing data after the value (%v)", e2)
				}
			}
		} else {
			err = gojson.Unmarshal(doc, dst.Interface())
		}
	})
	d := CaseDesc{"dec", gk, pos, c.Text, c.Class}
	if rec != nil {
		w.DivFine("dec|panic:"+wk.PanicClass(rec)+"|"+c.Class, "dec|"+gk+"|"+pos+"|panic|"+c.Class, counted, fmt.Sprint(rec), d)
		return
	}
	width := fmt.Sprint(t.Bits())
	sg := "u"
	if t.Kind() <= reflect.Int64 {
		sg = "i"
	}
	switch {
	case c.Fits && err != nil:
		w.DivFine("dec|rejects-in-range|"+sg+width+"|"+posGroup(pos)+"|"+c.Class, "dec|"+gk+"|"+pos+"|rejects|"+c.Class, counted, "error "+err.Error(), d)
	case c.Fits:
		v, ok := pick(dst.Elem())
		if !ok || fmtInt(v) != c.Canon {
			got := "<missing>"
			if ok {
				got = fmtInt(v)
			}
			w.DivFine("dec|wrong-value|"+sg+width+"|"+posGroup(pos)+"|"+c.Class, "dec|"+gk+"|"+pos+"|wrong|"+c.Class, counted, "stored "+got+", expected "+c.Canon, d)
		}
	case err == nil:
		got := "?"
		if v, ok := pick(dst.Elem()); ok {
			got = fmtInt(v)
		}
		w.DivFine("dec|accepts-unfit|"+sg+width+"|"+posGroup(pos)+"|"+c.Class, "dec|"+gk+"|"+pos+"|accepts|"+c.Class, counted, "no error; stored "+got, d)
	}
}

func posGroup(p string) string {
	switch p {
	case "mapkey", "string-tag", "stream":
		return p
	}
	return "value"
}

// encoder sweep -----------------------------------------------------------------

func (r *runner) encodeValue(gk string, v reflect.Value, counted bool) {
	w := r.w
	want := fmtInt(v)
	t := v.Type()
	check := func(pos string, val interface{}, expect string) {
		var out []byte
		var err error
		w.Count("calls", 1)
		rec := wk.Guard(func() { out, err = gojson.Marshal(val) })
		d := CaseDesc{"enc", gk, pos, want, ""}
		if rec != nil {
			w.DivFine("enc|panic:"+wk.PanicClass(rec), "enc|"+gk+"|"+pos+"|panic", counted, fmt.Sprint(rec), d)
			return
		}
		if err != nil || string(out) != expect {
			w.DivFine("enc|wrong-text|"+fmt.Sprint(t.Bits())+"|"+pos, "enc|"+gk+"|"+pos+"|"+digitClass(want), counted, fmt.Sprintf("got %q (err=%v), expected %q", out, err, expect), d)
		}
	}
	check("plain", v.Interface(), want)
	p := reflect.New(t)
	p.Elem().Set(v)
	check("pointer", p.Interface(), want)
	if t.Kind() != reflect.Uint8 { // []uint8 is a byte slice (base64), not a list of numbers
		s := reflect.MakeSlice(reflect.SliceOf(t), 2, 2)
		s.Index(0).Set(v)
		s.Index(1).Set(v)
		check("slice", s.Interface(), "["+want+","+want+"]")
	}
	m := reflect.MakeMap(reflect.MapOf(t, t))
	m.SetMapIndex(v, v)
	check("mapkey", m.Interface(), `{"`+want+`":`+want+`}`)
	st := reflect.New(reflect.StructOf([]reflect.StructField{
		{Name: "S", Type: t, Tag: `json:"s,string"`},
		{Name: "O", Type: t, Tag: `json:"o,omitempty"`},
		{Name: "P", Type: reflect.PtrTo(t), Tag: `json:"p,omitempty"`},
	})).Elem()
	st.Field(0).Set(v)
	st.Field(1).Set(v)
	st.Field(2).Set(p)
	exp := `{"s":"` + want + `"`
	if !v.IsZero() {
		exp += `,"o":` + want
	}
	exp += `,"p":` + want + `}`
	check("struct", st.Interface(), exp)
	var ifc interface{} = v.Interface()
	check("iface", &ifc, want)
}

func digitClass(s string) string {
	n := len(strings.TrimPrefix(s, "-"))
	return fmt.Sprintf("%d-digits", n)
}

func setInt(t reflect.Type, x *big.Int) (reflect.Value, bool) {
	v := reflect.New(t).Elem()
	switch t.Kind() {
	case reflect.Int, reflect.Int8, reflect.Int16, reflect.Int32, reflect.Int64:
		if !x.IsInt64() || v.OverflowInt(x.Int64()) {
			return v, false
		}
		v.SetInt(x.Int64())
	default:
		if !x.IsUint64() || v.OverflowUint(x.Uint64()) {
			return v, false
		}
		v.SetUint(x.Uint64())
	}
	return v, true
}

func Run(job *wk.Job, w *wk.Worker) error {
	var p Params
	if err := json.Unmarshal(job.Params, &p); err != nil {
		return err
	}
	r := &runner{w: w}
	if job.Replay != nil {
		var c CaseDesc
		if err := json.Unmarshal(job.Replay, &c); err != nil {
			return err
		}
		w.Begin(0, func() interface{} { return c })
		if c.Part == "enc" {
			x, _ := new(big.Int).SetString(c.Text, 10)
			if v, ok := setInt(kindTypes[c.Kind], x); ok {
				r.encodeValue(c.Kind, v, false)
			}
			return nil
		}
		wf, bf := bigFits(c.Text, kindTypes[c.Kind])
		cs := Case{Kind: c.Kind, Text: c.Text, Fits: wf && bf, Class: c.Class}
		if cs.Fits {
			x, _ := new(big.Int).SetString(c.Text, 10)
			cs.Canon = x.String()
		}
		r.decodeCase(cs, c.Kind, c.Position, false)
		return nil
	}
	idx := int64(0)
	// part 1: TLC-generated decoding cases
	data, err := os.ReadFile(p.Cases)
	if err != nil {
		return err
	}
	for _, line := range bytes.Split(data, []byte("\n")) {
		if len(line) == 0 {
			continue
		}
		if w.Mine(idx) {
			var c Case
			if err := json.Unmarshal(line, &c); err != nil {
				return err
			}
			w.Begin(idx, func() interface{} { return CaseDesc{"dec", c.Kind, "*", c.Text, c.Class} })
			if c.Class != "in-range" {
				w.Nontrivial()
			}
			if w.WantSample() && c.Class != "in-range" {
				w.Sample(c)
			}
			for _, gk := range goKinds(c.Kind) {
				for _, pos := range positions {
					r.decodeCase(c, gk, pos, true)
				}
			}
		}
		idx++
	}
	// part 2: encoder sweep (outside the model; oracle strconv)
	for _, gk := range []string{"int8", "int16", "int32", "int64", "int", "uint8", "uint16", "uint32", "uint64", "uint", "uintptr"} {
		t := kindTypes[gk]
		var centres []*big.Int
		if t.Bits() <= 16 {
			if t.Bits() == 8 || p.Full16 {
				// exhaustive
				lo, hi := int64(-(1 << (t.Bits() - 1))), int64(1<<(t.Bits()-1))-1
				if gk[0] == 'u' {
					lo, hi = 0, int64(1<<t.Bits())-1
				}
				for x := lo; x <= hi; x++ {
					if w.Mine(idx) {
						v, _ := setInt(t, big.NewInt(x))
						w.Begin(idx, func() interface{} { return CaseDesc{"enc", gk, "*", fmt.Sprint(x), ""} })
						r.encodeValue(gk, v, true)
					}
					idx++
				}
				continue
			}
		}
		for k := 0; k <= t.Bits(); k++ {
			centres = append(centres, new(big.Int).Lsh(big.NewInt(1), uint(k)))
		}
		ten := big.NewInt(1)
		for k := 0; k < 21; k++ {
			centres = append(centres, new(big.Int).Set(ten))
			ten = new(big.Int).Mul(ten, big.NewInt(10))
		}
		// j * 100^p touches every entry of the two-digit table at every position
		hund := big.NewInt(1)
		for pw := 0; pw < 10; pw++ {
			for j := int64(0); j < 100; j += 1 {
				centres = append(centres, new(big.Int).Mul(big.NewInt(j), hund))
			}
			hund = new(big.Int).Mul(hund, big.NewInt(100))
		}
		seen := map[string]bool{}
		for ci, c := range centres {
			width := p.EncWidth
			if ci > t.Bits()+21 {
				width = 1 // the j*100^p family: the value and its neighbours
			}
			for d := -width; d <= width; d++ {
				for _, sign := range []int64{1, -1} {
					x := new(big.Int).Add(c, big.NewInt(int64(d)))
					x.Mul(x, big.NewInt(sign))
					key := x.String()
					if seen[key] {
						continue
					}
					seen[key] = true
					v, ok := setInt(t, x)
					if !ok {
						continue
					}
					if w.Mine(idx) {
						w.Begin(idx, func() interface{} { return CaseDesc{"enc", gk, "*", key, ""} })
						r.encodeValue(gk, v, true)
					}
					idx++
				}
			}
		}
	}
	return nil
}
