// Package dtypes: a catalogue of static destination types used by the crash (C06) and memory (C07)
// checks: every kind of the decoder grammar at least once, alone and nested.
package dtypes

import (
	"encoding"
	"fmt"
	"math/big"
	"time"

	gojson "github.com/goccy/go-json"
)

type TextKey struct{ S string }

func (k *TextKey) UnmarshalText(b []byte) error { k.S = string(b); return nil }
func (k TextKey) MarshalText() ([]byte, error)   { return []byte(k.S), nil }

var _ encoding.TextUnmarshaler = (*TextKey)(nil)

type TextVal struct{ S string }

func (k *TextVal) UnmarshalText(b []byte) error {
	if len(b) > 3 && b[0] == 'b' && b[1] == 'a' && b[2] == 'd' {
		return fmt.Errorf("bad text")
	}
	k.S = string(b)
	return nil
}

type JSONVal struct{ Raw string }

func (k *JSONVal) UnmarshalJSON(b []byte) error { k.Raw = string(b); return nil }

type Inner struct {
	X int    `json:"x"`
	Y string `json:"y,omitempty"`
}
type EmbP struct {
	*Inner
	Z bool `json:"z"`
}
type EmbV struct {
	Inner
	Q *int `json:"q"`
}
type Rec struct {
	V    int             `json:"v"`
	Next *Rec            `json:"next"`
	Kids []Rec           `json:"kids"`
	M    map[string]*Rec `json:"m"`
}
type Wide struct {
	A int8              `json:"a"`
	B uint16            `json:"b"`
	C float32           `json:"c"`
	D string            `json:"d,string"`
	E int               `json:"e,string"`
	F []byte            `json:"f"`
	G [3]uint8          `json:"g"`
	H map[string]int    `json:"h"`
	I interface{}       `json:"i"`
	J *string           `json:"j"`
	K gojson.Number     `json:"k"`
	L gojson.RawMessage `json:"l"`
	M time.Time         `json:"m"`
	N []string          `json:"n"`
	O [2]string         `json:"o"`
	P **int             `json:"p"`
	Q bool              `json:"q,string"`
	R TextVal           `json:"r"`
	S JSONVal           `json:"s"`
	T *Inner            `json:"t"`
	U []Inner           `json:"u"`
	V map[string]Inner  `json:"v"`
	W uintptr           `json:"w"`
}
type Many struct {
	F01, F02, F03, F04, F05, F06, F07, F08, F09, F10, F11, F12, F13, F14, F15, F16, F17 int
}

type Dest struct {
	Name string
	New  func() interface{}
}

// All returns the destination catalogue.
func All() []Dest {
	return []Dest{
		{"iface", func() interface{} { return new(interface{}) }},
		{"int", func() interface{} { return new(int) }},
		{"int8", func() interface{} { return new(int8) }},
		{"int64", func() interface{} { return new(int64) }},
		{"uint8", func() interface{} { return new(uint8) }},
		{"uint64", func() interface{} { return new(uint64) }},
		{"float32", func() interface{} { return new(float32) }},
		{"float64", func() interface{} { return new(float64) }},
		{"bool", func() interface{} { return new(bool) }},
		{"string", func() interface{} { return new(string) }},
		{"bytes", func() interface{} { return new([]byte) }},
		{"number", func() interface{} { return new(gojson.Number) }},
		{"raw", func() interface{} { return new(gojson.RawMessage) }},
		{"time", func() interface{} { return new(time.Time) }},
		{"bigint", func() interface{} { return new(big.Int) }},
		{"ptr-int", func() interface{} { return new(*int) }},
		{"ptr3-string", func() interface{} { return new(***string) }},
		{"slice-int", func() interface{} { return new([]int) }},
		{"slice-string", func() interface{} { return new([]string) }},
		{"slice-iface", func() interface{} { return new([]interface{}) }},
		{"slice-slice", func() interface{} { return new([][]int) }},
		{"slice-ptr", func() interface{} { return new([]*Inner) }},
		{"array0", func() interface{} { return new([0]int) }},
		{"array1-ptr", func() interface{} { return new([1]*int) }},
		{"array2-int", func() interface{} { return new([2]int) }},
		{"array3-u8", func() interface{} { return new([3]uint8) }},
		{"array2-string", func() interface{} { return new([2]string) }},
		{"array2-struct", func() interface{} { return new([2]Inner) }},
		{"map-int", func() interface{} { return new(map[string]int) }},
		{"map-iface", func() interface{} { return new(map[string]interface{}) }},
		{"map-intkey", func() interface{} { return new(map[int]string) }},
		{"map-u8key", func() interface{} { return new(map[uint8]bool) }},
		{"map-textkey", func() interface{} { return new(map[TextKey]int) }},
		{"map-map", func() interface{} { return new(map[string]map[string]int) }},
		{"map-struct", func() interface{} { return new(map[string]Inner) }},
		{"map-ptr", func() interface{} { return new(map[string]*Inner) }},
		{"struct0", func() interface{} { return new(struct{}) }},
		{"inner", func() interface{} { return new(Inner) }},
		{"emb-ptr", func() interface{} { return new(EmbP) }},
		{"emb-val", func() interface{} { return new(EmbV) }},
		{"rec", func() interface{} { return new(Rec) }},
		{"wide", func() interface{} { return new(Wide) }},
		{"many", func() interface{} { return new(Many) }},
		{"textval", func() interface{} { return new(TextVal) }},
		{"jsonval", func() interface{} { return new(JSONVal) }},
		{"ptr-struct", func() interface{} { return new(*Wide) }},
	}
}
