package tygen

// Case is one replayable differential case: a type construction, a value mode and a variant name.
type Case struct {
	Desc    Desc   `json:"type"`
	Mode    string `json:"mode"`
	Variant string `json:"variant"`
}

var modeOrder = []string{"zero", "empty", "typical", "boundary"}

// Minimise reduces a failing case while fails() keeps returning the same divergence kind:
// constructor steps are removed, the leaf is replaced by simpler leaves, the value mode by simpler modes.
func Minimise(c Case, kind string, fails func(Case) string) Case {
	cur := c
	try := func(n Case) bool {
		if _, err := Build(n.Desc); err != nil {
			return false
		}
		if fails(n) == kind {
			cur = n
			return true
		}
		return false
	}
	for changed := true; changed; {
		changed = false
		// remove one step
		for i := 0; i < len(cur.Desc.Steps); i++ {
			n := cur
			n.Desc.Steps = append(append([]string(nil), cur.Desc.Steps[:i]...), cur.Desc.Steps[i+1:]...)
			if try(n) {
				changed = true
				i--
			}
		}
		// simplify struct steps (drop options and siblings)
		for i, s := range cur.Desc.Steps {
			if len(s) > 7 && s[:7] == "struct:" && s != "struct:plain:alone" {
				for _, alt := range []string{"struct:plain:alone", "struct:omitempty:alone", "struct:string:alone"} {
					if alt == s {
						continue
					}
					n := cur
					n.Desc.Steps = append([]string(nil), cur.Desc.Steps...)
					n.Desc.Steps[i] = alt
					if try(n) {
						changed = true
						break
					}
				}
			}
		}
		// simpler leaf
		for _, l := range []string{"int", "string", "bool"} {
			if cur.Desc.Leaf != l && cur.Desc.Leaf != "int" {
				n := cur
				n.Desc.Leaf = l
				if try(n) {
					changed = true
					break
				}
			}
		}
		// simpler mode
		for _, m := range modeOrder {
			if m == cur.Mode {
				break
			}
			n := cur
			n.Mode = m
			if try(n) {
				changed = true
				break
			}
		}
	}
	return cur
}
