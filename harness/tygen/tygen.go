// Package tygen realises the type constructions exported by TLC from specs/GoTypes.tla as
// reflect types, and generates values for them from a small set of deterministic value modes.
package tygen

import (
	"encoding/json"
	"fmt"
	"math"
	"math/rand"
	"reflect"
	"strings"
	"time"
)

// Desc is one construction: a leaf and the constructor steps applied outwards.
type Desc struct {
	Leaf  string   `json:"leaf"`
	Steps []string `json:"steps"`
}

func (d Desc) String() string {
	if len(d.Steps) == 0 {
		return d.Leaf
	}
	return d.Leaf + " > " + strings.Join(d.Steps, " > ")
}

// ---- catalogue of named types (what reflect cannot create) ----

type MarshalerV struct{ N int }

func (m MarshalerV) MarshalJSON() ([]byte, error) { return []byte(fmt.Sprintf(`{"mv":%d}`, m.N)), nil }

type MarshalerP struct{ N int }

func (m *MarshalerP) MarshalJSON() ([]byte, error) {
	if m == nil {
		return []byte(`"nilptr"`), nil
	}
	return []byte(fmt.Sprintf(`[ %d , "mp" ]`, m.N)), nil
}

type TextV struct{ S string }

func (t TextV) MarshalText() ([]byte, error) { return []byte("tv<" + t.S + ">"), nil }

type TextP struct{ S string }

func (t *TextP) MarshalText() ([]byte, error) {
	if t == nil {
		return []byte("niltext"), nil
	}
	return []byte("tp&" + t.S), nil
}

type TextKey struct{ K string }

func (t TextKey) MarshalText() ([]byte, error) { return []byte("k:" + t.K), nil }
func (t *TextKey) UnmarshalText(b []byte) error { t.K = strings.TrimPrefix(string(b), "k:"); return nil }

type Rec struct {
	V    int    `json:"v"`
	Next *Rec   `json:"next,omitempty"`
	L    []Rec  `json:"l"`
	S    string `json:"s"`
}
type RecMap struct {
	A, B, C, D int
	M          map[string]interface{}
	Self       *RecMap
}
type MutualA struct {
	X int      `json:"x"`
	B *MutualB `json:"b"`
}
type MutualB struct {
	Y  string    `json:"y"`
	As []MutualA `json:"as"`
}
type UnmarshalerP struct{ Raw string }

func (u *UnmarshalerP) UnmarshalJSON(b []byte) error { u.Raw = string(b); return nil }

type TextUnmarshalerP struct{ S string }

func (u *TextUnmarshalerP) UnmarshalText(b []byte) error { u.S = string(b); return nil }

// Scripted returns whatever bytes it was given (C03: marshalers returning arbitrary bytes).
type Scripted struct{ B string }

func (s Scripted) MarshalJSON() ([]byte, error) { return []byte(s.B), nil }

// BadNumbers are json.Number payloads that are not JSON numbers (plus a few that are).
var BadNumbers = []string{"1e", "--", "1.", ".5", "+1", "01", "1e+", "0x1", " 1", "1 ", "NaN", "Infinity", "-", "1,2", "1e5", "-0", "1\n", "\"1\"", "true", "1.5e-3x"}

// Scripts are marshaler outputs: valid and invalid JSON texts.
var Scripts = []string{"", " ", "nul", "tru", "01", "1.", "-", "[1,]", "{\"a\":1,}", "[1 2]", "{\"a\"}", "\"a", "\"\x01\"", "\"\\x\"", "1 2", "[1]]", "[", "{",
	"{\"a\":[1,{\"b\":null}]}", " [ 1 , 2 ] ", "\"ok\"", "1e5", "nulll", "\"\\u12\"", "\"\xff\"", "1\x00", "[1,\n2]", "{\"k\" : \"v\"}\n"}

// BothP / BothV implement json.Marshaler AND encoding.TextMarshaler (like math/big.Int): MarshalJSON must win.
type BothP struct{ N int }

func (b *BothP) MarshalJSON() ([]byte, error) { return []byte(fmt.Sprintf(`{"json":%d}`, b.N)), nil }
func (b *BothP) MarshalText() ([]byte, error) { return []byte(fmt.Sprintf("text-%d", b.N)), nil }

type BothV struct{ N int }

func (b BothV) MarshalJSON() ([]byte, error) { return []byte(fmt.Sprintf(`[%d]`, b.N)), nil }
func (b BothV) MarshalText() ([]byte, error) { return []byte(fmt.Sprintf("textv-%d", b.N)), nil }

type Empty struct{}
type PtrField struct{ P *int }

var namedTypes = map[string]reflect.Type{
	"MarshalerV": reflect.TypeOf(MarshalerV{}), "MarshalerP": reflect.TypeOf(MarshalerP{}),
	"TextV": reflect.TypeOf(TextV{}), "TextP": reflect.TypeOf(TextP{}),
	"Time": reflect.TypeOf(time.Time{}), "Number": reflect.TypeOf(json.Number("")), "Raw": reflect.TypeOf(json.RawMessage(nil)),
	"Rec": reflect.TypeOf(Rec{}), "RecMap": reflect.TypeOf(RecMap{}), "MutualA": reflect.TypeOf(MutualA{}),
	"UnmarshalerP": reflect.TypeOf(UnmarshalerP{}), "TextUnmarshalerP": reflect.TypeOf(TextUnmarshalerP{}),
	"Empty": reflect.TypeOf(Empty{}), "PtrField": reflect.TypeOf(PtrField{}), "Scripted": reflect.TypeOf(Scripted{}),
	"BothP": reflect.TypeOf(BothP{}), "BothV": reflect.TypeOf(BothV{}),
}

var scalarTypes = map[string]reflect.Type{
	"bool": reflect.TypeOf(false), "int": reflect.TypeOf(int(0)), "int8": reflect.TypeOf(int8(0)), "int16": reflect.TypeOf(int16(0)),
	"int32": reflect.TypeOf(int32(0)), "int64": reflect.TypeOf(int64(0)), "uint": reflect.TypeOf(uint(0)), "uint8": reflect.TypeOf(uint8(0)),
	"uint16": reflect.TypeOf(uint16(0)), "uint32": reflect.TypeOf(uint32(0)), "uint64": reflect.TypeOf(uint64(0)), "uintptr": reflect.TypeOf(uintptr(0)),
	"float32": reflect.TypeOf(float32(0)), "float64": reflect.TypeOf(float64(0)), "string": reflect.TypeOf(""), "bytes": reflect.TypeOf([]byte(nil)),
}

var ifaceType = reflect.TypeOf((*interface{})(nil)).Elem()

// Node is the realised type tree.
type Node struct {
	Kind   string // "scalar", "named", "ptr", "slice", "array", "map", "iface", "struct"
	Name   string // scalar kind / named type / step text
	RT     reflect.Type
	Elem   *Node
	Fields []*Node // struct members in order (Role tells which is the spine)
	Role   string  // for struct members: "spine", "sibling", "embedded", "shadow", "z"
	Tag    string
}

func leafNode(l string) (*Node, error) {
	if t, ok := scalarTypes[l]; ok {
		return &Node{Kind: "scalar", Name: l, RT: t}, nil
	}
	if t, ok := namedTypes[l]; ok {
		return &Node{Kind: "named", Name: l, RT: t}, nil
	}
	return nil, fmt.Errorf("unknown leaf %q", l)
}

func sibling(kind string) *Node {
	switch kind {
	case "int":
		return &Node{Kind: "scalar", Name: "int", RT: scalarTypes["int"], Role: "sibling", Tag: `json:"s"`}
	case "ptrstr":
		e := &Node{Kind: "scalar", Name: "string", RT: scalarTypes["string"]}
		return &Node{Kind: "ptr", Name: "ptr", RT: reflect.PtrTo(e.RT), Elem: e, Role: "sibling", Tag: `json:"s"`}
	default:
		e := &Node{Kind: "scalar", Name: "string", RT: scalarTypes["string"]}
		return &Node{Kind: "iface", Name: "iface", RT: ifaceType, Elem: e, Role: "sibling", Tag: `json:"s"`}
	}
}

func structOf(fields []*Node) (t reflect.Type, err error) {
	defer func() {
		if r := recover(); r != nil {
			err = fmt.Errorf("reflect.StructOf: %v", r)
		}
	}()
	var sf []reflect.StructField
	for i, f := range fields {
		name := fmt.Sprintf("F%d", i)
		sf = append(sf, reflect.StructField{Name: name, Type: f.RT, Tag: reflect.StructTag(f.Tag), Anonymous: f.Role == "embedded"})
	}
	return reflect.StructOf(sf), nil
}

// Build realises a construction.
func Build(d Desc) (*Node, error) {
	n, err := leafNode(d.Leaf)
	if err != nil {
		return nil, err
	}
	for _, s := range d.Steps {
		switch {
		case s == "ptr":
			n = &Node{Kind: "ptr", Name: s, RT: reflect.PtrTo(n.RT), Elem: n}
		case s == "slice":
			n = &Node{Kind: "slice", Name: s, RT: reflect.SliceOf(n.RT), Elem: n}
		case strings.HasPrefix(s, "array"):
			k := int(s[5] - '0')
			n = &Node{Kind: "array", Name: s, RT: reflect.ArrayOf(k, n.RT), Elem: n}
		case s == "map_s":
			n = &Node{Kind: "map", Name: s, RT: reflect.MapOf(scalarTypes["string"], n.RT), Elem: n}
		case s == "map_i":
			n = &Node{Kind: "map", Name: s, RT: reflect.MapOf(scalarTypes["int"], n.RT), Elem: n}
		case s == "map_p":
			n = &Node{Kind: "map", Name: s, RT: reflect.MapOf(reflect.PtrTo(scalarTypes["int"]), n.RT), Elem: n}
		case s == "map_t":
			n = &Node{Kind: "map", Name: s, RT: reflect.MapOf(reflect.TypeOf(TextKey{}), n.RT), Elem: n}
		case s == "iface":
			n = &Node{Kind: "iface", Name: s, RT: ifaceType, Elem: n}
		case strings.HasPrefix(s, "struct:"):
			parts := strings.Split(s, ":")
			tag := `json:"m`
			if strings.Contains(parts[1], "omitempty") {
				tag += ",omitempty"
			}
			if strings.Contains(parts[1], "string") {
				tag += ",string"
			}
			tag += `"`
			spine := *n
			spine.Role, spine.Tag = "spine", tag
			var fs []*Node
			switch {
			case strings.HasPrefix(parts[2], "before-"):
				fs = []*Node{sibling(strings.TrimPrefix(parts[2], "before-")), &spine}
			case strings.HasPrefix(parts[2], "after-"):
				fs = []*Node{&spine, sibling(strings.TrimPrefix(parts[2], "after-"))}
			case strings.HasPrefix(parts[2], "mid-"):
				last := sibling(strings.TrimPrefix(parts[2], "mid-"))
				last.Tag = `json:"t"`
				fs = []*Node{sibling(strings.TrimPrefix(parts[2], "mid-")), &spine, last}
			default:
				fs = []*Node{&spine}
			}
			t, err := structOf(fs)
			if err != nil {
				return nil, err
			}
			n = &Node{Kind: "struct", Name: s, RT: t, Fields: fs}
		case strings.HasPrefix(s, "struct-named:"):
			// member names whose spelling depends on the HTML-escaping flag / that are multi-byte; a plain sibling after (or before)
			name := map[string]string{"lt": "m<", "gt": ">m", "amp": "a&b", "mixed": "<&>", "u2": "m\u00e9"}[strings.TrimPrefix(s, "struct-named:")]
			if name == "" {
				return nil, fmt.Errorf("unknown step %q", s)
			}
			spine := *n
			spine.Role, spine.Tag = "spine", `json:"`+name+`"`
			fs := []*Node{&spine, sibling("int")}
			if strings.HasSuffix(s, ":mixed") {
				fs = []*Node{sibling("int"), &spine}
			}
			t, err := structOf(fs)
			if err != nil {
				return nil, err
			}
			n = &Node{Kind: "struct", Name: s, RT: t, Fields: fs}
		case strings.HasPrefix(s, "embed"):
			emb := *n
			emb.Role, emb.Tag = "embedded", ""
			if strings.HasPrefix(s, "embedP") {
				inner := *n
				emb = Node{Kind: "ptr", Name: "ptr", RT: reflect.PtrTo(n.RT), Elem: &inner, Role: "embedded"}
			}
			fs := []*Node{&emb, {Kind: "scalar", Name: "int", RT: scalarTypes["int"], Role: "z", Tag: `json:"z"`}}
			if strings.HasSuffix(s, "-shadowed") {
				fs = append(fs, &Node{Kind: "scalar", Name: "string", RT: scalarTypes["string"], Role: "shadow", Tag: `json:"m"`})
			}
			t, err := structOf(fs)
			if err != nil {
				return nil, err
			}
			n = &Node{Kind: "struct", Name: s, RT: t, Fields: fs}
		default:
			return nil, fmt.Errorf("unknown step %q", s)
		}
	}
	return n, nil
}

// ---- values ----

// Modes: "zero", "empty", "typical", "boundary", "rand:<seed>".
var Modes = []string{"zero", "empty", "typical", "boundary"}

type gen struct {
	mode    string
	rng     *rand.Rand
	special string // "nan", "inf", "neginf", "badnum", "script"
	k       int
}

func (g *gen) pick(n int) int {
	switch g.mode {
	case "zero", "empty":
		return 0
	case "typical":
		return 1 % n
	case "boundary":
		return n - 1
	}
	return g.rng.Intn(n)
}

var intVals = map[reflect.Kind][]int64{
	reflect.Int8:  {0, 7, -1, 99, -100, math.MaxInt8, math.MinInt8},
	reflect.Int16: {0, 300, -1, 9999, -10000, math.MaxInt16, math.MinInt16},
	reflect.Int32: {0, 70000, -1, 65536, 999999999, -1000000000, math.MaxInt32, math.MinInt32},
	reflect.Int64: {0, 5000000000, -1, 4294967296, 999999999999999999, -1000000000000000000, math.MaxInt64, math.MinInt64},
	reflect.Int:   {0, 42, -1, 100, 1 << 40, -99, math.MaxInt64, math.MinInt64},
}
var uintVals = map[reflect.Kind][]uint64{
	reflect.Uint8:   {0, 7, 99, 100, math.MaxUint8},
	reflect.Uint16:  {0, 300, 9999, 10000, math.MaxUint16},
	reflect.Uint32:  {0, 70000, 65536, 999999999, 1 << 31, math.MaxUint32},
	reflect.Uint64:  {0, 5000000000, 4294967296, 9999999999999999999, 1 << 63, math.MaxUint64},
	reflect.Uint:    {0, 42, 100, 1 << 40, math.MaxUint64},
	reflect.Uintptr: {0, 42, 1 << 33, math.MaxUint64},
}
var f64Vals = []float64{0, 1.5, -2, 100, 1e21, 1e-7, 123456789.12345679, 0.1, 1e20, 5e-324, math.MaxFloat64, -1e-9, 4.35, 1e6}
var f32Vals = []float64{0, 1.5, -2, 16777216, 1e21, 1e-7, 3.4e38, 0.1, 1.1754944e-38, 0.3, 1e6}
var strVals = []string{"", "a", "hello world", "<é&\"\\\n>", " x\x7f", "12", "null", "\xff\xc0", strings.Repeat("x", 70) + "\t", "true",
	// the last entry is what the "boundary" mode picks: the code points next to every UTF-8 length change and to the surrogate gap
	"\u007f\u0080\u07ff\u0800\ud7ff\ue000\ufffd\uffff\U00010000\U0010ffff"}

func (g *gen) value(n *Node, depth int) reflect.Value {
	v := reflect.New(n.RT).Elem()
	if g.mode == "zero" {
		return v
	}
	switch n.Kind {
	case "scalar":
		switch n.RT.Kind() {
		case reflect.Bool:
			v.SetBool(g.pick(2) == 1)
		case reflect.Int, reflect.Int8, reflect.Int16, reflect.Int32, reflect.Int64:
			vs := intVals[n.RT.Kind()]
			v.SetInt(vs[g.pick(len(vs))])
		case reflect.Uint, reflect.Uint8, reflect.Uint16, reflect.Uint32, reflect.Uint64, reflect.Uintptr:
			vs := uintVals[n.RT.Kind()]
			v.SetUint(vs[g.pick(len(vs))])
		case reflect.Float32, reflect.Float64:
			switch g.special {
			case "nan":
				v.SetFloat(math.NaN())
			case "inf":
				v.SetFloat(math.Inf(1))
			case "neginf":
				v.SetFloat(math.Inf(-1))
			default:
				if n.RT.Kind() == reflect.Float32 {
					v.SetFloat(f32Vals[g.pick(len(f32Vals))])
				} else {
					v.SetFloat(f64Vals[g.pick(len(f64Vals))])
				}
			}
		case reflect.String:
			v.SetString(strVals[g.pick(len(strVals))])
		case reflect.Slice: // []byte
			bs := [][]byte{nil, {}, []byte("hi"), {0, 255, 10, '<'}, []byte(strings.Repeat("z", 40))}
			k := g.pick(len(bs))
			if g.mode == "empty" {
				k = 1
			}
			if bs[k] != nil {
				v.SetBytes(append([]byte(nil), bs[k]...))
			}
		}
	case "named":
		g.named(n, v, depth)
	case "ptr":
		if g.mode != "empty" && g.mode != "typical" && g.mode != "boundary" && g.rng.Intn(3) == 0 {
			return v // nil
		}
		p := reflect.New(n.Elem.RT)
		p.Elem().Set(g.value(n.Elem, depth+1))
		v.Set(p)
	case "slice":
		k := []int{0, 1, 2}[g.pick(3)]
		if g.mode == "rand" && g.rng.Intn(4) == 0 {
			return v // nil slice
		}
		s := reflect.MakeSlice(n.RT, k, k)
		for i := 0; i < k; i++ {
			s.Index(i).Set(g.sub(n.Elem, depth+1, i))
		}
		v.Set(s)
	case "array":
		for i := 0; i < n.RT.Len(); i++ {
			v.Index(i).Set(g.sub(n.Elem, depth+1, i))
		}
	case "map":
		k := []int{0, 1, 2}[g.pick(3)]
		if g.mode == "rand" && g.rng.Intn(4) == 0 {
			return v
		}
		m := reflect.MakeMap(n.RT)
		keys := []string{"b", "a<", "é"}
		for i := 0; i < k; i++ {
			kv := reflect.New(n.RT.Key()).Elem()
			switch n.RT.Key().Kind() {
			case reflect.String:
				kv.SetString(keys[i])
			case reflect.Int:
				kv.SetInt([]int64{10, -2, 3}[i])
			case reflect.Ptr:
				if i > 0 { // the first key stays nil
					x := []int{0, -2, 3}[i]
					kv.Set(reflect.ValueOf(&x))
				}
			default:
				kv.Field(0).SetString(keys[i])
			}
			m.SetMapIndex(kv, g.sub(n.Elem, depth+1, i))
		}
		v.Set(m)
	case "iface":
		if g.mode == "rand" && g.rng.Intn(4) == 0 {
			return v
		}
		inner := g.value(n.Elem, depth+1)
		if inner.Kind() == reflect.Interface && inner.IsNil() {
			return v
		}
		v.Set(inner)
	case "struct":
		for i, f := range n.Fields {
			v.Field(i).Set(g.value(f, depth+1))
		}
	}
	return v
}

// sub varies element values a little between container elements
func (g *gen) sub(n *Node, depth, i int) reflect.Value {
	if i == 0 || g.mode == "rand" {
		return g.value(n, depth)
	}
	alt := &gen{mode: "typical", rng: g.rng}
	if g.mode == "typical" {
		alt.mode = "boundary"
	}
	return alt.value(n, depth)
}

func (g *gen) named(n *Node, v reflect.Value, depth int) {
	k := g.pick(3)
	switch n.Name {
	case "MarshalerV", "MarshalerP", "BothP", "BothV":
		v.Field(0).SetInt(int64(k * 7))
	case "TextV", "TextP":
		v.Field(0).SetString([]string{"", "t", "a\"<b"}[k])
	case "Time":
		ts := []time.Time{{}, time.Date(2020, 2, 29, 12, 30, 15, 0, time.UTC), time.Date(1999, 12, 31, 23, 59, 59, 999999999, time.FixedZone("x", 3600))}
		v.Set(reflect.ValueOf(ts[k]))
	case "Scripted":
		if g.special == "script" {
			v.Field(0).SetString(Scripts[g.k%len(Scripts)])
		} else {
			v.Field(0).SetString(`{"scripted":[1,2]}`)
		}
	case "Number":
		v.SetString([]string{"0", "12.5", "-1e+10"}[k])
		if g.special == "badnum" {
			v.SetString(BadNumbers[g.k%len(BadNumbers)])
			return
		}
		if g.mode == "empty" {
			v.SetString("")
		}
	case "Raw":
		raws := []string{`null`, `{"a": [1, 2 ]}`, ` "x" `}
		if g.mode != "empty" {
			v.SetBytes([]byte(raws[k]))
		}
	case "Rec":
		r := Rec{V: k, S: "r"}
		if g.mode != "empty" && depth < 6 {
			r.Next = &Rec{V: k + 1, L: []Rec{{V: 9}, {V: 8, Next: &Rec{S: "deep"}}}}
			r.L = []Rec{{V: -1}}
		}
		v.Set(reflect.ValueOf(r))
	case "RecMap":
		r := RecMap{A: 1, B: 2, C: 3, D: 4}
		if g.mode != "empty" {
			r.M = map[string]interface{}{"k": []interface{}{1.5, "s", nil, map[string]interface{}{"n": true}}}
			r.Self = &RecMap{A: 5, M: map[string]interface{}{"z": 1.0}, Self: &RecMap{D: 7}}
		}
		v.Set(reflect.ValueOf(r))
	case "MutualA":
		a := MutualA{X: k}
		if g.mode != "empty" {
			a.B = &MutualB{Y: "y", As: []MutualA{{X: 2, B: &MutualB{Y: "in"}}, {X: 3}}}
		}
		v.Set(reflect.ValueOf(a))
	case "UnmarshalerP":
		v.Field(0).SetString([]string{"", "raw", `{"x":1}`}[k])
	case "TextUnmarshalerP":
		v.Field(0).SetString([]string{"", "txt", "a b"}[k])
	case "PtrField":
		if g.mode != "empty" {
			x := k
			v.Field(0).Set(reflect.ValueOf(&x))
		}
	}
}

// Value generates a value of the node's static type.  mode is one of Modes or "rand:<seed>".
func (n *Node) Value(mode string) reflect.Value {
	g := &gen{mode: mode}
	if strings.HasPrefix(mode, "rand:") {
		var seed int64
		fmt.Sscanf(mode[5:], "%d", &seed)
		g.mode = "rand"
		g.rng = rand.New(rand.NewSource(seed))
	} else if mode == "nan" || mode == "inf" || mode == "neginf" || strings.HasPrefix(mode, "badnum:") || strings.HasPrefix(mode, "script:") {
		g.special = strings.Split(mode, ":")[0]
		if i := strings.IndexByte(mode, ':'); i >= 0 {
			fmt.Sscanf(mode[i+1:], "%d", &g.k)
		}
		g.mode = "typical"
		g.rng = rand.New(rand.NewSource(1))
	} else {
		g.rng = rand.New(rand.NewSource(1))
	}
	return g.value(n, 0)
}

// Features lists the constructors and leaf of a construction (used in signatures).
func (d Desc) Features() string {
	return d.String()
}

// direct reports whether values of t are stored directly in an interface word (pointer-shaped types).
func direct(t reflect.Type) bool {
	switch t.Kind() {
	case reflect.Ptr, reflect.Map, reflect.Chan, reflect.Func, reflect.UnsafePointer:
		return true
	case reflect.Array:
		return t.Len() == 1 && direct(t.Elem())
	case reflect.Struct:
		return t.NumField() == 1 && direct(t.Field(0).Type)
	}
	return false
}

func hasDirectArray(t reflect.Type, seen map[reflect.Type]bool) bool {
	if seen[t] {
		return false
	}
	seen[t] = true
	switch t.Kind() {
	case reflect.Array:
		if t.Len() == 1 && direct(t.Elem()) {
			return true
		}
		return hasDirectArray(t.Elem(), seen)
	case reflect.Ptr, reflect.Slice:
		return hasDirectArray(t.Elem(), seen)
	case reflect.Map:
		return hasDirectArray(t.Elem(), seen)
	case reflect.Struct:
		for i := 0; i < t.NumField(); i++ {
			if hasDirectArray(t.Field(i).Type, seen) {
				return true
			}
		}
	}
	return false
}

// KnownUnsafe names the family of constructions on which the unchanged encoder is memory-unsafe
// (its behaviour there depends on stale memory and is not reproducible); such cases are excluded from
// the differential comparison and covered by one isolated witness per family (known findings).
//   "array1-of-pointer-shaped": a [1]T whose element is pointer-shaped ([1]*T, [1]map[K]V, ...) anywhere in the type
//   "top-level-pointer-to-pointer-to-pointer-shaped": the value handed to Marshal is **X with X pointer-shaped or a struct (**map, ***T, **struct{...})
func KnownUnsafe(n *Node, reach string) string {
	if hasDirectArrayNode(n) {
		return "array1-of-pointer-shaped"
	}
	t := n.RT
	depth := 0
	if reach == "ptr" {
		depth = 1
	}
	for t.Kind() == reflect.Ptr {
		depth++
		t = t.Elem()
	}
	if depth >= 2 && (direct(t) || t.Kind() == reflect.Struct) || depth >= 3 {
		return "top-level-pointer-to-pointer-to-pointer-shaped"
	}
	if hasNestedDoublePointer(n, false) {
		return "nested-pointer-to-pointer"
	}
	return ""
}

// hasNestedDoublePointer: a **T somewhere INSIDE a container or struct (element, map value, member).  The library's results for
// such values depend on stale memory (nil-pointer panics that come and go between runs), so they cannot be compared case by case.
func hasNestedDoublePointer(n *Node, inside bool) bool {
	if n == nil {
		return false
	}
	if inside && n.Kind == "ptr" && n.Elem != nil && n.Elem.Kind == "ptr" {
		return true
	}
	if n.Kind == "struct" {
		for _, f := range n.Fields {
			if hasNestedDoublePointer(f, true) {
				return true
			}
		}
		return false
	}
	return hasNestedDoublePointer(n.Elem, inside || n.Kind != "ptr")
}

func hasDirectArrayNode(n *Node) bool {
	if hasDirectArray(n.RT, map[reflect.Type]bool{}) {
		return true
	}
	for cur := n; cur != nil; cur = cur.Elem {
		if cur.Kind == "iface" && cur.Elem != nil && hasDirectArrayNode(cur.Elem) {
			return true
		}
		for _, f := range cur.Fields {
			if f != cur && hasDirectArrayNode(f) {
				return true
			}
		}
	}
	return false
}

// HasLeaf reports whether the construction's leaf is one of the given names.
func (d Desc) HasLeaf(names ...string) bool {
	for _, n := range names {
		if d.Leaf == n {
			return true
		}
	}
	return false
}
