package c10

import "verifharness/wk"

func Run(job *wk.Job, w *wk.Worker) error { return nil }
