// Package c10 drives property C10 (all package functions are safe under concurrent use).
//
// Part S replays schedules emitted by TLC from specs/TypeCache.tla (GenSpec): the verif hooks of the
// per-type caches ("lookup", "miss", "publish") park each goroutine, and a controller releases them in
// the order the specification's behaviour prescribes, on types never used before in the process.  Every
// call must return what it returns alone, every goroutine must be found at the hook the behaviour
// predicts (otherwise the model does not describe the code: counted as desync), and everything must
// terminate once all hooks are opened.
//
// Part R lets the Go scheduler interleave G goroutines x mixed operations over cold and shared types,
// shared field queries and shared paths, at several GOMAXPROCS; results are compared with the ones
// computed before the goroutines start.  The same runner runs in the -race build, whose reports the
// driver collects.
package c10

import (
	"bytes"
	"context"
	stdjson "encoding/json"
	"fmt"
	"math/rand"
	"os"
	"reflect"
	"runtime"
	"sort"
	"strconv"
	"strings"
	"sync"
	"sync/atomic"
	"time"
	"unsafe"

	json "github.com/goccy/go-json"

	"verifharness/tyreg"
	"verifharness/wk"
)

type Params struct {
	Mode      string `json:"mode"`      // "sched" or "stress"
	Schedules string `json:"schedules"` // ndjson file (mode sched)
	Variant   string `json:"variant"`   // "norace" / "race": which build this binary is
	Rounds    int    `json:"rounds"`    // mode stress
}

type call struct {
	Side string `json:"side"`
	T    string `json:"t"`
	Q    bool   `json:"q"`
}

type schedule struct {
	Plan  map[string][]call `json:"plan"`
	QWarm bool              `json:"qwarm"`
	Sched [][]string        `json:"sched"` // [goroutine, hook, type]
	Src   string            `json:"src"`
}

type eface struct{ typ, data unsafe.Pointer }

func typePtr(v interface{}) uintptr { return uintptr((*eface)(unsafe.Pointer(&v)).typ) }

func goid() int64 {
	var buf [64]byte
	n := runtime.Stack(buf[:], false)
	s := string(buf[:n])
	s = strings.TrimPrefix(s, "goroutine ")
	if i := strings.IndexByte(s, ' '); i > 0 {
		id, _ := strconv.ParseInt(s[:i], 10, 64)
		return id
	}
	return -1
}

// ---- cooperative scheduler on the cache hooks ----

const (
	stRunning int32 = iota
	stParked
	stDone
)

type gctl struct {
	name   string
	state  int32 // atomic
	point  string
	tname  string
	resume chan struct{}
}

type coop struct {
	mu      sync.Mutex
	byGoid  map[int64]*gctl
	watched map[uintptr]string // typeptr -> model type name
	free    int32              // atomic: hooks pass through
}

var theCoop atomic.Value // *coop or nil-holder

type coopBox struct{ c *coop }

func gate(side, point string, typeptr uintptr) {
	b, _ := theCoop.Load().(coopBox)
	c := b.c
	if c == nil || atomic.LoadInt32(&c.free) != 0 {
		return
	}
	tn, ok := c.watched[typeptr] // read-only after the goroutines start
	if !ok {
		return
	}
	c.mu.Lock()
	g := c.byGoid[goid()]
	c.mu.Unlock()
	if g == nil {
		return
	}
	g.point, g.tname = point, tn
	atomic.StoreInt32(&g.state, stParked)
	<-g.resume
}

func waitNot(g *gctl, st int32, d time.Duration) bool {
	deadline := time.Now().Add(d)
	for i := 0; ; i++ {
		if atomic.LoadInt32(&g.state) != st {
			return true
		}
		if i < 200 {
			runtime.Gosched()
		} else {
			time.Sleep(20 * time.Microsecond)
		}
		if time.Now().After(deadline) {
			return atomic.LoadInt32(&g.state) != st
		}
	}
}

// ---- values ----

var (
	queryTypePtr = typePtr((*json.FieldQuery)(nil))
	usedT        int
	hseq         int
	qTypeWarm    bool
)

type result struct {
	out string
	err string
}

func freshStatic() (tyreg.Entry, bool) {
	ts := tEntries()
	if usedT >= len(ts) {
		return tyreg.Entry{}, false
	}
	e := ts[usedT]
	usedT++
	return e, true
}

var tCache []tyreg.Entry

func tEntries() []tyreg.Entry {
	if tCache == nil {
		tCache = tyreg.ByKind("T")
	}
	return tCache
}

// freshHeap makes a never-seen struct type on the heap and a pointer to a populated value of it.
func freshHeap() func() interface{} {
	hseq++
	n := hseq
	st := reflect.StructOf([]reflect.StructField{
		{Name: "A", Type: reflect.TypeOf(0), Tag: `json:"A"`},
		{Name: "B", Type: reflect.TypeOf(0), Tag: `json:"B"`},
		{Name: "U", Type: reflect.TypeOf(0), Tag: reflect.StructTag(fmt.Sprintf(`json:"h%d_%d"`, os.Getpid(), n))},
	})
	return func() interface{} {
		v := reflect.New(st)
		v.Elem().Field(0).SetInt(int64(n))
		v.Elem().Field(1).SetInt(int64(2 * n))
		v.Elem().Field(2).SetInt(int64(3*n + 1))
		return v.Interface()
	}
}

func Run(job *wk.Job, w *wk.Worker) error {
	var p Params
	if err := stdjson.Unmarshal(job.Params, &p); err != nil {
		return err
	}
	if len(tyreg.Static) == 0 {
		return fmt.Errorf("c10 needs the many-types binary (tyreg.Static is empty)")
	}
	var evMu sync.Mutex
	badOwn := 0
	json.VerifSetCacheTracer(func(e json.VerifCacheEvent) {
		if e.ProgType != 0 && e.ProgType != e.TypePtr {
			evMu.Lock()
			badOwn++
			evMu.Unlock()
		}
	})
	defer json.VerifSetCacheTracer(nil)
	var err error
	switch p.Mode {
	case "sched":
		err = runSched(job, w, &p)
	case "stress":
		err = runStress(job, w, &p)
	case "burst":
		err = runBurst(job, w, &p)
	default:
		err = fmt.Errorf("unknown mode %q", p.Mode)
	}
	if badOwn > 0 {
		w.DivCase("own-program|"+p.Variant, false, fmt.Sprintf("%d lookups returned a program compiled for another type", badOwn), map[string]string{"mode": p.Mode})
	}
	return err
}

// ---- part S ----

func runSched(job *wk.Job, w *wk.Worker, p *Params) error {
	json.VerifSetCacheGate(gate)
	defer json.VerifSetCacheGate(nil)
	theCoop.Store(coopBox{})
	if job.Replay != nil {
		var s schedule
		if err := stdjson.Unmarshal(job.Replay, &s); err != nil {
			return err
		}
		w.Begin(0, func() interface{} { return s })
		replaySchedule(w, p, &s)
		return nil
	}
	data, err := os.ReadFile(p.Schedules)
	if err != nil {
		return err
	}
	lines := bytes.Split(bytes.TrimSpace(data), []byte("\n"))
	for i, ln := range lines {
		idx := int64(i)
		if !w.Mine(idx) {
			continue
		}
		var s schedule
		if err := stdjson.Unmarshal(ln, &s); err != nil {
			return err
		}
		w.Begin(idx, func() interface{} { return s })
		replaySchedule(w, p, &s)
	}
	return nil
}

func hasQ(s *schedule) bool {
	for _, cs := range s.Plan {
		for _, c := range cs {
			if c.Q {
				return true
			}
		}
	}
	return false
}

type planned struct {
	c      call
	mk     func() interface{}
	expect result
}

func replaySchedule(w *wk.Worker, p *Params, s *schedule) {
	if hasQ(s) && !s.QWarm && qTypeWarm {
		w.Count("skipped-query-type-already-warm", 1)
		return
	}
	if hasQ(s) && s.QWarm && !qTypeWarm {
		// warm the query type's own program
		q0, _ := json.BuildFieldQuery("Z")
		_, _ = json.Marshal(q0)
		qTypeWarm = true
	}
	// bind the model's types to types never used before
	makers := map[string]func() interface{}{}
	c := &coop{byGoid: map[int64]*gctl{}, watched: map[uintptr]string{queryTypePtr: "Q"}}
	names := map[string]bool{}
	for _, cs := range s.Plan {
		for _, cl := range cs {
			names[cl.T] = true
		}
	}
	var sorted []string
	for n := range names {
		sorted = append(sorted, n)
	}
	sort.Strings(sorted)
	for _, n := range sorted {
		if n == "H" || n == "J" {
			makers[n] = freshHeap()
		} else {
			e, ok := freshStatic()
			if !ok {
				w.Count("skipped-no-cold-type-left", 1)
				return
			}
			makers[n] = e.New
		}
		c.watched[typePtr(makers[n]())] = n
	}
	query, _ := json.BuildFieldQuery("A")
	ctx := json.SetFieldQueryToContext(context.Background(), query)

	// expected results, computed without touching go-json's caches for these types
	plans := map[string][]planned{}
	var gnames []string
	for g, cs := range s.Plan {
		gnames = append(gnames, g)
		for _, cl := range cs {
			pl := planned{c: cl, mk: makers[cl.T]}
			v := pl.mk()
			full, _ := stdjson.Marshal(v)
			switch {
			case cl.Side == "enc" && cl.Q:
				a := reflect.ValueOf(v).Elem().Field(0).Int()
				pl.expect = result{out: fmt.Sprintf(`{"A":%d}`, a)}
			case cl.Side == "enc":
				pl.expect = result{out: string(full)}
			default:
				pl.expect = result{out: string(full)} // decode the full document, re-render with encoding/json
			}
			plans[g] = append(plans[g], pl)
		}
	}
	sort.Strings(gnames)
	ctl := map[string]*gctl{}
	results := map[string][]result{}
	var wg sync.WaitGroup
	var resMu sync.Mutex
	started := make(chan struct{})
	for _, g := range gnames {
		gc := &gctl{name: g, resume: make(chan struct{})}
		ctl[g] = gc
		wg.Add(1)
		go func(g string, gc *gctl, pls []planned) {
			defer wg.Done()
			c.mu.Lock()
			c.byGoid[goid()] = gc
			c.mu.Unlock()
			<-started
			var rs []result
			for _, pl := range pls {
				rs = append(rs, doCall(pl, ctx))
			}
			resMu.Lock()
			results[g] = rs
			resMu.Unlock()
			atomic.StoreInt32(&gc.state, stDone)
		}(g, gc, plans[g])
	}
	// all goroutines registered?
	for {
		c.mu.Lock()
		n := len(c.byGoid)
		c.mu.Unlock()
		if n == len(gnames) {
			break
		}
		runtime.Gosched()
	}
	theCoop.Store(coopBox{c})
	close(started)

	desync := ""
	blocked := 0
	for k, st := range s.Sched {
		g := ctl[st[0]]
		if g == nil {
			continue
		}
		if !waitNot(g, stRunning, 300*time.Millisecond) {
			blocked++ // blocked on a lock held by a parked goroutine (race build)
			continue
		}
		if atomic.LoadInt32(&g.state) == stDone {
			if desync == "" {
				desync = fmt.Sprintf("step %d: %s already finished, model expects it at %s(%s)", k, st[0], st[1], st[2])
			}
			continue
		}
		if (g.point != st[1] || g.tname != st[2]) && desync == "" {
			desync = fmt.Sprintf("step %d: %s is at %s(%s), model expects %s(%s)", k, st[0], g.point, g.tname, st[1], st[2])
		}
		atomic.StoreInt32(&g.state, stRunning)
		g.resume <- struct{}{}
		// run-to-next-hook: give it time to park again, finish, or block on a lock
		waitNot(g, stRunning, 20*time.Millisecond)
	}
	// the model's behaviour is complete: every goroutine should be done (or parked, if the code has more hook passages than the model)
	extra := 0
	atomic.StoreInt32(&c.free, 1)
	for _, g := range ctl {
		if waitNot(g, stRunning, 50*time.Millisecond) && atomic.LoadInt32(&g.state) == stParked {
			extra++
			atomic.StoreInt32(&g.state, stRunning)
			g.resume <- struct{}{}
		}
	}
	done := make(chan struct{})
	go func() { wg.Wait(); close(done) }()
	hung := false
	deadline := time.After(20 * time.Second)
loop:
	for {
		select {
		case <-done:
			break loop
		case <-deadline:
			hung = true
			break loop
		case <-time.After(5 * time.Millisecond):
			// a goroutine may have parked between the free flag and its hook: release it
			for _, g := range ctl {
				if atomic.LoadInt32(&g.state) == stParked {
					atomic.StoreInt32(&g.state, stRunning)
					select {
					case g.resume <- struct{}{}:
					default:
						atomic.StoreInt32(&g.state, stParked)
					}
				}
			}
		}
	}
	theCoop.Store(coopBox{})
	if hasQ(s) {
		qTypeWarm = true
	}
	w.Nontrivial()
	w.Count("calls", int64(len(s.Sched)))
	if hung {
		buf := make([]byte, 1<<16)
		n := runtime.Stack(buf, true)
		w.DivFine("hang|"+p.Variant+"|"+planClass(s), "hang", true, "the calls did not return within 20 s after all hooks were opened\n"+clipS(string(buf[:n]), 3000), s)
		// the stuck goroutines cannot be recovered: leave the process
		w.Finish()
		os.Exit(0)
	}
	if extra > 0 && desync == "" {
		desync = fmt.Sprintf("%d goroutine(s) still parked at a hook after the model's behaviour ended", extra)
	}
	if desync != "" {
		w.Count("desync", 1)
		if w.WantSample() {
			w.Sample(map[string]interface{}{"desync": desync, "schedule": s})
		}
	} else {
		w.Count("in-step-with-model", 1)
	}
	if blocked > 0 {
		w.Count("lock-blocked-steps", int64(blocked))
	}
	for _, g := range gnames {
		for i, pl := range plans[g] {
			var r result
			if i < len(results[g]) {
				r = results[g][i]
			}
			if r != pl.expect {
				w.DivFine("result|"+p.Variant+"|"+pl.c.Side+"|"+tclass(pl.c), fmt.Sprintf("%s|%v", pl.c.T, pl.c.Q), true,
					fmt.Sprintf("%s's call %d (%+v) returned %q (err %q), alone it returns %q", g, i, pl.c, clipS(r.out, 200), r.err, clipS(pl.expect.out, 200)), s)
			}
		}
	}
}

func planClass(s *schedule) string {
	if hasQ(s) {
		return "field-query"
	}
	return "plain"
}

func tclass(c call) string {
	k := "fast-type"
	if c.T == "H" || c.T == "J" {
		k = "heap-type"
	}
	if c.Q {
		k += "+field-query"
	}
	return k
}

func clipS(s string, n int) string {
	if len(s) > n {
		return s[:n] + "..."
	}
	return s
}

func doCall(pl planned, ctx context.Context) (r result) {
	defer func() {
		if x := recover(); x != nil {
			r = result{err: "panic: " + fmt.Sprint(x)}
		}
	}()
	v := pl.mk()
	switch {
	case pl.c.Side == "enc" && pl.c.Q:
		b, err := json.MarshalContext(ctx, v)
		return mk(b, err)
	case pl.c.Side == "enc":
		b, err := json.Marshal(v)
		return mk(b, err)
	default:
		doc, _ := stdjson.Marshal(v)
		dst := reflect.New(reflect.TypeOf(v).Elem())
		if err := json.Unmarshal(doc, dst.Interface()); err != nil {
			return result{err: err.Error()}
		}
		b, err := stdjson.Marshal(dst.Interface())
		return mk(b, err)
	}
}

func mk(b []byte, err error) result {
	if err != nil {
		return result{err: err.Error()}
	}
	return result{out: string(b)}
}

// ---- part R ----

type op struct {
	Name   string `json:"name"`
	run    func() result
	expect result
}

type roundCfg struct {
	Round      int   `json:"round"`
	Goroutines int   `json:"goroutines"`
	Procs      int   `json:"gomaxprocs"`
	Seed       int64 `json:"seed"`
}

type sharedT struct {
	ID   int               `json:"id"`
	Name string            `json:"name"`
	Tags []string          `json:"tags"`
	M    map[string]int    `json:"m"`
	I    interface{}       `json:"i"`
	Sub  *sharedT          `json:"sub,omitempty"`
	F    float64           `json:"f"`
	Raw  stdjson.RawMessage `json:"raw,omitempty"`
}

func runStress(job *wk.Job, w *wk.Worker, p *Params) error {
	gs := []int{2, 4, 8, 16, 32, 64}
	ps := []int{1, 2, 4, 16}
	defer runtime.GOMAXPROCS(runtime.GOMAXPROCS(0))
	if job.Replay != nil {
		var rc roundCfg
		if err := stdjson.Unmarshal(job.Replay, &rc); err != nil {
			return err
		}
		w.Begin(0, func() interface{} { return rc })
		stressRound(w, p, rc)
		return nil
	}
	for r := 0; r < p.Rounds; r++ {
		idx := int64(r)
		if !w.Mine(idx) {
			continue
		}
		rc := roundCfg{Round: r, Goroutines: gs[r%len(gs)], Procs: ps[(r/len(gs))%len(ps)], Seed: job.Seed*7919 + int64(r)}
		w.Begin(idx, func() interface{} { return rc })
		stressRound(w, p, rc)
	}
	return nil
}

func stressRound(w *wk.Worker, p *Params, rc roundCfg) {
	rng := rand.New(rand.NewSource(rc.Seed))
	runtime.GOMAXPROCS(rc.Procs)
	// cold material for this round
	var cold []tyreg.Entry
	kinds := []string{"T", "Tv", "L", "D", "E", "sp", "a2", "mv", "as", "pl", "N", "M"}
	base := usedT
	for i := 0; i < 6 && base+i < len(tEntries()); i++ {
		usedT++
		idx := tEntries()[base+i].Idx
		for _, e := range tyreg.Static {
			if e.Idx == idx {
				cold = append(cold, e)
			}
		}
	}
	_ = kinds
	if len(cold) == 0 {
		w.Count("skipped-no-cold-type-left", 1)
		return
	}
	query, _ := json.BuildFieldQuery("A", "B") // shared, hash not yet computed
	qctx := json.SetFieldQueryToContext(context.Background(), query)
	path, _ := json.CreatePath("$.tags[1]")
	path2, _ := json.CreatePath("$..id")
	shared := &sharedT{ID: 7, Name: "sh\"ared <>", Tags: []string{"a", "b", "c"}, M: map[string]int{"z": 1, "a": 2, "m": 3},
		I: []interface{}{1.5, "x", nil, map[string]interface{}{"k": true}}, Sub: &sharedT{ID: 8, Tags: []string{}, M: map[string]int{}}, F: 1e21,
		Raw: stdjson.RawMessage(`{"r":[1,2]}`)}
	sharedDoc, _ := stdjson.Marshal(shared)
	big := make([]int, 200)
	for i := range big {
		big[i] = i * 3
	}
	bigDoc, _ := stdjson.Marshal(big)
	heapMk := freshHeap()

	// the catalogue of operations; expectations come from encoding/json (cold types) or from a sequential call on shared, warm types
	var cat []func() op
	for _, e := range cold {
		e := e
		v0 := e.New()
		want, _ := stdjson.Marshal(v0)
		cat = append(cat, func() op {
			return op{Name: "Marshal(cold " + e.Kind + ")", expect: result{out: string(want)}, run: func() result { return mk(json.Marshal(e.New())) }}
		})
		cat = append(cat, func() op {
			return op{Name: "Unmarshal(cold " + e.Kind + ")", expect: result{out: string(want)}, run: func() result {
				dst := reflect.New(reflect.TypeOf(v0))
				if err := json.Unmarshal(want, dst.Interface()); err != nil {
					return result{err: err.Error()}
				}
				return mk(stdjson.Marshal(dst.Elem().Interface()))
			}}
		})
		if e.Kind == "T" {
			a := reflect.ValueOf(v0).Elem().Field(0).Int()
			b := reflect.ValueOf(v0).Elem().Field(1).Int()
			cat = append(cat, func() op {
				return op{Name: "MarshalContext(shared query, cold T)", expect: result{out: fmt.Sprintf(`{"A":%d,"B":%d}`, a, b)},
					run: func() result { return mk(json.MarshalContext(qctx, e.New())) }}
			})
			cat = append(cat, func() op {
				return op{Name: "Encoder.Encode(cold T)", expect: result{out: string(want) + "\n"}, run: func() result {
					var buf bytes.Buffer
					err := json.NewEncoder(&buf).Encode(e.New())
					return mk(buf.Bytes(), err)
				}}
			})
			cat = append(cat, func() op {
				return op{Name: "Decoder.Decode(cold T)", expect: result{out: string(want)}, run: func() result {
					dst := reflect.New(reflect.TypeOf(v0).Elem())
					if err := json.NewDecoder(bytes.NewReader(want)).Decode(dst.Interface()); err != nil {
						return result{err: err.Error()}
					}
					return mk(stdjson.Marshal(dst.Interface()))
				}}
			})
		}
		if e.Kind == "L" {
			// a long array into the same named slice type from many goroutines (pooled scratch arrays)
			n := 80 + rng.Intn(60)
			lv := reflect.MakeSlice(reflect.TypeOf(v0), n, n)
			for i := 0; i < n; i++ {
				lv.Index(i).Field(0).SetInt(int64(i + 1))
				lv.Index(i).Field(2).SetInt(int64(e.Idx))
			}
			ldoc, _ := stdjson.Marshal(lv.Interface())
			cat = append(cat, func() op {
				return op{Name: "Unmarshal(long array into cold named slice)", expect: result{out: string(ldoc)}, run: func() result {
					dst := reflect.New(reflect.TypeOf(v0))
					if err := json.Unmarshal(ldoc, dst.Interface()); err != nil {
						return result{err: err.Error()}
					}
					return mk(stdjson.Marshal(dst.Elem().Interface()))
				}}
			})
		}
	}
	hv := heapMk()
	hwant, _ := stdjson.Marshal(hv)
	cat = append(cat, func() op {
		return op{Name: "Marshal(cold heap type)", expect: result{out: string(hwant)}, run: func() result { return mk(json.Marshal(heapMk())) }}
	})
	for k := 0; k < 3; k++ { // several DIFFERENT heap types first used at the same time (copy-on-write map updates from one snapshot)
		mk2 := freshHeap()
		w2, _ := stdjson.Marshal(mk2())
		cat = append(cat, func() op {
			return op{Name: "Marshal(another cold heap type)", expect: result{out: string(w2)}, run: func() result { return mk(json.Marshal(mk2())) }}
		})
		cat = append(cat, func() op {
			return op{Name: "Unmarshal(another cold heap type)", expect: result{out: string(w2)}, run: func() result {
				dst := reflect.New(reflect.TypeOf(mk2()).Elem())
				if err := json.Unmarshal(w2, dst.Interface()); err != nil {
					return result{err: err.Error()}
				}
				return mk(stdjson.Marshal(dst.Interface()))
			}}
		})
	}
	cat = append(cat, func() op {
		return op{Name: "Unmarshal(cold heap type)", expect: result{out: string(hwant)}, run: func() result {
			dst := reflect.New(reflect.TypeOf(hv).Elem())
			if err := json.Unmarshal(hwant, dst.Interface()); err != nil {
				return result{err: err.Error()}
			}
			return mk(stdjson.Marshal(dst.Interface()))
		}}
	})
	seq := func(name string, f func() result) {
		exp := f() // alone, before the goroutines start (shared, warm material only)
		cat = append(cat, func() op { return op{Name: name, expect: exp, run: f} })
	}
	seq("Marshal(shared)", func() result { return mk(json.Marshal(shared)) })
	seq("MarshalIndent(shared)", func() result { return mk(json.MarshalIndent(shared, ">", "\t")) })
	seq("MarshalWithOption(shared, UnorderedMap off)", func() result { return mk(json.MarshalWithOption(shared)) })
	seq("Unmarshal(shared)", func() result {
		var d sharedT
		if err := json.Unmarshal(sharedDoc, &d); err != nil {
			return result{err: err.Error()}
		}
		return mk(stdjson.Marshal(&d))
	})
	seq("Unmarshal(interface)", func() result {
		var d interface{}
		if err := json.Unmarshal(sharedDoc, &d); err != nil {
			return result{err: err.Error()}
		}
		return mk(stdjson.Marshal(d))
	})
	seq("Unmarshal([]int x200)", func() result {
		var d []int
		if err := json.Unmarshal(bigDoc, &d); err != nil {
			return result{err: err.Error()}
		}
		return mk(stdjson.Marshal(d))
	})
	seq("Decoder.Decode(shared)", func() result {
		var d sharedT
		if err := json.NewDecoder(bytes.NewReader(sharedDoc)).Decode(&d); err != nil {
			return result{err: err.Error()}
		}
		return mk(stdjson.Marshal(&d))
	})
	seq("Valid", func() result { return result{out: fmt.Sprint(json.Valid(sharedDoc), json.Valid(sharedDoc[:len(sharedDoc)-1]))} })
	seq("Compact", func() result {
		var buf bytes.Buffer
		err := json.Compact(&buf, []byte(" { \"a\" : [ 1 , 2 , {\"b\":null} ] } "))
		return mk(buf.Bytes(), err)
	})
	seq("Indent", func() result {
		var buf bytes.Buffer
		err := json.Indent(&buf, sharedDoc, "", "  ")
		return mk(buf.Bytes(), err)
	})
	seq("HTMLEscape", func() result {
		var buf bytes.Buffer
		json.HTMLEscape(&buf, sharedDoc)
		return mk(buf.Bytes(), nil)
	})
	seq("Path.Get(shared path)", func() result {
		var d string
		if err := path.Get(map[string]interface{}{"tags": []interface{}{"a", "b"}}, &d); err != nil {
			return result{err: err.Error()}
		}
		return result{out: d}
	})
	seq("Path.Unmarshal(shared path)", func() result {
		var d string
		if err := path.Unmarshal(sharedDoc, &d); err != nil {
			return result{err: err.Error()}
		}
		return result{out: d}
	})
	seq("Path.Extract(shared recursive path)", func() result {
		bs, err := path2.Extract(sharedDoc)
		if err != nil {
			return result{err: err.Error()}
		}
		return result{out: string(bytes.Join(bs, []byte("|")))}
	})
	seq("Path.Extract(shared path, failing document)", func() result {
		_, err := path.Extract(sharedDoc[:len(sharedDoc)/2])
		if err != nil {
			return result{err: "error"}
		}
		return result{out: "no error"}
	})

	// distribute: every goroutine gets the cold operations in its own order plus a sample of the others
	type slot struct {
		o   op
		got result
	}
	perG := make([][]slot, rc.Goroutines)
	for g := range perG {
		order := rng.Perm(len(cat))
		n := len(cat)
		if rc.Goroutines > 8 {
			n = len(cat) * 2 / 3
		}
		for _, k := range order[:n] {
			perG[g] = append(perG[g], slot{o: cat[k]()})
		}
	}
	var wg sync.WaitGroup
	start := make(chan struct{})
	for g := range perG {
		wg.Add(1)
		go func(ss []slot) {
			defer wg.Done()
			<-start
			for i := range ss {
				func() {
					defer func() {
						if x := recover(); x != nil {
							ss[i].got = result{err: "panic: " + fmt.Sprint(x) + " @ " + libFrames()}
						}
					}()
					ss[i].got = ss[i].o.run()
				}()
			}
		}(perG[g])
	}
	close(start)
	done := make(chan struct{})
	go func() { wg.Wait(); close(done) }()
	select {
	case <-done:
	case <-time.After(120 * time.Second):
		buf := make([]byte, 1<<16)
		n := runtime.Stack(buf, true)
		w.DivFine("hang|"+p.Variant+"|stress", "hang", true, "goroutines did not finish within 120 s\n"+clipS(string(buf[:n]), 3000), rc)
		w.Finish()
		os.Exit(0)
	}
	w.Nontrivial()
	calls := 0
	for g := range perG {
		for _, s := range perG[g] {
			calls++
			if s.got != s.o.expect {
				w.DivFine("concurrent|"+p.Variant+"|"+opClass(s.o.Name), s.o.Name, true,
					fmt.Sprintf("%s returned %q (err %q) in goroutine %d of %d (GOMAXPROCS %d); alone it returns %q (err %q)",
						s.o.Name, clipS(s.got.out, 160), s.got.err, g, rc.Goroutines, rc.Procs, clipS(s.o.expect.out, 160), s.o.expect.err), rc)
			}
		}
	}
	w.Count("calls", int64(calls))
	if w.WantSample() {
		w.Sample(map[string]interface{}{"round": rc, "operations": len(cat), "cold_types": len(cold)})
	}
}

// ---- part B: bursts ----
//
// For every cold generated type: G goroutines spin on a flag and then use the type for the first time
// at the same instant (decode, then encode).  This aims at the few instructions of an unsynchronised
// publish; each family of the catalogue gives 12 attempts per process.

type burstCase struct {
	Family int    `json:"family"`
	Kind   string `json:"kind"`
	G      int    `json:"goroutines"`
}

func runBurst(job *wk.Job, w *wk.Worker, p *Params) error {
	defer runtime.GOMAXPROCS(runtime.GOMAXPROCS(0))
	runtime.GOMAXPROCS(8)
	byFam := map[int][]tyreg.Entry{}
	var fams []int
	for _, e := range tyreg.Static {
		if _, ok := byFam[e.Idx]; !ok {
			fams = append(fams, e.Idx)
		}
		byFam[e.Idx] = append(byFam[e.Idx], e)
	}
	for i, fam := range fams {
		idx := int64(i)
		if !w.Mine(idx) {
			continue
		}
		if p.Rounds > 0 && i >= p.Rounds*int(job.Shards) {
			break
		}
		w.Begin(idx, func() interface{} { return burstCase{Family: fam} })
		w.Nontrivial()
		for _, e := range byFam[fam] {
			burst(w, p, e, 3+(i%3)*2)
		}
	}
	return nil
}

func burst(w *wk.Worker, p *Params, e tyreg.Entry, g int) {
	v0 := e.New()
	want, _ := stdjson.Marshal(v0)
	t := reflect.TypeOf(v0)
	var flag int32
	var wg sync.WaitGroup
	got := make([]result, 2*g)
	for k := 0; k < g; k++ {
		wg.Add(1)
		go func(k int) {
			defer wg.Done()
			defer func() {
				if x := recover(); x != nil {
					got[2*k] = result{err: "panic: " + fmt.Sprint(x) + " @ " + libFrames()}
				}
			}()
			for atomic.LoadInt32(&flag) == 0 {
			}
			dst := reflect.New(t)
			if err := json.Unmarshal(want, dst.Interface()); err != nil {
				got[2*k] = result{err: err.Error()}
			} else {
				got[2*k] = mk(stdjson.Marshal(dst.Elem().Interface()))
			}
			got[2*k+1] = mk(json.Marshal(e.New()))
		}(k)
	}
	time.Sleep(50 * time.Microsecond)
	atomic.StoreInt32(&flag, 1)
	wg.Wait()
	w.Count("calls", int64(2*g))
	for k, r := range got {
		if r.err != "" || r.out != string(want) {
			op := "Unmarshal"
			if k%2 == 1 {
				op = "Marshal"
			}
			w.DivFine("concurrent|"+p.Variant+"|"+op, "burst "+op+" "+e.Kind, true,
				fmt.Sprintf("first use of a cold %s type by %d goroutines at once: %s returned %q (err %q); alone it returns %q", e.Kind, g, op, clipS(r.out, 160), r.err, clipS(string(want), 160)),
				burstCase{Family: e.Idx, Kind: e.Kind, G: g})
			return
		}
	}
}

// libFrames names the innermost library frames of the current (panicking) stack.
func libFrames() string {
	pcs := make([]uintptr, 64)
	n := runtime.Callers(3, pcs)
	fr := runtime.CallersFrames(pcs[:n])
	var out []string
	for {
		f, more := fr.Next()
		if strings.Contains(f.Function, "goccy/go-json") {
			out = append(out, fmt.Sprintf("%s:%d", strings.TrimPrefix(f.Function, "github.com/goccy/go-json/internal/"), f.Line))
			if len(out) == 5 {
				break
			}
		}
		if !more {
			break
		}
	}
	return strings.Join(out, " < ")
}

func opClass(n string) string {
	if i := strings.IndexByte(n, '('); i > 0 {
		return n[:i]
	}
	return n
}
