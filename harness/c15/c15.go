// Package c15: object keys select struct fields exactly as Go's JSON rules prescribe.
//
// Part T replays the (field names, key items, expected field) cases TLC emits from
// specs/KeyLookup.tla; part G enumerates a larger name/key space with encoding/json as the oracle
// (the property names it as the yardstick); part E covers embedded-struct conflicts.  Structs are
// built with reflect.StructOf, padded with filler fields to reach the 1..8, 9..16 and >16 field
// regimes of the bitmap matcher; every case runs in buffer and stream mode.
package c15

import (
	"bytes"
	stdjson "encoding/json"
	"encoding/json"
	"fmt"
	"os"
	"reflect"
	"strings"

	gojson "github.com/goccy/go-json"

	"verifharness/wk"
)

type Params struct {
	Cases   string `json:"cases"`
	NameLen int    `json:"name_len"`
	MaxSet  int    `json:"max_set"`
	KeyLen  int    `json:"key_len"`
}

type tlcCase struct {
	Fields   [][]string      `json:"fields"`
	Key      [][]interface{} `json:"key"`
	Expect   int             `json:"expect"`
	Eligible bool            `json:"eligible"`
}

type Case struct {
	Part   string   `json:"part"`
	Names  []string `json:"names"`
	Filler int      `json:"filler"`
	Key    string   `json:"key"` // the key literal without quotes (may contain escapes)
	Mode   string   `json:"mode"`
	Shape  string   `json:"shape,omitempty"` // part E
}

var intT = reflect.TypeOf(0)

func exportedName(i int) string { return fmt.Sprintf("F%02d", i) }

func buildStruct(names []string, filler int) (t reflect.Type, err error) {
	defer func() {
		if r := recover(); r != nil {
			err = fmt.Errorf("%v", r)
		}
	}()
	var fs []reflect.StructField
	for i, n := range names {
		fs = append(fs, reflect.StructField{Name: exportedName(i), Type: intT, Tag: reflect.StructTag(`json:"` + n + `"`)})
	}
	for j := 0; j < filler; j++ {
		fs = append(fs, reflect.StructField{Name: fmt.Sprintf("Z%02d", j), Type: intT, Tag: reflect.StructTag(fmt.Sprintf(`json:"zq%dw"`, j))})
	}
	return reflect.StructOf(fs), nil
}

func validTagName(n string) bool {
	// encoding/json's isValidTag: letters, digits and some punctuation; no quote, backslash, comma
	if n == "" || n == "-" {
		return false
	}
	return !strings.ContainsAny(n, "\"\\,`") && strings.ToValidUTF8(n, "") == n
}

func decode(mode string, doc []byte, dst interface{}, first bool) error {
	switch mode {
	case "buffer":
		if first {
			return gojson.UnmarshalWithOption(doc, dst, gojson.DecodeFieldPriorityFirstWin())
		}
		return gojson.Unmarshal(doc, dst)
	case "stream":
		return gojson.NewDecoder(bytes.NewReader(doc)).Decode(dst)
	case "stream1":
		return gojson.NewDecoder(oneByte{bytes.NewReader(doc)}).Decode(dst)
	}
	panic(mode)
}

type oneByte struct{ r *bytes.Reader }

func (o oneByte) Read(p []byte) (int, error) {
	if len(p) == 0 {
		return 0, nil
	}
	return o.r.Read(p[:1])
}

// outcome: which of the named fields received the value (index, -1 none, -2 several/other), and error flag
func outcome(v reflect.Value, n int) int {
	hit := -1
	for i := 0; i < v.NumField(); i++ {
		if v.Field(i).Int() != 0 {
			if hit != -1 {
				return -2
			}
			hit = i
		}
	}
	if hit >= n {
		return -2
	}
	return hit
}

func divergence(c Case) (kind, detail string) {
	t, err := buildStruct(c.Names, c.Filler)
	if err != nil {
		return "", ""
	}
	doc := []byte(`{"` + c.Key + `":7}`)
	g := reflect.New(t)
	s := reflect.New(t)
	var gerr, serr error
	if rec := wk.Guard(func() { gerr = decode(c.Mode, doc, g.Interface(), false) }); rec != nil {
		return "panic:" + wk.PanicClass(rec), fmt.Sprint(rec)
	}
	serr = stdjson.Unmarshal(doc, s.Interface())
	if serr != nil {
		return "", "" // not a valid document for encoding/json (e.g. invalid escape): C05's business
	}
	if gerr != nil {
		return "error", gerr.Error()
	}
	go_, so := outcome(g.Elem(), len(c.Names)), outcome(s.Elem(), len(c.Names))
	if go_ != so {
		name := func(i int) string {
			if i >= 0 && i < len(c.Names) {
				return fmt.Sprintf("field %q", c.Names[i])
			}
			if i == -1 {
				return "no field"
			}
			return "another field"
		}
		k := "wrong-field"
		if go_ == -1 {
			k = "missed-field"
		} else if so == -1 {
			k = "spurious-field"
		}
		return k, fmt.Sprintf("key %s: go-json assigns %s, encoding/json assigns %s", c.Key, name(go_), name(so))
	}
	return "", ""
}

type runner struct {
	w     *wk.Worker
	cache map[string]string
}

func (r *runner) check(c Case, counted bool) {
	w := r.w
	w.Count("calls", 1)
	kind, detail := divergence(c)
	if kind == "" {
		return
	}
	// minimise the set of names (and the filler) while the same kind of divergence persists
	key := fmt.Sprint(kind, c.Names, c.Filler, c.Key, c.Mode)
	sig, ok := r.cache[key]
	if !ok {
		min := c
		for changed := true; changed; {
			changed = false
			for i := range min.Names {
				n := min
				n.Names = append(append([]string(nil), min.Names[:i]...), min.Names[i+1:]...)
				if len(n.Names) == 0 {
					continue
				}
				if k, _ := divergence(n); k == kind {
					min, changed = n, true
					break
				}
			}
			if !changed && min.Filler > 0 {
				for _, f := range []int{0, 7, 8, 15} {
					if f < min.Filler {
						n := min
						n.Filler = f
						if k, _ := divergence(n); k == kind {
							min, changed = n, true
							break
						}
					}
				}
			}
		}
		sig = fmt.Sprintf("dec|%s|%s|%s|%s", kind, modeGroup(min.Mode), regime(len(min.Names)+min.Filler), relation(min))
		r.cache[key] = sig + "\x00" + fmt.Sprintf("names=%s|filler=%d|key=%s", strings.Join(min.Names, ","), min.Filler, min.Key)
	}
	minimal := ""
	if i := strings.IndexByte(sig, 0); i >= 0 {
		sig, minimal = sig[:i], sig[i+1:]
	}
	fine := strings.ReplaceAll(fmt.Sprintf("%s|%s|%d|%s", c.Mode, strings.Join(c.Names, ","), c.Filler, c.Key), strings.Repeat("x", 69), "X69")
	fine = strings.ReplaceAll(fine, strings.Repeat(`\u0078`, 69), "U69")
	w.DivFine(sig, fine, counted, detail+" -- minimal: "+minimal, c)
}

func regime(n int) string {
	switch {
	case n <= 8:
		return "fields<=8"
	case n <= 16:
		return "fields9..16"
	}
	return "fields>16"
}

// relation abstracts a minimal case: how the key is spelled and how it relates to the field names
func relation(c Case) string {
	var key string
	_ = stdjson.Unmarshal([]byte(`"`+c.Key+`"`), &key)
	spelling := "raw"
	if strings.Contains(c.Key, `\u`) {
		spelling = "escaped"
		if len(c.Key) != 6*len([]rune(key)) {
			spelling = "partly-escaped"
		}
	}
	rel := map[string]bool{}
	for _, n := range c.Names {
		switch {
		case n == key:
			rel["exact"] = true
		case strings.ToLower(n) == strings.ToLower(key) && isASCII(n) && isASCII(key):
			rel["ascii-case"] = true
		case strings.EqualFold(n, key):
			rel["unicode-fold"] = true
		case strings.HasPrefix(strings.ToLower(n), strings.ToLower(key)):
			rel["key-is-prefix-of-name"] = true
		case strings.HasPrefix(strings.ToLower(key), strings.ToLower(n)):
			rel["key-extends-name"] = true
		default:
			rel["unrelated"] = true
		}
	}
	var rs []string
	for _, k := range []string{"exact", "ascii-case", "unicode-fold", "key-is-prefix-of-name", "key-extends-name", "unrelated"} {
		if rel[k] {
			rs = append(rs, k)
		}
	}
	long := ""
	if len(key) > 64 {
		long = "|long-key"
	}
	return fmt.Sprintf("key-%s|%d-names|%s%s", spelling, len(c.Names), strings.Join(rs, "+"), long)
}

func isASCII(s string) bool {
	for i := 0; i < len(s); i++ {
		if s[i] >= 0x80 {
			return false
		}
	}
	return true
}

func modeGroup(m string) string {
	if m == "buffer" {
		return "buffer"
	}
	return "stream"
}

var fillers = []int{0, 6, 7, 14, 15, 17}
var modes = []string{"buffer", "stream", "stream1"}

func spell(chars []string, escMask int) string {
	var sb strings.Builder
	for i, c := range chars {
		if escMask&(1<<uint(i)) != 0 {
			for _, r := range c {
				if r > 0xffff {
					sb.WriteString(c)
					continue
				}
				fmt.Fprintf(&sb, "%su%04x", `\`, r)
			}
		} else {
			switch c {
			case `"`, `\`:
				sb.WriteString(`\` + c)
			default:
				sb.WriteString(c)
			}
		}
	}
	return sb.String()
}

func Run(job *wk.Job, w *wk.Worker) error {
	var p Params
	if err := json.Unmarshal(job.Params, &p); err != nil {
		return err
	}
	r := &runner{w: w, cache: map[string]string{}}
	if job.Replay != nil {
		var c Case
		if err := json.Unmarshal(job.Replay, &c); err != nil {
			return err
		}
		w.Begin(0, func() interface{} { return c })
		if c.Part == "E" {
			r.checkShape(c.Shape, false)
		} else {
			r.check(c, false)
		}
		return nil
	}
	idx := int64(0)
	// part T: cases emitted by TLC (expected field from the specification; encoding/json must agree with it)
	data, err := os.ReadFile(p.Cases)
	if err != nil {
		return err
	}
	for _, line := range bytes.Split(data, []byte("\n")) {
		if len(line) == 0 {
			continue
		}
		if w.Mine(idx) {
			var tc tlcCase
			if err := json.Unmarshal(line, &tc); err != nil {
				return err
			}
			var names []string
			for _, f := range tc.Fields {
				names = append(names, strings.Join(f, ""))
			}
			var chars []string
			mask := 0
			for i, it := range tc.Key {
				chars = append(chars, it[0].(string))
				if it[1].(bool) {
					mask |= 1 << uint(i)
				}
			}
			key := spell(chars, mask)
			w.Begin(idx, func() interface{} { return Case{Part: "T", Names: names, Key: key} })
			w.Nontrivial()
			if w.WantSample() && tc.Expect != 0 && mask != 0 {
				w.Sample(map[string]interface{}{"part": "T", "fields": names, "key_literal": key, "spec_expected_field": tc.Expect})
			}
			// third voice: encoding/json must agree with the specification
			if t, err := buildStruct(names, 0); err == nil {
				s := reflect.New(t)
				if stdjson.Unmarshal([]byte(`{"`+key+`":7}`), s.Interface()) == nil {
					if got := outcome(s.Elem(), len(names)) + 1; got != tc.Expect {
						w.DivCase("ORACLE|select", true, fmt.Sprintf("encoding/json selects field %d, KeyLookup says %d", got, tc.Expect), Case{Part: "T", Names: names, Key: key})
					}
				}
			}
			for _, f := range fillers {
				for _, m := range modes {
					r.check(Case{Part: "T", Names: names, Filler: f, Key: key, Mode: m}, true)
				}
			}
		}
		idx++
	}
	// part G: larger alphabet, encoding/json as the oracle
	alpha := []string{"a", "A", "b", "_", "1", "<", "é", "É", "K", "k", "s", "S", "ſ"}
	var names []string
	var gen func(cur string, n int)
	gen = func(cur string, n int) {
		if cur != "" && validTagName(cur) {
			names = append(names, cur)
		}
		if n == p.NameLen {
			return
		}
		for _, a := range alpha {
			gen(cur+a, n+1)
		}
	}
	gen("", 0)
	long := strings.Repeat("x", 70)
	names = append(names, long, long+"a", long+"A", "ab"+long)
	var keys [][]string
	var kgen func(cur []string)
	kgen = func(cur []string) {
		if len(cur) > 0 {
			keys = append(keys, append([]string(nil), cur...))
		}
		if len(cur) == p.KeyLen {
			return
		}
		for _, a := range alpha {
			kgen(append(cur, a))
		}
	}
	kgen(nil)
	keys = append(keys, []string{long}, []string{long, "a"}, []string{long, "A"}, []string{long[:69]}, []string{"a", "b", long})
	// name sets: singles, and pairs/triples that share a fold or prefix relation with the first name
	related := func(a, b string) bool {
		la, lb := strings.ToLower(a), strings.ToLower(b)
		return strings.HasPrefix(la, lb) || strings.HasPrefix(lb, la) || strings.EqualFold(a, b)
	}
	var sets [][]string
	for _, a := range names {
		sets = append(sets, []string{a})
	}
	if p.MaxSet >= 2 {
		for _, a := range names {
			for _, b := range names {
				if a != b && related(a, b) {
					sets = append(sets, []string{a, b})
					if p.MaxSet >= 3 {
						for _, c := range names {
							if c != a && c != b && related(a, c) && len(c) <= 2 {
								sets = append(sets, []string{a, b, c})
							}
						}
					}
				}
			}
		}
	}
	for _, set := range sets {
		if w.Mine(idx) {
			st := set
			w.Begin(idx, func() interface{} { return Case{Part: "G", Names: st} })
			w.Nontrivial()
			for _, k := range keys {
				// only keys related to some name are interesting (others are covered by a sample)
				kt := strings.Join(k, "")
				rel := false
				for _, n := range set {
					if related(n, kt) {
						rel = true
					}
				}
				if !rel && len(k) > 1 {
					continue
				}
				masks := []int{0, (1 << uint(len(k))) - 1, 1}
				for _, mask := range masks {
					key := spell(k, mask)
					for fi, f := range fillers {
						if fi%2 == 1 && mask == 1 {
							continue
						}
						for _, m := range modes {
							if m == "stream1" && f != 0 && f != 15 {
								continue
							}
							r.check(Case{Part: "G", Names: set, Filler: f, Key: key, Mode: m}, true)
						}
					}
				}
			}
		}
		idx++
	}
	// part E: embedded structs
	for _, sh := range shapes() {
		if w.Mine(idx) {
			s := sh
			w.Begin(idx, func() interface{} { return Case{Part: "E", Shape: s} })
			w.Nontrivial()
			r.checkShape(sh, true)
		}
		idx++
	}
	return nil
}

// ---- part E: embedded-struct conflicts ---------------------------------------------------------
//
// A shape is a small expression:  S(f;f;...)  with f one of
//   n        plain field whose Go name is n (exported form) and no tag
//   n:t      field with json tag t
//   n:-      field with tag "-"
//   *S(...)  embedded struct by pointer,  =S(...) embedded by value
// Depth is at most 3.  The same names are reused at several depths to create conflicts.

func shapes() []string {
	leaf := []string{"A", "A:a", "B:a", "A:b", "a_unexported", "A:-"}
	var inner []string
	for _, x := range leaf {
		inner = append(inner, "S("+x+")")
		for _, y := range leaf {
			if x < y {
				inner = append(inner, "S("+x+";"+y+")")
			}
		}
	}
	var out []string
	for _, o := range []string{"", "A", "A:a", "B:b"} {
		for _, e1 := range inner {
			for _, how := range []string{"=", "*"} {
				s := "S(" + o
				if o != "" {
					s += ";"
				}
				out = append(out, s+how+e1+")")
				// two embedded structs side by side (ambiguity) and one nested deeper
				for _, e2 := range inner[:8] {
					out = append(out, s+how+e1+";="+e2+")")
					out = append(out, s+how+"S(C:c;"+how+e2+");="+e1+")")
				}
			}
		}
	}
	return out
}

type shapeParser struct {
	s   string
	pos int
	n   int
}

func (p *shapeParser) parseStruct() (reflect.Type, error) {
	if !strings.HasPrefix(p.s[p.pos:], "S(") {
		return nil, fmt.Errorf("expected S( at %d", p.pos)
	}
	p.pos += 2
	var fs []reflect.StructField
	for p.s[p.pos] != ')' {
		if p.s[p.pos] == ';' {
			p.pos++
			continue
		}
		if p.s[p.pos] == '=' || p.s[p.pos] == '*' {
			ptr := p.s[p.pos] == '*'
			p.pos++
			t, err := p.parseStruct()
			if err != nil {
				return nil, err
			}
			if ptr {
				t = reflect.PtrTo(t)
			}
			p.n++
			fs = append(fs, reflect.StructField{Name: fmt.Sprintf("E%d", p.n), Type: t, Anonymous: true})
			continue
		}
		end := p.pos
		for p.s[end] != ';' && p.s[end] != ')' {
			end++
		}
		item := p.s[p.pos:end]
		p.pos = end
		name, tag := item, ""
		if i := strings.IndexByte(item, ':'); i >= 0 {
			name, tag = item[:i], item[i+1:]
		}
		f := reflect.StructField{Name: name, Type: intT}
		if tag != "" {
			f.Tag = reflect.StructTag(`json:"` + tag + `"`)
		}
		if name[0] >= 'a' && name[0] <= 'z' {
			f.PkgPath = "verifharness/c15"
		}
		fs = append(fs, f)
	}
	p.pos++
	return reflect.StructOf(fs), nil
}

// shapeClass abstracts an embedded-struct shape for the signature.
func shapeClass(sh string) string {
	depth, max, top := 0, 0, 0
	for i := 0; i < len(sh); i++ {
		switch sh[i] {
		case '(':
			depth++
			if depth > max {
				max = depth
			}
		case ')':
			depth--
		case '=', '*':
			if depth == 1 {
				top++
			}
		}
	}
	f := []string{fmt.Sprintf("depth%d", max), fmt.Sprintf("%d-embedded-at-top", top)}
	if strings.Contains(sh, "*") {
		f = append(f, "pointer-embedding")
	}
	if strings.Contains(sh, ":-") {
		f = append(f, "dash-tag")
	}
	if strings.Contains(sh, "a_unexported") {
		f = append(f, "unexported")
	}
	return strings.Join(f, ",")
}

func buildShape(s string) (t reflect.Type, err error) {
	defer func() {
		if r := recover(); r != nil {
			err = fmt.Errorf("%v", r)
		}
	}()
	p := &shapeParser{s: s}
	return p.parseStruct()
}

// fill sets every int field reachable (allocating embedded pointers) to a distinct value
func fill(v reflect.Value, next *int64) {
	for i := 0; i < v.NumField(); i++ {
		f := v.Field(i)
		if !f.CanSet() {
			continue
		}
		switch f.Kind() {
		case reflect.Int:
			*next++
			f.SetInt(*next)
		case reflect.Struct:
			fill(f, next)
		case reflect.Ptr:
			f.Set(reflect.New(f.Type().Elem()))
			fill(f.Elem(), next)
		}
	}
}

func (r *runner) checkShape(sh string, counted bool) {
	w := r.w
	t, err := buildShape(sh)
	if err != nil {
		w.Count("unbuildable_shapes", 1)
		return
	}
	c := Case{Part: "E", Shape: sh}
	// encoding: member names and order
	v := reflect.New(t).Elem()
	var n int64
	fill(v, &n)
	var g, s []byte
	var gerr, serr error
	w.Count("calls", 1)
	if rec := wk.Guard(func() { g, gerr = gojson.Marshal(v.Interface()) }); rec != nil {
		w.DivFine("embed|panic:"+wk.PanicClass(rec)+"|"+shapeClass(sh), "enc|"+sh, counted, fmt.Sprint(rec), c)
		return
	}
	s, serr = stdjson.Marshal(v.Interface())
	if (gerr != nil) != (serr != nil) || (gerr == nil && !bytes.Equal(g, s)) {
		w.DivFine("embed|encode-members-differ|"+shapeClass(sh), "enc|"+sh, counted, fmt.Sprintf("go-json %s (err=%v); encoding/json %s (err=%v)", g, gerr, s, serr), c)
	}
	// decoding: which field receives each candidate key
	for _, key := range []string{"a", "A", "b", "B", "c", "a_unexported"} {
		doc := []byte(`{"` + key + `":7}`)
		for _, m := range []string{"buffer", "stream"} {
			gp, sp := reflect.New(t), reflect.New(t)
			var ge error
			w.Count("calls", 1)
			if rec := wk.Guard(func() { ge = decode(m, doc, gp.Interface(), false) }); rec != nil {
				w.DivFine("embed|panic:"+wk.PanicClass(rec)+"|"+shapeClass(sh), "dec|"+m+"|"+key+"|"+sh, counted, fmt.Sprint(rec), c)
				continue
			}
			se := stdjson.Unmarshal(doc, sp.Interface())
			if (ge != nil) != (se != nil) {
				w.DivFine("embed|decode-error-differs|"+shapeClass(sh), "dec|"+m+"|"+key+"|"+sh, counted, fmt.Sprintf("key %q: go-json err=%v, encoding/json err=%v", key, ge, se), c)
				continue
			}
			if ge == nil && !reflect.DeepEqual(gp.Elem().Interface(), sp.Elem().Interface()) {
				w.DivFine("embed|decode-field-differs|"+shapeClass(sh), "dec|"+m+"|"+key+"|"+sh, counted, fmt.Sprintf("key %q: go-json %+v, encoding/json %+v", key, gp.Elem().Interface(), sp.Elem().Interface()), c)
			}
		}
	}
}
