// Package vmain is the body of the worker binary of the verification harness: one sub-command per property.
// cmd/vharness is the ordinary worker; the generated many-types binary (lib/gentypes.py) calls Main too.
package vmain

import (
	"fmt"
	"os"
	"runtime/pprof"

	"verifharness/c01"
	"verifharness/c02"
	"verifharness/c05"
	"verifharness/c06"
	"verifharness/c07"
	"verifharness/c08"
	"verifharness/c09"
	"verifharness/c10"
	"verifharness/c11"
	"verifharness/c14"
	"verifharness/c15"
	"verifharness/c16"
	"verifharness/c17"
	"verifharness/c18"
	"verifharness/c19"
	"verifharness/c20"
	"verifharness/wk"
)

var runners = map[string]func(*wk.Job, *wk.Worker) error{
	"c01": c01.Run,
	"fr":  c01.RunFieldRules,
	"ft":  c01.RunFloatText,
	"c02": c02.Run,
	"c05": c05.Run,
	"c06": c06.Run,
	"c07": c07.Run,
	"c08": c08.Run,
	"c09": c09.Run,
	"c10": c10.Run,
	"c11": c11.Run,
	"c14": c14.Run,
	"c15": c15.Run,
	"c16": c16.Run,
	"c17": c17.Run,
	"c18": c18.Run,
	"c19": c19.Run,
	"c20": c20.Run,
}

// Main runs the runner named by os.Args[1] on the job file os.Args[2].
func Main() {
	if len(os.Args) < 3 {
		fmt.Fprintln(os.Stderr, "usage: vharness <runner> <job.json>")
		os.Exit(64)
	}
	run, ok := runners[os.Args[1]]
	if !ok {
		fmt.Fprintln(os.Stderr, "unknown runner", os.Args[1])
		os.Exit(64)
	}
	job, err := wk.LoadJob(os.Args[2])
	if err != nil {
		fmt.Fprintln(os.Stderr, "job:", err)
		os.Exit(64)
	}
	if pf := os.Getenv("VERIF_PROFILE"); pf != "" {
		if f, err := os.Create(pf); err == nil {
			_ = pprof.StartCPUProfile(f)
			defer pprof.StopCPUProfile()
		}
	}
	w := wk.New(job)
	if err := run(job, w); err != nil {
		fmt.Fprintln(os.Stderr, "runner error:", err)
		os.Exit(65)
	}
	w.Finish()
}
