// Package c01: Marshal agrees with encoding/json for every value of every supported type.
//
// Types are the constructions TLC enumerates from specs/GoTypes.tla; values come from deterministic
// value modes; each value is encoded directly, behind a pointer and inside an interface{}, with
// Marshal, MarshalIndent and an Encoder without HTML escaping.  encoding/json is the oracle.
// A divergence is minimised (constructor steps removed, leaf and value mode simplified while the
// same kind of divergence persists); the minimal construction is the finding's signature.
package c01

import (
	"bytes"
	stdjson "encoding/json"
	"encoding/json"
	"fmt"
	"os"
	"reflect"
	"regexp"
	"strings"

	gojson "github.com/goccy/go-json"

	"verifharness/jt"
	"verifharness/tygen"
	"verifharness/wk"
)

type Params struct {
	Types    string `json:"types"` // ndjson of constructions emitted by TLC
	RandMode int    `json:"rand_modes"`
	Check    string `json:"check"`
	Table    string `json:"table"` // JsonText automaton (C03)
	Modes    []string `json:"modes"` // extra value modes (C03: nan, inf, badnumber:k, badmarshaler:k)
}

var expRe = regexp.MustCompile(`e([+-])0(\d)`)

// Canon removes the tolerated spelling differences of single tokens.
func Canon(b []byte) string {
	s := string(b)
	s = strings.ReplaceAll(s, `\u0008`, `\b`)
	s = strings.ReplaceAll(s, `\u000c`, `\f`)
	return expRe.ReplaceAllString(s, "e$1$2")
}

var Variants = []string{"marshal|direct", "marshal|ptr", "marshal|iface", "indent|direct", "indent|iface", "noescape|direct", "noescape|ptr"}

func wrap(v reflect.Value, reach string) interface{} {
	switch reach {
	case "ptr":
		p := reflect.New(v.Type())
		p.Elem().Set(v)
		return p.Interface()
	case "iface":
		return []interface{}{v.Interface()}
	}
	return v.Interface()
}

// Encode runs one variant with both libraries.
func Encode(variant string, val interface{}) (g []byte, gerr error, s []byte, serr error) {
	switch strings.Split(variant, "|")[0] {
	case "marshal":
		g, gerr = gojson.Marshal(val)
		s, serr = stdjson.Marshal(val)
	case "indent":
		g, gerr = gojson.MarshalIndent(val, "", "  ")
		s, serr = stdjson.MarshalIndent(val, "", "  ")
	case "noescape":
		var gb, sb bytes.Buffer
		ge := gojson.NewEncoder(&gb)
		ge.SetEscapeHTML(false)
		gerr = ge.Encode(val)
		se := stdjson.NewEncoder(&sb)
		se.SetEscapeHTML(false)
		serr = se.Encode(val)
		g, s = gb.Bytes(), sb.Bytes()
	}
	return
}

// Check selects the relation evaluated: "C01" (default), "C03", "C04", "C13".
var Check = "C01"

// Divergence classifies one case: "" = agreement.
func Divergence(c tygen.Case) (kind, detail string) {
	n, err := tygen.Build(c.Desc)
	if err != nil {
		return "", ""
	}
	v := n.Value(c.Mode)
	if Check != "C01" {
		if rec := wk.Guard(func() {
			switch Check {
			case "C13":
				kind, detail = c13(c, v)
			case "C04":
				kind, detail = c04(c, v)
			case "C03":
				kind, detail = c03(c, v)
			}
		}); rec != nil {
			return "panic:" + wk.PanicClass(rec), fmt.Sprint(rec)
		}
		return
	}
	parts := strings.Split(c.Variant, "|")
	val := wrap(v, parts[1])
	var g, s []byte
	var gerr, serr error
	if rec := wk.Guard(func() { g, gerr, s, serr = Encode(c.Variant, val) }); rec != nil {
		return "panic:" + wk.PanicClass(rec), fmt.Sprint(rec)
	}
	switch {
	case gerr != nil && serr == nil:
		return "error-where-std-succeeds", fmt.Sprintf("go-json error %v; encoding/json gives %s", gerr, trunc(s))
	case gerr == nil && serr != nil:
		return "success-where-std-fails", fmt.Sprintf("encoding/json error %v; go-json gives %s", serr, trunc(g))
	case gerr != nil:
		return "", ""
	}
	if Canon(g) != Canon(s) {
		return "different-document", fmt.Sprintf("go-json %s; encoding/json %s", trunc(g), trunc(s))
	}
	return "", ""
}

func trunc(b []byte) string {
	if len(b) > 160 {
		return string(b[:160]) + "..."
	}
	return string(b)
}

type runner struct {
	noSkip bool
	w     *wk.Worker
	cache map[string]tygen.Case
}

func (r *runner) check(c tygen.Case) {
	w := r.w
	if !r.noSkip {
		if n, err := tygen.Build(c.Desc); err == nil {
			reach := "direct"
			if Check == "C01" {
				reach = strings.Split(c.Variant, "|")[1]
			} else if c.Variant == "R6-reach" {
				reach = "ptr"
			}
			if fam := tygen.KnownUnsafe(n, reach); fam != "" {
				w.Count("excluded_known_unsafe:"+fam, 1)
				return
			}
		}
	}
	w.Count("calls", 1)
	kind, detail := Divergence(c)
	if kind == "" {
		return
	}
	key := kind + "|" + c.Variant + "|" + c.Desc.String() + "|" + c.Mode
	min, ok := r.cache[key]
	if !ok {
		min = tygen.Minimise(c, kind, func(n tygen.Case) string { k, _ := Divergence(n); return k })
		r.cache[key] = min
	}
	_, mdetail := Divergence(min)
	sig := "enc|" + kind + "|" + min.Desc.String() + "|" + min.Mode
	if Check != "C01" {
		sig = Check + "|" + kind + "|" + min.Desc.String() + "|" + min.Mode
	}
	fine := c.Variant + "|" + c.Desc.String() + "|" + c.Mode
	w.DivFine(sig, fine, true, "minimal: "+mdetail+" -- original: "+detail, c)
}

func variantClass(v string) string { return v }

func Run(job *wk.Job, w *wk.Worker) error {
	var p Params
	if err := json.Unmarshal(job.Params, &p); err != nil {
		return err
	}
	w.CheckEvery = 150
	r := &runner{w: w, cache: map[string]tygen.Case{}}
	variants := Variants
	if p.Check != "" {
		Check = p.Check
	}
	switch Check {
	case "C13":
		variants = C13Variants
	case "C04":
		variants = C04Variants
	case "C03":
		variants = C03Variants
		t, err := jt.Load(p.Table)
		if err != nil {
			return err
		}
		Table = t
	}
	if job.Replay != nil {
		var c tygen.Case
		if err := json.Unmarshal(job.Replay, &c); err != nil {
			return err
		}
		w.Begin(0, func() interface{} { return c })
		r.noSkip = true
		if c.Variant == "" || c.Variant == "*" {
			for _, vr := range variants {
				c2 := c
				c2.Variant = vr
				r.check(c2)
			}
		} else {
			r.check(c)
		}
		return nil
	}
	data, err := os.ReadFile(p.Types)
	if err != nil {
		return err
	}
	modes := append([]string(nil), tygen.Modes...)
	for i := 0; i < p.RandMode; i++ {
		modes = append(modes, fmt.Sprintf("rand:%d", i+1))
	}
	modes = append(modes, p.Modes...)
	idx := int64(0)
	for _, line := range bytes.Split(data, []byte("\n")) {
		if len(line) == 0 {
			continue
		}
		var d tygen.Desc
		if err := json.Unmarshal(line, &d); err != nil {
			return err
		}
		if _, err := tygen.Build(d); err != nil {
			w.Count("unbuildable_types", 1)
			continue
		}
		for _, m := range modes {
			// special modes only make sense for the leaf they target
			switch {
			case m == "nan" || m == "inf" || m == "neginf":
				if !d.HasLeaf("float32", "float64") {
					continue
				}
			case strings.HasPrefix(m, "badnum:"):
				if !d.HasLeaf("Number") {
					continue
				}
			case strings.HasPrefix(m, "script:"):
				if !d.HasLeaf("Scripted") {
					continue
				}
			}
			if w.Mine(idx) {
				c := tygen.Case{Desc: d, Mode: m, Variant: "*"}
				w.Begin(idx, func() interface{} { return c })
				w.Nontrivial()
				if w.WantSample() && len(d.Steps) >= 2 && m == "typical" {
					n, _ := tygen.Build(d)
					out, _ := stdjson.Marshal(n.Value(m).Interface())
					w.Sample(map[string]interface{}{"type": d.String(), "go_type": n.RT.String(), "mode": m, "encoding_json": string(out)})
				}
				for _, vr := range variants {
					c.Variant = vr
					w.Tick()
					if job.Only >= 0 {
						cc := c
						w.Begin(idx, func() interface{} { return cc })
					}
					r.check(c)
				}
			}
			idx++
		}
	}
	return nil
}
