package c01

// Additional relations evaluated over the same (type, value) space as C01:
//   C13  all encoder variants and options describe the same document
//   C04  Marshal followed by Unmarshal reproduces the value
//   C03  every successful encode is exactly one well-formed JSON text

import (
	"bytes"
	"context"
	stdjson "encoding/json"
	"fmt"
	"io"
	"math"
	"reflect"
	"regexp"
	"strings"
	"unicode/utf8"

	gojson "github.com/goccy/go-json"

	"verifharness/jt"
	"verifharness/tygen"
	"verifharness/wk"
)

var ansiRe = regexp.MustCompile("\x1b\\[[0-9;]*m")

// ---- C13 -------------------------------------------------------------------

var C13Variants = []string{"R1-indent", "R2-color", "R3-unordered", "R4-nohtml", "R5-entrypoints", "R6-reach"}

func randomScheme() *gojson.ColorScheme {
	mk := func(h, f string) gojson.ColorFormat { return gojson.ColorFormat{Header: h, Footer: f} }
	return &gojson.ColorScheme{
		Int: mk("\x1b[31m", "\x1b[0m"), Uint: mk("\x1b[32m", "\x1b[0m"), Float: mk("\x1b[33;1m", "\x1b[0m"), Bool: mk("\x1b[34m", "\x1b[0m"),
		String: mk("\x1b[35m", "\x1b[0m"), Binary: mk("\x1b[36m", "\x1b[0m"), ObjectKey: mk("\x1b[37m", "\x1b[0m"), Null: mk("\x1b[90m", "\x1b[0m"),
	}
}

func c13(c tygen.Case, v reflect.Value) (kind, detail string) {
	val := v.Interface()
	plain, perr := gojson.Marshal(val)
	fail := func(k, f string, a ...interface{}) (string, string) { return k, fmt.Sprintf(f, a...) }
	switch c.Variant {
	case "R1-indent":
		for _, pi := range [][2]string{{"", "  "}, {"", ""}, {" ", "\t"}, {"é", "é"}, {">", " "}} {
			got, err := gojson.MarshalIndent(val, pi[0], pi[1])
			if (err != nil) != (perr != nil) {
				return fail("R1:error-mismatch", "MarshalIndent err=%v, Marshal err=%v", err, perr)
			}
			if err != nil {
				continue
			}
			var want bytes.Buffer
			if e := stdjson.Indent(&want, plain, pi[0], pi[1]); e != nil {
				return "", "" // Marshal's output is not valid JSON: that is C03's business
			}
			if !bytes.Equal(got, want.Bytes()) {
				return fail("R1:indent-differs", "prefix %q indent %q: MarshalIndent %s; Indent(Marshal) %s", pi[0], pi[1], trunc(got), trunc(want.Bytes()))
			}
		}
	case "R2-color":
		for _, ind := range []bool{false, true} {
			for si, sc := range []*gojson.ColorScheme{{}, gojson.DefaultColorScheme, randomScheme()} {
				var got, base []byte
				var err, berr error
				if ind {
					got, err = gojson.MarshalIndentWithOption(val, "", " ", gojson.Colorize(sc))
					base, berr = gojson.MarshalIndent(val, "", " ")
				} else {
					got, err = gojson.MarshalWithOption(val, gojson.Colorize(sc))
					base, berr = plain, perr
				}
				if (err != nil) != (berr != nil) {
					return fail("R2:error-mismatch", "scheme %d indent=%v: err=%v, uncoloured err=%v", si, ind, err, berr)
				}
				if err != nil {
					continue
				}
				stripped := ansiRe.ReplaceAll(got, nil)
				if si == 0 && !bytes.Equal(got, base) {
					return fail("R2:empty-scheme-differs", "indent=%v: coloured %s; plain %s", ind, trunc(got), trunc(base))
				}
				if !bytes.Equal(stripped, base) {
					return fail("R2:markers-removed-differs", "scheme %d indent=%v: stripped %s; plain %s", si, ind, trunc(stripped), trunc(base))
				}
			}
		}
	case "R3-unordered":
		got, err := gojson.MarshalWithOption(val, gojson.UnorderedMap())
		if (err != nil) != (perr != nil) {
			return fail("R3:error-mismatch", "UnorderedMap err=%v, Marshal err=%v", err, perr)
		}
		if err != nil {
			return "", ""
		}
		var a, b interface{}
		da, db := stdjson.NewDecoder(bytes.NewReader(got)), stdjson.NewDecoder(bytes.NewReader(plain))
		da.UseNumber()
		db.UseNumber()
		ea, eb := da.Decode(&a), db.Decode(&b)
		if ea != nil || eb != nil {
			if (ea != nil) != (eb != nil) {
				return fail("R3:validity-differs", "unordered %s; ordered %s", trunc(got), trunc(plain))
			}
			return "", ""
		}
		if len(got) != len(plain) || !reflect.DeepEqual(a, b) {
			return fail("R3:members-differ", "unordered %s; ordered %s", trunc(got), trunc(plain))
		}
	case "R4-nohtml":
		got, err := gojson.MarshalWithOption(val, gojson.DisableHTMLEscape())
		if (err != nil) != (perr != nil) {
			return fail("R4:error-mismatch", "DisableHTMLEscape err=%v, Marshal err=%v", err, perr)
		}
		if err != nil {
			return "", ""
		}
		bu := "\\" + "u"
		r := strings.NewReplacer(bu+"003c", "<", bu+"003e", ">", bu+"0026", "&", bu+"2028", "\xe2\x80\xa8", bu+"2029", "\xe2\x80\xa9")
		if r.Replace(string(plain)) != r.Replace(string(got)) {
			return fail("R4:more-than-spelling", "no-HTML-escape %s; default %s", trunc(got), trunc(plain))
		}
	case "R5-entrypoints":
		type ep struct {
			name string
			f    func() ([]byte, error)
		}
		eps := []ep{
			{"MarshalNoEscape", func() ([]byte, error) { return gojson.MarshalNoEscape(val) }},
			{"MarshalContext", func() ([]byte, error) { return gojson.MarshalContext(context.Background(), val) }},
			{"MarshalWithOption()", func() ([]byte, error) { return gojson.MarshalWithOption(val) }},
			{"DebugWith", func() ([]byte, error) { return gojson.MarshalWithOption(val, gojson.DebugWith(io.Discard)) }},
			{"Encoder.Encode", func() ([]byte, error) {
				var b bytes.Buffer
				err := gojson.NewEncoder(&b).Encode(val)
				return bytes.TrimSuffix(b.Bytes(), []byte("\n")), err
			}},
			{"Encoder.EncodeContext", func() ([]byte, error) {
				var b bytes.Buffer
				err := gojson.NewEncoder(&b).EncodeContext(context.Background(), val)
				return bytes.TrimSuffix(b.Bytes(), []byte("\n")), err
			}},
			{"Encoder+indent", func() ([]byte, error) {
				var b bytes.Buffer
				e := gojson.NewEncoder(&b)
				e.SetIndent("", " ")
				err := e.Encode(val)
				if err != nil {
					return nil, err
				}
				want, werr := gojson.MarshalIndent(val, "", " ")
				if werr != nil {
					return nil, werr
				}
				if !bytes.Equal(bytes.TrimSuffix(b.Bytes(), []byte("\n")), want) {
					return []byte("Encoder+indent differs from MarshalIndent: " + b.String()), nil
				}
				return plain, perr
			}},
		}
		for _, e := range eps {
			got, err := e.f()
			if (err != nil) != (perr != nil) {
				return fail("R5:error-mismatch:"+e.name, "%s err=%v, Marshal err=%v", e.name, err, perr)
			}
			if err == nil && !bytes.Equal(got, plain) {
				return fail("R5:differs:"+e.name, "%s %s; Marshal %s", e.name, trunc(got), trunc(plain))
			}
		}
	case "R6-reach":
		// top level = behind a pointer = inside interface{}, wherever encoding/json itself satisfies it
		p := reflect.New(v.Type())
		p.Elem().Set(v)
		sPlain, e0 := stdjson.Marshal(val)
		sPtr, e1 := stdjson.Marshal(p.Interface())
		sIf, e2 := stdjson.Marshal([]interface{}{val})
		gPtr, g1 := gojson.Marshal(p.Interface())
		gIf, g2 := gojson.Marshal([]interface{}{val})
		if e0 == nil && e1 == nil && bytes.Equal(sPlain, sPtr) {
			if (g1 != nil) != (perr != nil) {
				return fail("R6:pointer-error-mismatch", "behind pointer err=%v, direct err=%v", g1, perr)
			}
			if g1 == nil && !bytes.Equal(gPtr, plain) {
				return fail("R6:pointer-differs", "behind pointer %s; direct %s", trunc(gPtr), trunc(plain))
			}
		}
		if e0 == nil && e2 == nil && len(sIf) >= 2 && bytes.Equal(sPlain, sIf[1:len(sIf)-1]) {
			if (g2 != nil) != (perr != nil) {
				return fail("R6:interface-error-mismatch", "inside interface err=%v, direct err=%v", g2, perr)
			}
			if g2 == nil && (len(gIf) < 2 || !bytes.Equal(gIf[1:len(gIf)-1], plain)) {
				return fail("R6:interface-differs", "inside interface %s; direct %s", trunc(gIf), trunc(plain))
			}
		}
	}
	return "", ""
}

// ---- C04 -------------------------------------------------------------------

var C04Variants = []string{"unmarshal", "stream", "indent", "history"}

// reshape copies v, replacing every slice (other than []byte) by a slice of the elements idx(len) selects (elements are shared
// with v: the copies are only ever encoded).
func reshape(v reflect.Value, idx func(n int) []int) reflect.Value {
	switch v.Kind() {
	case reflect.Slice:
		if v.IsNil() || v.Type().Elem().Kind() == reflect.Uint8 {
			return v
		}
		sel := idx(v.Len())
		out := reflect.MakeSlice(v.Type(), len(sel), len(sel))
		for i, k := range sel {
			out.Index(i).Set(reshape(v.Index(k), idx))
		}
		return out
	case reflect.Array:
		out := reflect.New(v.Type()).Elem()
		for i := 0; i < v.Len(); i++ {
			out.Index(i).Set(reshape(v.Index(i), idx))
		}
		return out
	case reflect.Ptr:
		if v.IsNil() {
			return v
		}
		out := reflect.New(v.Type().Elem())
		out.Elem().Set(reshape(v.Elem(), idx))
		return out
	case reflect.Interface:
		if v.IsNil() {
			return v
		}
		out := reflect.New(v.Type()).Elem()
		out.Set(reshape(v.Elem(), idx))
		return out
	case reflect.Map:
		if v.IsNil() {
			return v
		}
		out := reflect.MakeMapWithSize(v.Type(), v.Len())
		it := v.MapRange()
		for it.Next() {
			out.SetMapIndex(it.Key(), reshape(it.Value(), idx))
		}
		return out
	case reflect.Struct:
		out := reflect.New(v.Type()).Elem()
		out.Set(v)
		for i := 0; i < v.NumField(); i++ {
			if out.Field(i).CanSet() {
				out.Field(i).Set(reshape(v.Field(i), idx))
			}
		}
		return out
	}
	return v
}

func hasSlice(t reflect.Type, depth int) bool {
	if depth > 6 {
		return false
	}
	switch t.Kind() {
	case reflect.Slice:
		return t.Elem().Kind() != reflect.Uint8
	case reflect.Ptr, reflect.Array, reflect.Map:
		return hasSlice(t.Elem(), depth+1)
	case reflect.Struct:
		for i := 0; i < t.NumField(); i++ {
			if hasSlice(t.Field(i).Type, depth+1) {
				return true
			}
		}
	}
	return false
}

// c04History: the round trip of v must not depend on what the same decoders decoded before.  A long value (every slice of the
// boundary value doubled, elements in reverse order), then a short one (every slice cut to one element), then v: each is
// encoded and decoded into a fresh destination; only v's result is compared, and only if v round-trips when it comes first.
func c04History(c tygen.Case, v reflect.Value) (kind, detail string) {
	if !hasSlice(v.Type(), 0) {
		return "", ""
	}
	n, err := tygen.Build(c.Desc)
	if err != nil {
		return "", ""
	}
	val := v.Interface()
	trip := func(x reflect.Value) (reflect.Value, []byte, bool) {
		doc, err := gojson.Marshal(x.Interface())
		if err != nil {
			return reflect.Value{}, nil, false
		}
		back := reflect.New(x.Type())
		if gojson.Unmarshal(doc, back.Interface()) != nil {
			return reflect.Value{}, doc, false
		}
		return back.Elem(), doc, true
	}
	if b, _, ok := trip(v); !ok || !reflect.DeepEqual(b.Interface(), val) {
		return "", "" // not a history effect: the plain variants report it
	}
	base := n.Value("boundary")
	long := reshape(base, func(k int) []int {
		var sel []int
		for i := 0; k > 0 && i < 2*k+1; i++ {
			sel = append(sel, k-1-i%k)
		}
		return sel
	})
	short := reshape(base, func(k int) []int {
		if k == 0 {
			return nil
		}
		return []int{0}
	})
	trip(long)
	trip(short)
	b, doc, ok := trip(v)
	if !ok {
		return "unmarshal-error", fmt.Sprintf("after a longer and a shorter value of the same type, the round trip of %s fails", trunc(doc))
	}
	if !reflect.DeepEqual(b.Interface(), val) {
		return "value-differs", fmt.Sprintf("after a longer and a shorter value of the same type, document %s decodes to %#v; original %#v", trunc(doc), b.Interface(), val)
	}
	return "", ""
}

// roundTrippable: constructions without lossy features (checked structurally; encoding/json's own round trip is the final filter)
func roundTrippable(d tygen.Desc) bool {
	switch d.Leaf {
	case "MarshalerV", "MarshalerP", "TextV", "TextP", "Raw", "Empty", "BothP", "BothV":
		return false
	}
	for i, s := range d.Steps {
		if strings.Contains(s, "omitempty") || strings.Contains(s, "shadowed") || strings.Contains(s, "iface") && s != "iface" {
			return false
		}
		if s == "iface" {
			if i != 0 || !(d.Leaf == "string" || d.Leaf == "float64" || d.Leaf == "bool") {
				return false
			}
		}
	}
	return true
}

func c04(c tygen.Case, v reflect.Value) (kind, detail string) {
	if !roundTrippable(c.Desc) {
		return "", ""
	}
	val := v.Interface()
	// encoding/json's own round trip decides whether this value is round-trippable at all
	sb, serr := stdjson.Marshal(val)
	if serr != nil || !utf8.Valid(sb) {
		return "", ""
	}
	sback := reflect.New(v.Type())
	if stdjson.Unmarshal(sb, sback.Interface()) != nil || !reflect.DeepEqual(sback.Elem().Interface(), val) {
		return "", ""
	}
	if c.Variant == "history" {
		return c04History(c, v)
	}
	var doc []byte
	var err error
	back := reflect.New(v.Type())
	switch c.Variant {
	case "unmarshal":
		if doc, err = gojson.Marshal(val); err == nil {
			err = gojson.Unmarshal(doc, back.Interface())
			if err != nil {
				return "unmarshal-error", fmt.Sprintf("Unmarshal(%s): %v", trunc(doc), err)
			}
		} else {
			return "marshal-error", err.Error()
		}
	case "indent":
		if doc, err = gojson.MarshalIndent(val, " ", "\t"); err == nil {
			err = gojson.Unmarshal(doc, back.Interface())
			if err != nil {
				return "unmarshal-error", fmt.Sprintf("Unmarshal(%s): %v", trunc(doc), err)
			}
		} else {
			return "marshal-error", err.Error()
		}
	case "stream":
		var buf bytes.Buffer
		enc := gojson.NewEncoder(&buf)
		if err = enc.Encode(val); err != nil {
			return "marshal-error", err.Error()
		}
		_ = enc.Encode(val)
		doc = buf.Bytes()
		dec := gojson.NewDecoder(bytes.NewReader(doc))
		first := reflect.New(v.Type())
		if err = dec.Decode(first.Interface()); err != nil {
			return "unmarshal-error", fmt.Sprintf("Decode(%s): %v", trunc(doc), err)
		}
		if err = dec.Decode(back.Interface()); err != nil {
			return "unmarshal-error", fmt.Sprintf("second Decode(%s): %v", trunc(doc), err)
		}
		if !reflect.DeepEqual(first.Elem().Interface(), val) {
			return "value-differs", fmt.Sprintf("first stream value %#v; original %#v", first.Elem().Interface(), val)
		}
	}
	if !reflect.DeepEqual(back.Elem().Interface(), val) {
		return "value-differs", fmt.Sprintf("document %s decodes to %#v; original %#v", trunc(doc), back.Elem().Interface(), val)
	}
	return "", ""
}

// ---- C03 -------------------------------------------------------------------

var C03Variants = []string{"marshal", "indent", "noescape-nonorm", "unordered", "encoder", "context", "marshalnoescape"}

var Table *jt.Table // JsonText automaton (set by the runner for C03)

func c03Encode(variant string, val interface{}) ([]byte, error) {
	switch variant {
	case "marshal":
		return gojson.Marshal(val)
	case "indent":
		return gojson.MarshalIndent(val, " ", "  ")
	case "noescape-nonorm":
		return gojson.MarshalWithOption(val, gojson.DisableHTMLEscape(), gojson.DisableNormalizeUTF8())
	case "unordered":
		return gojson.MarshalIndentWithOption(val, "", " ", gojson.UnorderedMap())
	case "encoder":
		var b bytes.Buffer
		e := gojson.NewEncoder(&b)
		e.SetEscapeHTML(false)
		e.SetIndent("", "\t")
		err := e.Encode(val)
		return b.Bytes(), err
	case "context":
		return gojson.MarshalContext(context.Background(), val)
	case "marshalnoescape":
		return gojson.MarshalNoEscape(val)
	}
	return nil, fmt.Errorf("unknown variant")
}

// hasUnrepresentable reports whether the value contains something JSON cannot represent.
func hasUnrepresentable(v reflect.Value, depth int) bool {
	if depth > 12 {
		return false
	}
	switch v.Kind() {
	case reflect.Float32, reflect.Float64:
		f := v.Float()
		return math.IsNaN(f) || math.IsInf(f, 0)
	case reflect.Ptr, reflect.Interface:
		if v.IsNil() {
			return false
		}
		return hasUnrepresentable(v.Elem(), depth+1)
	case reflect.Slice, reflect.Array:
		for i := 0; i < v.Len(); i++ {
			if hasUnrepresentable(v.Index(i), depth+1) {
				return true
			}
		}
	case reflect.Map:
		for _, k := range v.MapKeys() {
			if hasUnrepresentable(v.MapIndex(k), depth+1) {
				return true
			}
		}
	case reflect.Struct:
		for i := 0; i < v.NumField(); i++ {
			if hasUnrepresentable(v.Field(i), depth+1) {
				return true
			}
		}
	}
	return false
}

func c03(c tygen.Case, v reflect.Value) (kind, detail string) {
	val := v.Interface()
	out, err := c03Encode(c.Variant, val)
	if err != nil {
		return "", ""
	}
	// success: exactly one well-formed JSON text (JsonText automaton), valid UTF-8 unless normalisation is off
	ver := Table.Run(out)
	if !ver.Accept {
		return "ill-formed-output", fmt.Sprintf("output %s rejected by the reference at offset %d (%s)", trunc(out), ver.At, ver.Sig())
	}
	if c.Variant != "noescape-nonorm" && !utf8.Valid(out) {
		return "invalid-utf8-output", fmt.Sprintf("output %q", trunc(out))
	}
	if stdjson.Valid(out) != ver.Accept {
		return "ORACLE", "encoding/json.Valid disagrees with JsonText on " + trunc(out)
	}
	// what JSON cannot represent must be an error: encoding/json is the yardstick for "cannot"
	if _, serr := stdjson.Marshal(val); serr != nil {
		if _, isUV := serr.(*stdjson.UnsupportedValueError); isUV || hasUnrepresentable(v, 0) {
			return "success-for-unrepresentable", fmt.Sprintf("encoding/json: %v; go-json output %s", serr, trunc(out))
		}
		if _, isME := serr.(*stdjson.MarshalerError); isME {
			return "success-for-bad-marshaler-output", fmt.Sprintf("encoding/json: %v; go-json output %s", serr, trunc(out))
		}
	}
	return "", ""
}

var _ = wk.Guard
