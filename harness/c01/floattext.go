package c01

// Float texts emitted by TLC from specs/FloatText.tla: shortest digit strings x decimal exponents with the
// text encoding/json must print.  Each number is parsed, checked to be the shortest representation of the
// resulting float64 (float32), encoded in several positions and decoded back; the library is compared with
// encoding/json, the specification's text is the third voice.

import (
	"bytes"
	stdjson "encoding/json"
	"fmt"
	"os"
	"regexp"
	"strconv"
	"strings"

	json "github.com/goccy/go-json"

	"verifharness/wk"
)

type ftCase struct {
	Digits []int  `json:"digits"`
	X      int    `json:"x"`
	Text   string `json:"text"`
	Neg    string `json:"neg"`
}

type FTParams struct {
	Cases string `json:"cases"`
}

type namedF64 float64

type ftHolder struct {
	F  float64  `json:"f"`
	P  *float64 `json:"p"`
	O  float64  `json:"o,omitempty"`
	S  float64  `json:"s,string"`
	N  namedF64 `json:"n"`
	F3 float32  `json:"f3"`
}

func layout(x int) string {
	switch {
	case x >= 21:
		return "exponent-positive"
	case x < -9:
		return "exponent-negative-two-digits"
	case x < -6:
		return "exponent-negative-one-digit"
	case x < 0:
		return "plain-fraction"
	default:
		return "plain"
	}
}

func RunFloatText(job *wk.Job, w *wk.Worker) error {
	var prm FTParams
	if err := stdjson.Unmarshal(job.Params, &prm); err != nil {
		return err
	}
	if job.Replay != nil {
		var c ftCase
		if err := stdjson.Unmarshal(job.Replay, &c); err != nil {
			return err
		}
		w.Begin(0, func() interface{} { return c })
		checkFloat(w, c, false)
		return nil
	}
	data, err := os.ReadFile(prm.Cases)
	if err != nil {
		return err
	}
	for i, ln := range bytes.Split(bytes.TrimSpace(data), []byte("\n")) {
		idx := int64(i)
		if !w.Mine(idx) {
			continue
		}
		var c ftCase
		if err := stdjson.Unmarshal(ln, &c); err != nil {
			return err
		}
		w.Begin(idx, func() interface{} { return c })
		checkFloat(w, c, true)
	}
	return nil
}

// canonExp removes the zero padding of exponents (the property tolerates e-07 for e-7).
var expPad = regexp.MustCompile(`([eE][+-])0+([0-9])`)

func canonExp(b []byte) []byte { return expPad.ReplaceAll(b, []byte("$1$2")) }

func digitsOf(s string) string {
	// mantissa digits of strconv's 'e' format without trailing zeros
	m := s
	if i := strings.IndexByte(m, 'e'); i >= 0 {
		m = m[:i]
	}
	m = strings.TrimPrefix(m, "-")
	m = strings.Replace(m, ".", "", 1)
	m = strings.TrimRight(m, "0")
	if m == "" {
		m = "0"
	}
	return m
}

func checkFloat(w *wk.Worker, c ftCase, counted bool) {
	var ds strings.Builder
	for _, d := range c.Digits {
		ds.WriteByte(byte('0' + d))
	}
	cls := layout(c.X)
	fine := fmt.Sprintf("%s|digits=%d", cls, len(c.Digits))
	for _, text := range []string{c.Text, c.Neg} {
		v, err := strconv.ParseFloat(text, 64)
		if err != nil {
			w.Count("out-of-range", 1)
			continue
		}
		if digitsOf(strconv.FormatFloat(v, 'e', -1, 64)) != ds.String() {
			w.Count("not-shortest", 1)
			continue
		}
		w.Nontrivial()
		v32 := float32(v)
		ok32 := digitsOf(strconv.FormatFloat(float64(v32), 'e', -1, 32)) == ds.String() && v32 != 0 && float64(v32) < 3e38 && float64(v32) > -3e38
		h := ftHolder{F: v, P: &v, O: v, S: v, N: namedF64(v)}
		want := fmt.Sprintf(`{"f":%s,"p":%s,"o":%s,"s":"%s","n":%s,"f3":`, text, text, text, text, text)
		if ok32 {
			h.F3 = v32
			want += text + "}"
		} else {
			want += "0}"
		}
		values := []struct {
			pos  string
			v    interface{}
			want string
		}{
			{"struct-members", &h, want},
			{"direct", v, text},
			{"interface-slice", []interface{}{v}, "[" + text + "]"},
			{"map-value", map[string]float64{"k": v}, `{"k":` + text + "}"},
		}
		if ok32 {
			values = append(values, struct {
				pos  string
				v    interface{}
				want string
			}{"float32-slice", []float32{v32}, "[" + text + "]"})
		}
		for _, it := range values {
			std, serr := stdjson.Marshal(it.v)
			if serr != nil || string(canonExp(std)) != string(canonExp([]byte(it.want))) {
				w.DivFine("ORACLE|floattext|"+it.pos, fine, counted, fmt.Sprintf("specification %s; encoding/json %s (err %v)", it.want, std, serr), c)
				return
			}
			var got []byte
			var gerr error
			if r := wk.Guard(func() { got, gerr = json.Marshal(it.v) }); r != nil {
				w.DivFine("float|encode|panic|"+it.pos, fine, counted, fmt.Sprint(r), c)
				return
			}
			w.Count("calls", 2)
			if gerr != nil || !bytes.Equal(canonExp(got), canonExp(std)) {
				w.DivFine("float|encode|"+it.pos+"|"+cls, fine, counted, fmt.Sprintf("Marshal gives %s (err %v); encoding/json gives %s", got, gerr, std), c)
				break
			}
		}
		// decoding the text gives the number back
		var a, b float64
		aerr := json.Unmarshal([]byte(text), &a)
		berr := stdjson.Unmarshal([]byte(text), &b)
		var ai interface{}
		ierr := json.Unmarshal([]byte(text), &ai)
		w.Count("calls", 3)
		if berr != nil || b != v {
			w.DivFine("ORACLE|floattext|decode", fine, counted, fmt.Sprintf("encoding/json decodes %s to %v (err %v)", text, b, berr), c)
			return
		}
		if aerr != nil || a != v {
			w.DivFine("float|decode|float64|"+cls, fine, counted, fmt.Sprintf("Unmarshal of %s gives %v (err %v), expected %v", text, a, aerr, v), c)
		} else if f, ok := ai.(float64); ierr != nil || !ok || f != v {
			w.DivFine("float|decode|interface|"+cls, fine, counted, fmt.Sprintf("Unmarshal of %s into interface{} gives %v (err %v), expected %v", text, ai, ierr, v), c)
		}
	}
	if w.WantSample() {
		w.Sample(c)
	}
}
