package c01

// Field-rule programs emitted by TLC from specs/FieldRules.tla: three struct types with embedded
// structs (by value / by pointer, promoted or renamed by a tag), colliding JSON names and hidden
// fields.  The types are realised with reflect.StructOf; Marshal and Unmarshal are compared with
// encoding/json, and the specification's member list is the third voice (a disagreement between the
// specification and encoding/json is reported as ORACLE, never as a divergence of the library).

import (
	"bytes"
	stdjson "encoding/json"
	"fmt"
	"os"
	"reflect"
	"sort"
	"strings"

	json "github.com/goccy/go-json"

	"verifharness/wk"
)

type frField struct {
	Go   string `json:"go"`
	Tag  string `json:"tag"`
	Kind string `json:"kind"`
	Ref  int    `json:"ref"`
	Ptr  bool   `json:"ptr"`
}

type frMember struct {
	Path   []int  `json:"path"`
	Name   string `json:"name"`
	Depth  int    `json:"depth"`
	Tagged bool   `json:"tagged"`
}

type frProgram struct {
	Types   [][]frField  `json:"types"`
	Members [][]frMember `json:"members"`
}

type FRParams struct {
	Cases string `json:"cases"`
}

func (p *frProgram) build() (ts [4]reflect.Type, err error) {
	defer func() {
		if r := recover(); r != nil {
			err = fmt.Errorf("reflect.StructOf: %v", r)
		}
	}()
	for k := 3; k >= 1; k-- {
		var fs []reflect.StructField
		for _, f := range p.Types[k-1] {
			sf := reflect.StructField{Name: f.Go}
			if f.Tag != "" {
				sf.Tag = reflect.StructTag(fmt.Sprintf(`json:"%s"`, f.Tag))
			}
			if f.Kind == "int" {
				sf.Type = reflect.TypeOf(0)
			} else {
				sf.Type = ts[f.Ref]
				if f.Ptr {
					sf.Type = reflect.PtrTo(sf.Type)
				}
				sf.Anonymous = true
			}
			fs = append(fs, sf)
		}
		ts[k] = reflect.StructOf(fs)
	}
	return ts, nil
}

func pathValue(path []int) int64 {
	v := int64(0)
	for _, i := range path {
		v = v*10 + int64(i)
	}
	return v
}

// fill sets every int leaf to the number spelled by its index path and allocates every embedded pointer.
func (p *frProgram) fill(v reflect.Value, k int, prefix []int) {
	for i, f := range p.Types[k-1] {
		path := append(append([]int{}, prefix...), i+1)
		fv := v.Field(i)
		if f.Kind == "int" {
			fv.SetInt(pathValue(path))
			continue
		}
		if f.Ptr {
			fv.Set(reflect.New(fv.Type().Elem()))
			fv = fv.Elem()
		}
		p.fill(fv, f.Ref, path)
	}
}

// fieldAt follows an index path from a value of type k; returns the field description and its type index.
func (p *frProgram) fieldAt(k int, path []int) frField {
	f := p.Types[k-1][path[0]-1]
	if len(path) == 1 {
		return f
	}
	return p.fieldAt(f.Ref, path[1:])
}

// expect renders the specification's document for a filled value of type k reached along prefix.
func (p *frProgram) expect(k int, prefix []int) string {
	var sb strings.Builder
	sb.WriteByte('{')
	for n, m := range p.Members[k-1] {
		if n > 0 {
			sb.WriteByte(',')
		}
		full := append(append([]int{}, prefix...), m.Path...)
		f := p.fieldAt(k, m.Path)
		fmt.Fprintf(&sb, "%q:", m.Name)
		if f.Kind == "int" {
			fmt.Fprintf(&sb, "%d", pathValue(full))
		} else {
			sb.WriteString(p.expect(f.Ref, full))
		}
	}
	sb.WriteByte('}')
	return sb.String()
}

func (p *frProgram) class() string {
	var feats []string
	names := map[string]int{}
	for _, f := range p.Types[0] {
		if f.Tag == "-" {
			feats = append(feats, "hidden")
			continue
		}
		if f.Kind == "embed" && f.Tag == "" {
			if f.Ptr {
				feats = append(feats, "promoted-pointer")
			} else {
				feats = append(feats, "promoted-value")
			}
			continue
		}
		if f.Kind == "embed" {
			feats = append(feats, "renamed-embedded")
		}
		n := f.Tag
		if n == "" {
			n = f.Go
		}
		names[n]++
	}
	for _, c := range names {
		if c > 1 {
			feats = append(feats, "direct-name-clash")
			break
		}
	}
	sort.Strings(feats)
	out := feats[:0]
	for i, f := range feats {
		if i == 0 || f != feats[i-1] {
			out = append(out, f)
		}
	}
	if len(out) == 0 {
		return "plain"
	}
	return strings.Join(out, "+")
}

func RunFieldRules(job *wk.Job, w *wk.Worker) error {
	var prm FRParams
	if err := stdjson.Unmarshal(job.Params, &prm); err != nil {
		return err
	}
	if job.Replay != nil {
		var p frProgram
		if err := stdjson.Unmarshal(job.Replay, &p); err != nil {
			return err
		}
		w.Begin(0, func() interface{} { return p })
		checkProgram(w, &p, false)
		return nil
	}
	data, err := os.ReadFile(prm.Cases)
	if err != nil {
		return err
	}
	for i, ln := range bytes.Split(bytes.TrimSpace(data), []byte("\n")) {
		idx := int64(i)
		if !w.Mine(idx) {
			continue
		}
		var p frProgram
		if err := stdjson.Unmarshal(ln, &p); err != nil {
			return err
		}
		w.Begin(idx, func() interface{} { return p })
		checkProgram(w, &p, true)
	}
	return nil
}

func checkProgram(w *wk.Worker, p *frProgram, counted bool) {
	ts, err := p.build()
	if err != nil {
		w.Count("unbuildable", 1)
		return
	}
	w.Nontrivial()
	cls := p.class()
	for _, nilPtrs := range []bool{false, true} {
		v := reflect.New(ts[1])
		if !nilPtrs {
			p.fill(v.Elem(), 1, nil)
		}
		want, werr := stdjson.Marshal(v.Interface())
		if !nilPtrs && werr == nil {
			if spec := p.expect(1, nil); spec != string(want) {
				w.DivFine("ORACLE|fieldrules|encode", cls, counted, fmt.Sprintf("specification %s; encoding/json %s", spec, want), p)
				return
			}
		}
		var got []byte
		var gerr error
		if r := wk.Guard(func() { got, gerr = json.Marshal(v.Interface()) }); r != nil {
			w.DivFine("fields|encode|panic:"+wk.PanicClass(r)+"|"+cls, cls, counted, fmt.Sprint(r), p)
			return
		}
		w.Count("calls", 2)
		if (werr != nil) != (gerr != nil) || (werr == nil && !bytes.Equal(want, got)) {
			w.DivFine("fields|encode|"+encDiff(string(got), string(want))+"|"+cls, cls, counted,
				fmt.Sprintf("Marshal gives %s (err %v); encoding/json gives %s (err %v)", got, gerr, want, werr), p)
			return
		}
		if werr != nil || nilPtrs {
			continue
		}
		// decode the document back into a zero value
		a, b := reflect.New(ts[1]), reflect.New(ts[1])
		berr := stdjson.Unmarshal(want, b.Interface())
		var aerr error
		if r := wk.Guard(func() { aerr = json.Unmarshal(want, a.Interface()) }); r != nil {
			w.DivFine("fields|decode|panic:"+wk.PanicClass(r)+"|"+cls, cls, counted, fmt.Sprint(r), p)
			return
		}
		w.Count("calls", 2)
		if berr == nil {
			if back, _ := stdjson.Marshal(b.Interface()); !bytes.Equal(back, want) {
				w.DivFine("ORACLE|fieldrules|decode", cls, counted, fmt.Sprintf("encoding/json decodes %s and re-encodes %s", want, back), p)
				return
			}
		}
		if (aerr != nil) != (berr != nil) || (berr == nil && !reflect.DeepEqual(a.Elem().Interface(), b.Elem().Interface())) {
			ga, _ := stdjson.Marshal(a.Interface())
			w.DivFine("fields|decode|other-value|"+cls, cls, counted,
				fmt.Sprintf("Unmarshal of %s gives %s (err %v); encoding/json gives the document back (err %v)", want, ga, aerr, berr), p)
			return
		}
	}
	if w.WantSample() {
		w.Sample(map[string]interface{}{"program": p, "document": p.expect(1, nil)})
	}
}

// encDiff names how the library's object differs from the reference at top level.
func encDiff(got, want string) string {
	keys := func(s string) ([]string, bool) {
		dec := stdjson.NewDecoder(strings.NewReader(s))
		tok, err := dec.Token()
		if err != nil || tok != stdjson.Delim('{') {
			return nil, false
		}
		var ks []string
		for dec.More() {
			k, err := dec.Token()
			if err != nil {
				return nil, false
			}
			ks = append(ks, fmt.Sprint(k))
			var skip stdjson.RawMessage
			if dec.Decode(&skip) != nil {
				return nil, false
			}
		}
		return ks, true
	}
	g, ok1 := keys(got)
	wnt, ok2 := keys(want)
	if !ok1 || !ok2 {
		return "not-an-object"
	}
	seen := map[string]int{}
	for _, k := range g {
		seen[k]++
		if seen[k] > 1 {
			return "duplicate-member"
		}
	}
	ws := map[string]bool{}
	for _, k := range wnt {
		ws[k] = true
	}
	for _, k := range g {
		if !ws[k] {
			return "extra-member"
		}
	}
	if len(g) < len(wnt) {
		return "missing-member"
	}
	if strings.Join(g, ",") != strings.Join(wnt, ",") {
		return "member-order"
	}
	return "member-value"
}
