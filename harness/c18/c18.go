// Package c18: Compact, Indent, HTMLEscape and Valid match encoding/json.
//
// Reference: the Compact/Indent transducers of specs/JsonTransform.tla, evaluated by TLC and
// applied here to concrete bytes; encoding/json's functions are the third voice.
package c18

import (
	"bytes"
	"encoding/base64"
	stdjson "encoding/json"
	"encoding/json"
	"fmt"
	"math/rand"
	"reflect"
	"strings"

	gojson "github.com/goccy/go-json"

	"verifharness/jt"
	"verifharness/wk"
)

type Params struct {
	Table  string `json:"table"`
	MaxLen int    `json:"max_len"`
	Random int    `json:"random"`
	RandomSeeded int `json:"random_seeded"`
}

type pi struct{ P, I string }

var pis = []pi{{"", ""}, {"", " "}, {"", "\t"}, {"  ", "    "}, {">", "--"}, {"é", "é"}}

type CaseDesc struct {
	Part   string `json:"part"`
	Fn     string `json:"fn"` // Compact | Indent | HTMLEscape | Valid
	Prefix string `json:"prefix"`
	Indent string `json:"indent"`
	Prefill string `json:"prefill"`
	Input  string `json:"input_b64"`
	Text   string `json:"text"`
}

type runner struct {
	w       *wk.Worker
	x       *jt.Transducer
	maxLenA int
}

func (c CaseDesc) with(in []byte) CaseDesc {
	c.Input = base64.StdEncoding.EncodeToString(in)
	c.Text = fmt.Sprintf("%q", in)
	return c
}

// one call of one function; returns coarse sig, fine sig, detail ("" = agrees)
func (r *runner) probe(c CaseDesc, in []byte) (string, string, string) {
	x := r.x
	w := r.w
	ref := x.Run(in)
	pre := []byte(c.Prefill)
	switch c.Fn {
	case "Valid":
		w.Count("calls", 1)
		var got bool
		if rec := wk.Guard(func() { got = gojson.Valid(in) }); rec != nil {
			return "Valid|panic|" + wk.PanicClass(rec), "Valid|panic", fmt.Sprint(rec)
		}
		if got && !ref.Accept {
			return "Valid|accepts-invalid|" + jt.CoarseRoot(ref), "Valid|" + ref.Sig(), "Valid returned true; reference rejects"
		}
		if !got && ref.Accept {
			return "Valid|rejects-valid", "Valid|rejects", "Valid returned false; reference accepts"
		}
		return "", "", ""
	case "Compact", "Indent":
		var exp []byte
		var src []int32
		var ok bool
		var stdErr, goErr error
		var stdBuf, goBuf bytes.Buffer
		stdBuf.Write(pre)
		goBuf.Write(pre)
		if c.Fn == "Compact" {
			exp, src, ok = x.Compact(in)
			stdErr = stdjson.Compact(&stdBuf, in)
		} else {
			exp, src, ok = x.Indent(in, c.Prefix, c.Indent)
			stdErr = stdjson.Indent(&stdBuf, in, c.Prefix, c.Indent)
		}
		want := append(append([]byte(nil), pre...), exp...)
		if (stdErr == nil) != ok || (ok && !bytes.Equal(stdBuf.Bytes(), want)) {
			return "ORACLE|" + c.Fn, "ORACLE", fmt.Sprintf("encoding/json gives (%q, err=%v), specification gives (%q, ok=%v)", stdBuf.Bytes(), stdErr, want, ok)
		}
		w.Count("calls", 1)
		rec := wk.Guard(func() {
			if c.Fn == "Compact" {
				goErr = gojson.Compact(&goBuf, in)
			} else {
				goErr = gojson.Indent(&goBuf, in, c.Prefix, c.Indent)
			}
		})
		if rec != nil {
			return c.Fn + "|panic|" + wk.PanicClass(rec), c.Fn + "|panic", fmt.Sprint(rec)
		}
		got := goBuf.Bytes()
		pf := "empty"
		if len(pre) > 0 {
			pf = "prefilled"
		}
		switch {
		case goErr == nil && !ok:
			return c.Fn + "|accepts-invalid|" + jt.CoarseRoot(ref), c.Fn + "|" + pf + "|" + ref.Sig(), fmt.Sprintf("no error, appended %q; reference rejects at offset %d", got, ref.At)
		case goErr != nil && ok:
			return c.Fn + "|rejects-valid", c.Fn + "|" + pf + "|rejects", "error " + goErr.Error() + "; reference accepts"
		case goErr != nil && !ok:
			if !bytes.Equal(got, pre) {
				return c.Fn + "|dst-modified-on-error|" + pf, c.Fn + "|dst-modified-on-error|" + pf, fmt.Sprintf("error returned but destination is now %q (was %q)", got, pre)
			}
			return "", "", ""
		}
		if bytes.Equal(got, want) {
			return "", "", ""
		}
		if !bytes.HasPrefix(got, pre) {
			return c.Fn + "|dst-prefix-lost", c.Fn + "|dst-prefix-lost", fmt.Sprintf("destination %q does not start with its previous contents %q", got, pre)
		}
		// locate the first differing output byte and the input transition that produced it
		g := got[len(pre):]
		k := 0
		for k < len(g) && k < len(exp) && g[k] == exp[k] {
			k++
		}
		where := "after-end"
		if k < len(exp) {
			i := int(src[k])
			m, t := x.ModeBefore(in, i)
			where = m + "," + t + "," + x.Classes[x.ByteClass[in[i]]]
			cw := coarseWhere(m, x.Classes[x.ByteClass[in[i]]])
			kind := "diff"
			if k >= len(g) {
				kind = "truncated"
			}
			return c.Fn + "|output-" + kind + "|" + pf + "|" + cw, c.Fn + "|" + pf + "|" + where, fmt.Sprintf("appended %q, expected %q", g, exp)
		}
		return c.Fn + "|output-extra|" + pf, c.Fn + "|" + pf + "|" + where, fmt.Sprintf("appended %q, expected %q", g, exp)
	case "HTMLEscape":
		var goBuf bytes.Buffer
		goBuf.Write(pre)
		w.Count("calls", 1)
		if rec := wk.Guard(func() { gojson.HTMLEscape(&goBuf, in) }); rec != nil {
			return "HTMLEscape|panic|" + wk.PanicClass(rec), "HTMLEscape|panic", fmt.Sprint(rec)
		}
		got := goBuf.Bytes()
		if !bytes.HasPrefix(got, pre) {
			return "HTMLEscape|dst-prefix-lost", "HTMLEscape|dst-prefix-lost", fmt.Sprintf("destination %q lost its previous contents", got)
		}
		g := got[len(pre):]
		if !ref.Accept {
			// HTMLEscape has no error result and encoding/json's version does not validate either:
			// nothing is demanded for invalid texts beyond not losing the destination's contents
			return "", "", ""
		}
		// valid text: the result must be an equivalent text without raw < > & U+2028 U+2029
		var a, b interface{}
		d1 := stdjson.NewDecoder(bytes.NewReader(in))
		d1.UseNumber()
		if d1.Decode(&a) != nil {
			return "", "", "" // encoding/json cannot build the value (number out of range): no yardstick
		}
		if bytes.ContainsAny(g, "<>&") || bytes.Contains(g, []byte("\u2028")) || bytes.Contains(g, []byte("\u2029")) {
			return "HTMLEscape|raw-special-char", "HTMLEscape|raw-special-char", fmt.Sprintf("output %q contains a raw special character", g)
		}
		if !x.Run(g).Accept {
			return "HTMLEscape|output-not-json", "HTMLEscape|output-not-json", fmt.Sprintf("output %q is not a JSON text", g)
		}
		d2 := stdjson.NewDecoder(bytes.NewReader(g))
		d2.UseNumber()
		if err := d2.Decode(&b); err != nil || !reflect.DeepEqual(a, b) {
			return "HTMLEscape|not-equivalent|" + valueKinds(a), "HTMLEscape|not-equivalent", fmt.Sprintf("output %q is not equivalent to the input", g)
		}
		return "", "", ""
	}
	return "", "", ""
}

func coarseWhere(m, c string) string {
	switch {
	case m == "S" || m == "SE" || (len(m) == 2 && m[0] == 'U'):
		return "in-string"
	case len(m) == 2 && m[0] == 'N':
		if c == "sp" || c == "wc" {
			return "ws-after-number"
		}
		return "in-number"
	}
	switch c {
	case "sp", "wc":
		return m + ",ws"
	case "lb", "lc", "rb", "rc", "cm", "cl", "q":
		return m + "," + c
	}
	return m + ",value"
}

func valueKinds(v interface{}) string {
	k := map[string]bool{}
	var walk func(v interface{})
	walk = func(v interface{}) {
		switch t := v.(type) {
		case map[string]interface{}:
			k["object"] = true
			for _, e := range t {
				walk(e)
			}
		case []interface{}:
			k["array"] = true
			for _, e := range t {
				walk(e)
			}
		case string:
			k["string"] = true
		case stdjson.Number:
			k["number"] = true
		default:
			k["literal"] = true
		}
	}
	walk(v)
	var out []string
	for _, n := range []string{"array", "object", "string", "number", "literal"} {
		if k[n] {
			out = append(out, n)
		}
	}
	return strings.Join(out, "+")
}

func (r *runner) calls() []CaseDesc {
	var cs []CaseDesc
	for _, pf := range []string{"", "XY"} {
		cs = append(cs, CaseDesc{Fn: "Compact", Prefill: pf})
		for _, p := range pis {
			cs = append(cs, CaseDesc{Fn: "Indent", Prefix: p.P, Indent: p.I, Prefill: pf})
		}
		cs = append(cs, CaseDesc{Fn: "HTMLEscape", Prefill: pf})
	}
	cs = append(cs, CaseDesc{Fn: "Valid"})
	return cs
}

func (r *runner) check(part string, s []byte, counted bool, calls []CaseDesc) {
	for _, c := range calls {
		c.Part = part
		cs, fs, detail := r.probe(c, s)
		if cs == "" {
			continue
		}
		if strings.HasPrefix(cs, "ORACLE|") {
			r.w.DivCase(cs, counted, detail, c.with(s))
			continue
		}
		if part == "A" || part == "R" || part == "B0" || part == "D" {
			r.w.DivFine(cs, fs, counted, detail, c.with(s))
			continue
		}
		m := r.shrink(c, s, cs)
		if len(m) <= r.maxLenA && r.x.IsRep(m) {
			r.w.Count("random_divergences_covered_by_exhaustive_part", 1)
			continue
		}
		_, fs2, d2 := r.probe(c, m)
		r.w.DivFine(cs, fs2, counted, d2+fmt.Sprintf(" (shrunk from %q)", s), c.with(m))
	}
}

func (r *runner) shrink(c CaseDesc, s []byte, cs string) []byte {
	cur := append([]byte(nil), s...)
	same := func(b []byte) bool { g, _, _ := r.probe(c, b); return g == cs }
	for changed := true; changed; {
		changed = false
		for i := 0; i < len(cur); i++ {
			cand := append(append([]byte(nil), cur[:i]...), cur[i+1:]...)
			if same(cand) {
				cur, changed = cand, true
				i--
			}
		}
	}
	for i := range cur {
		rep := r.x.ClassByte[r.x.ByteClass[cur[i]]][0]
		if rep != cur[i] {
			old := cur[i]
			cur[i] = rep
			if !same(cur) {
				cur[i] = old
			}
		}
	}
	return cur
}

// decorate inserts random white space between tokens and HTML-special characters inside strings.
func decorate(x *jt.Transducer, rng *rand.Rand, txt []byte) []byte {
	var out []byte
	s := x.Init()
	ws := []byte(" \t\n\r")
	special := []string{"<", ">", "&", "\u2028", "\u2029", "\u00e9", "</script>"}
	for _, c := range txt {
		m := x.Modes[s.Mode]
		inStr := m == "S"
		inTok := inStr || m == "SE" || (len(m) == 2 && (m[0] == 'U' || m[0] == 'N' || m[0] == 'T' || m[0] == 'F' || m[0] == 'L'))
		cls := x.Classes[x.ByteClass[c]]
		if m[0] == 'N' && !(cls == "z" || cls == "d" || cls == "dt" || cls == "e" || cls == "E" || cls == "pl" || cls == "mi") {
			inTok = false // the number ends here
		}
		if !inTok && rng.Intn(3) == 0 {
			for k := rng.Intn(3) + 1; k > 0; k-- {
				out = append(out, ws[rng.Intn(4)])
			}
		}
		if inStr && rng.Intn(4) == 0 {
			out = append(out, special[rng.Intn(len(special))]...)
		}
		out = append(out, c)
		x.StepClass(&s, int(x.ByteClass[c]))
	}
	if rng.Intn(2) == 0 {
		for k := rng.Intn(3) + 1; k > 0; k-- {
			out = append(out, ws[rng.Intn(4)])
		}
	}
	return out
}

func (r *runner) partB(part string, count int, seed int64, idx int64, counted bool, calls []CaseDesc) int64 {
	x := r.x
	for k := 0; k < count; k++ {
		if !r.w.Mine(idx) {
			idx++
			continue
		}
		rng := rand.New(rand.NewSource(seed*1000003 + int64(k)))
		txt := jt.GenValid(x.Table, rng, 4+rng.Intn(30))
		if txt == nil {
			idx++
			continue
		}
		txt = decorate(x, rng, txt)
		r.w.Begin(idx, func() interface{} { return CaseDesc{Part: part, Fn: "*"}.with(txt) })
		r.w.Nontrivial()
		if r.w.WantSample() {
			r.w.Sample(map[string]interface{}{"input": fmt.Sprintf("%q", txt), "part": part})
		}
		r.check(part, txt, counted, calls)
		// mutations: a few single-byte deletions / substitutions / insertions
		for j := 0; j < 8 && len(txt) > 0; j++ {
			i := rng.Intn(len(txt))
			var m []byte
			switch rng.Intn(3) {
			case 0:
				m = append(append([]byte(nil), txt[:i]...), txt[i+1:]...)
			case 1:
				m = append([]byte(nil), txt...)
				c := rng.Intn(len(x.Classes))
				m[i] = x.ClassByte[c][rng.Intn(len(x.ClassByte[c]))]
			default:
				c := rng.Intn(len(x.Classes))
				m = append(append(append([]byte(nil), txt[:i]...), x.ClassByte[c][rng.Intn(len(x.ClassByte[c]))]), txt[i:]...)
			}
			r.check(part, m, counted, calls)
		}
		idx++
	}
	return idx
}

func Run(job *wk.Job, w *wk.Worker) error {
	var p Params
	if err := json.Unmarshal(job.Params, &p); err != nil {
		return err
	}
	x, err := jt.LoadTransducer(p.Table)
	if err != nil {
		return err
	}
	r := &runner{w: w, x: x, maxLenA: p.MaxLen}
	calls := r.calls()
	if job.Replay != nil {
		var c CaseDesc
		if err := json.Unmarshal(job.Replay, &c); err != nil {
			return err
		}
		in, err := base64.StdEncoding.DecodeString(c.Input)
		if err != nil {
			return err
		}
		w.Begin(0, func() interface{} { return c })
		if c.Fn != "*" {
			calls = []CaseDesc{c}
		}
		r.check("R", in, false, calls)
		return nil
	}
	idx := int64(0)
	x.EachClassString(p.MaxLen, func(s []byte) {
		if w.Mine(idx) {
			in := append([]byte(nil), s...)
			w.Begin(idx, func() interface{} { return CaseDesc{Part: "A", Fn: "*"}.with(in) })
			if v := x.Run(in); len(in) > 0 && (v.Accept || v.At >= len(in)-1) {
				w.Nontrivial()
			}
			r.check("A", in, true, calls)
		}
		idx++
	})
	// part D: every string-literal item (alone, and before / after an escaped backslash) inside documents whose nesting
	// gets DEEPER after the string - as a value, as a member name, with and without whitespace between the tokens
	var lits []string
	for _, it := range jt.StringItems {
		lits = append(lits, it.Text)
		if it.Name != "esc-bs" {
			lits = append(lits, it.Text+"\\\\", "\\\\"+it.Text)
		}
	}
	for _, body := range lits {
		q := "\"" + body + "\""
		for _, doc := range []string{
			"[" + q + ",[[1]]]",
			"{\"p\":" + q + ",\"q\":{\"r\":[1,{\"s\":2}]}}",
			"{" + q + ":[[]],\"z\":{\"y\":{\"x\":[]}}}",
			"[[" + q + "],{\"a\":[{\"b\":" + q + "}]}]",
			"[ " + q + " , [ [ 1 ] ,\n{ } ] ]",
		} {
			if w.Mine(idx) {
				in := []byte(doc)
				w.Begin(idx, func() interface{} { return CaseDesc{Part: "D", Fn: "*"}.with(in) })
				w.Nontrivial()
				r.check("D", in, true, calls)
			}
			idx++
		}
	}
	idx = r.partB("B0", p.Random, 0, idx, true, calls)
	n := p.RandomSeeded
	if n == 0 {
		n = p.Random
	}
	r.partB("B", n, job.Seed+1, idx, false, calls)
	return nil
}
