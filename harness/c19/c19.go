// Package c19: field queries project exactly the selected fields.
//
// Queries (as selector-path sets), their JSON spelling and the expected projection of two fixed values
// are emitted by TLC from specs/FieldQuery.tla.  Each query is built from its text and used with
// MarshalContext / EncodeContext on FRESH struct types (reflect.StructOf with a discriminating
// ignored field, so that every history starts from a cold per-type cache); histories interleave two
// queries, the unfiltered encoding and a second value in several orders, every result being
// compared with the specification's projection.
package c19

import (
	"bytes"
	"context"
	"encoding/json"
	stdjson "encoding/json"
	"fmt"
	"os"
	"reflect"
	"strings"

	gojson "github.com/goccy/go-json"

	"verifharness/jtree"
	"verifharness/wk"
)

type Params struct {
	Cases     string `json:"cases"`
	HistMax   int    `json:"hist_max_paths"` // histories use queries with at most this many paths
	HistEvery int    `json:"hist_every"`     // take every n-th interfering pair (1 = all)
}

type queryCase struct {
	Query  string     `json:"query"`
	Paths  [][]string `json:"paths"`
	Expect []string   `json:"expect"`
}

type Case struct {
	Part    string   `json:"part"`
	Queries []string `json:"queries"` // history: query texts ("" = unfiltered), in order
	Values  []int    `json:"values"`  // which value each step encodes
}

var typeSeq int

// CI has the shape of the specification's I and a context-aware marshaler that forwards its context:
// the sub-query selected for the member must reach the nested MarshalContext.
type CJ struct{ D, E int }
type CI struct {
	A int
	B string
	C CJ
}

func (c *CI) MarshalJSON(ctx context.Context) ([]byte, error) {
	type plain CI
	if ctx == nil {
		return gojson.Marshal((*plain)(c))
	}
	return gojson.MarshalContext(ctx, (*plain)(c))
}

type types struct{ t, i, j reflect.Type }

// fresh returns structurally identical but distinct struct types (cold caches)
func fresh() types {
	typeSeq++
	pad := func() reflect.StructField {
		return reflect.StructField{Name: fmt.Sprintf("Pad%d", typeSeq), Type: reflect.TypeOf(0), Tag: `json:"-"`}
	}
	intT, strT := reflect.TypeOf(0), reflect.TypeOf("")
	j := reflect.StructOf([]reflect.StructField{{Name: "D", Type: intT}, {Name: "E", Type: intT}, pad()})
	i := reflect.StructOf([]reflect.StructField{{Name: "A", Type: intT}, {Name: "B", Type: strT}, {Name: "C", Type: j}, pad()})
	t := reflect.StructOf([]reflect.StructField{
		{Name: "X", Type: intT}, {Name: "P", Type: reflect.PtrTo(i)}, {Name: "V", Type: i}, {Name: "S", Type: reflect.SliceOf(i)},
		{Name: "M", Type: reflect.MapOf(strT, i)}, {Name: "F", Type: reflect.TypeOf((*interface{})(nil)).Elem()}, {Name: "K", Type: reflect.TypeOf((*CI)(nil))}, pad()})
	return types{t, i, j}
}

func (ty types) mkI(a int, b string, d, e int) reflect.Value {
	v := reflect.New(ty.i).Elem()
	v.Field(0).SetInt(int64(a))
	v.Field(1).SetString(b)
	v.Field(2).Field(0).SetInt(int64(d))
	v.Field(2).Field(1).SetInt(int64(e))
	return v
}

// the two values of the specification (Value1, Value2)
func (ty types) value(k int) interface{} {
	v := reflect.New(ty.t).Elem()
	if k == 0 {
		v.Field(0).SetInt(1)
		p := reflect.New(ty.i)
		p.Elem().Set(ty.mkI(2, "p", 3, 4))
		v.Field(1).Set(p)
		v.Field(2).Set(ty.mkI(5, "v", 6, 7))
		s := reflect.MakeSlice(reflect.SliceOf(ty.i), 2, 2)
		s.Index(0).Set(ty.mkI(8, "s", 9, 1))
		s.Index(1).Set(ty.mkI(2, "t", 3, 4))
		v.Field(3).Set(s)
		m := reflect.MakeMap(reflect.MapOf(reflect.TypeOf(""), ty.i))
		m.SetMapIndex(reflect.ValueOf("k1"), ty.mkI(5, "m", 6, 7))
		m.SetMapIndex(reflect.ValueOf("k2"), ty.mkI(8, "n", 9, 1))
		v.Field(4).Set(m)
		v.Field(5).Set(ty.mkI(2, "f", 3, 4))
		v.Field(6).Set(reflect.ValueOf(&CI{A: 7, B: "k", C: CJ{8, 9}}))
	} else {
		v.Field(3).Set(reflect.MakeSlice(reflect.SliceOf(ty.i), 0, 0))
		v.Field(4).Set(reflect.MakeMap(reflect.MapOf(reflect.TypeOf(""), ty.i)))
	}
	return v.Interface()
}

func encode(val interface{}, qtext string, viaEncoder bool) ([]byte, error, string) {
	var out []byte
	var err error
	rec := wk.Guard(func() {
		ctx := context.Background()
		if qtext != "" {
			var q *gojson.FieldQuery
			q, err = gojson.FieldQueryString(qtext).Build()
			if err != nil {
				return
			}
			ctx = gojson.SetFieldQueryToContext(ctx, q)
		}
		if viaEncoder {
			var b bytes.Buffer
			err = gojson.NewEncoder(&b).EncodeContext(ctx, val)
			out = bytes.TrimSuffix(b.Bytes(), []byte("\n"))
			return
		}
		if qtext == "" {
			out, err = gojson.Marshal(val)
			return
		}
		out, err = gojson.MarshalContext(ctx, val)
	})
	if rec != nil {
		return nil, nil, wk.PanicClass(rec)
	}
	return out, err, ""
}

// where (through which member of T) the first difference lies, and whether members are extra or missing
func diffClass(got, want string) string {
	g, e1 := jtree.Parse([]byte(got))
	w, e2 := jtree.Parse([]byte(want))
	if e1 != nil || e2 != nil || g.Kind != "obj" || w.Kind != "obj" {
		return "not-an-object"
	}
	find := func(n *jtree.Node, k string) *jtree.Node {
		for i, key := range n.Keys {
			if key == k {
				return n.Elems[i]
			}
		}
		return nil
	}
	through := map[string]string{`"X"`: "scalar", `"P"`: "pointer", `"V"`: "value-struct", `"S"`: "slice", `"M"`: "map", `"F"`: "interface", `"K"`: "context-aware-marshaler"}
	for i, k := range g.Keys {
		wv := find(w, k)
		if wv == nil {
			return "extra-top-level-member"
		}
		if wv.String() != g.Elems[i].String() {
			kind := "sub-query-differs"
			if len(g.Elems[i].String()) > len(wv.String()) {
				kind = "sub-query-keeps-too-much"
			} else if len(g.Elems[i].String()) < len(wv.String()) {
				kind = "sub-query-keeps-too-little"
			}
			return kind + "|through=" + through[k]
		}
	}
	for _, k := range w.Keys {
		if find(g, k) == nil {
			return "missing-top-level-member"
		}
	}
	return "member-order"
}

type runner struct {
	w      *wk.Worker
	byText map[string]queryCase
	plain  []string
}

func (r *runner) expect(q string, vi int) string {
	if q == "" {
		return r.plain[vi]
	}
	return r.byText[q].Expect[vi]
}

// runHistory executes the steps on a fresh type; reports the first deviating step
func (r *runner) runHistory(c Case, counted bool) {
	w := r.w
	ty := fresh()
	vals := []interface{}{ty.value(0), ty.value(1)}
	for step, q := range c.Queries {
		vi := c.Values[step]
		for _, viaEnc := range []bool{false, true} {
			if viaEnc && q == "" {
				continue
			}
			w.Count("calls", 1)
			out, err, pan := encode(vals[vi], q, viaEnc)
			want := r.expect(q, vi)
			part := "single"
			if step > 0 {
				part = "history-step"
			}
			fine := fmt.Sprintf("%v|%v|%d", c.Queries, c.Values, step)
			switch {
			case pan != "":
				w.DivFine("query|panic:"+pan+"|"+part, fine, counted, "panic", c)
				return
			case err != nil:
				w.DivFine("query|error|"+part, fine, counted, err.Error(), c)
				return
			case string(out) != want:
				cls := diffClass(string(out), want)
				if step > 0 {
					// is this step wrong on a fresh type as well?  then it is not a history effect
					t2 := fresh()
					o2, _, _ := encode([]interface{}{t2.value(0), t2.value(1)}[vi], q, viaEnc)
					if string(o2) == string(out) {
						part = "single"
					} else {
						part = "history-dependent"
					}
				}
				w.DivFine("query|"+part+"|"+cls, fine, counted, fmt.Sprintf("step %d query %s: got %s; specification %s", step+1, q, out, want), c)
				return
			}
		}
	}
}

func Run(job *wk.Job, w *wk.Worker) error {
	var p Params
	if err := json.Unmarshal(job.Params, &p); err != nil {
		return err
	}
	r := &runner{w: w, byText: map[string]queryCase{}}
	data, err := os.ReadFile(p.Cases)
	if err != nil {
		return err
	}
	lines := bytes.Split(data, []byte("\n"))
	if err := json.Unmarshal(lines[0], &r.plain); err != nil {
		return err
	}
	var qs []queryCase
	for _, l := range lines[1:] {
		if len(l) == 0 {
			continue
		}
		var qc queryCase
		if err := json.Unmarshal(l, &qc); err != nil {
			return err
		}
		qs = append(qs, qc)
		r.byText[qc.Query] = qc
	}
	if job.Replay != nil {
		var c Case
		if err := json.Unmarshal(job.Replay, &c); err != nil {
			return err
		}
		w.Begin(0, func() interface{} { return c })
		r.runHistory(c, false)
		return nil
	}
	idx := int64(0)
	// third voice: encoding/json's unfiltered document equals the specification's
	if w.Mine(idx) {
		ty := fresh()
		for vi := 0; vi < 2; vi++ {
			b, _ := stdjson.Marshal(ty.value(vi))
			if string(b) != r.plain[vi] {
				w.DivCase("ORACLE|plain", true, fmt.Sprintf("encoding/json %s; specification %s", b, r.plain[vi]), Case{Part: "plain"})
			}
		}
	}
	idx++
	// part Q: every query alone on a fresh type, both values; and rebuilt from its own QueryString
	for _, qc := range qs {
		if w.Mine(idx) {
			q := qc
			c := Case{Part: "Q", Queries: []string{q.Query, q.Query}, Values: []int{0, 1}}
			w.Begin(idx, func() interface{} { return c })
			w.Nontrivial()
			if w.WantSample() && len(q.Paths) == 2 {
				w.Sample(map[string]interface{}{"query": q.Query, "paths": q.Paths, "expected_projection_of_value1": q.Expect[0]})
			}
			r.runHistory(c, true)
			// Build(QueryString(q)) must be an equivalent query
			if fq, err := gojson.FieldQueryString(q.Query).Build(); err == nil {
				if qs2, err := fq.QueryString(); err == nil {
					ty := fresh()
					o1, e1, _ := encode(ty.value(0), q.Query, false)
					o2, e2, _ := encode(ty.value(0), string(qs2), false)
					if (e1 == nil) != (e2 == nil) || string(o1) != string(o2) {
						w.DivFine("query|querystring-roundtrip-differs", q.Query, true, fmt.Sprintf("query %s -> QueryString %s: %s vs %s", q.Query, qs2, o1, o2), c)
					}
				}
			}
		}
		idx++
	}
	// part H: histories on one fresh type: q1, q2, unfiltered, q1 again, q2 on the other value
	var small []queryCase
	for _, qc := range qs {
		if len(qc.Paths) <= p.HistMax {
			small = append(small, qc)
		}
	}
	npair := 0
	for _, a := range small {
		for _, b := range small {
			if a.Query == b.Query {
				continue
			}
			// only pairs that touch a common top-level member can interfere through the per-type cache
			common := false
			for _, pa := range a.Paths {
				for _, pb := range b.Paths {
					if pa[0] == pb[0] {
						common = true
					}
				}
			}
			if !common && !strings.Contains(a.Query, "{") {
				idx++
				continue
			}
			npair++
			if p.HistEvery > 1 && npair%p.HistEvery != 0 && len(a.Paths)+len(b.Paths) > 2 {
				idx++
				continue
			}
			if w.Mine(idx) {
				c := Case{Part: "H", Queries: []string{a.Query, b.Query, "", a.Query, b.Query}, Values: []int{0, 0, 0, 1, 1}}
				w.Begin(idx, func() interface{} { return c })
				r.runHistory(c, true)
			}
			idx++
		}
	}
	return nil
}
