// Package c14 drives property C14 (a value is always processed by the program compiled for its own
// type) in the many-types worker binary: thousands of generated static types laid out densely by the
// linker plus reflect-created types on the heap are encoded and decoded once each (cold) and a
// sample again (warm); every return of the cache lookups is recorded through the verif hooks and
// written as a trace for TLC (specs/TypeCacheTrace.tla); results are compared with encoding/json.
package c14

import (
	"bytes"
	stdjson "encoding/json"
	"fmt"
	"math/rand"
	"os"
	"path/filepath"
	"reflect"
	"sort"
	"unsafe"

	json "github.com/goccy/go-json"

	"verifharness/tyreg"
	"verifharness/wk"
)

type Params struct {
	TraceDir     string `json:"trace_dir"`
	ReflectEvery int    `json:"reflect_every"`
	WarmEvery    int    `json:"warm_every"`
	Label        string `json:"label"` // build flavour, for signatures and the trace file name
}

type item struct {
	Idx  int    `json:"idx"`
	Kind string `json:"kind"`
	Pass string `json:"pass"`
	v    interface{}
}

type event struct {
	Ev    string `json:"ev"`
	Side  string `json:"side,omitempty"`
	Path  string `json:"path,omitempty"`
	Zone  string `json:"zone,omitempty"`
	Rel   int64  `json:"rel"`
	Index int64  `json:"index"`
	Tid   int64  `json:"tid"`
	Prog  int64  `json:"prog"`
	Ptid  int64  `json:"ptid"`
	Range int64  `json:"range"`
	Shift int64  `json:"shift"`
	Seq   int64  `json:"seq"`
	Fast  bool   `json:"-"`
}

type eface struct{ typ, data unsafe.Pointer }

func typePtr(v interface{}) uintptr { return uintptr((*eface)(unsafe.Pointer(&v)).typ) }

// derived builds reflect-created types around a static value: their descriptors live on the heap.
func derived(e tyreg.Entry) []item {
	v := e.New()
	t := reflect.TypeOf(v)
	rv := reflect.ValueOf(v)
	var out []item
	// struct{ F <t> `json:"f<idx>"` }
	st := reflect.StructOf([]reflect.StructField{{Name: "F", Type: t, Tag: reflect.StructTag(fmt.Sprintf(`json:"f%d"`, e.Idx))},
		{Name: "G", Type: reflect.TypeOf(0), Tag: reflect.StructTag(fmt.Sprintf(`json:"g%d"`, e.Idx))}})
	sv := reflect.New(st)
	sv.Elem().Field(0).Set(rv)
	sv.Elem().Field(1).SetInt(int64(e.Idx))
	out = append(out, item{e.Idx, "r-struct(" + e.Kind + ")", "", sv.Interface()})
	// []t
	sl := reflect.MakeSlice(reflect.SliceOf(t), 0, 2)
	sl = reflect.Append(sl, rv, rv)
	out = append(out, item{e.Idx, "r-slice(" + e.Kind + ")", "", sl.Interface()})
	// map[string]t
	mp := reflect.MakeMap(reflect.MapOf(reflect.TypeOf(""), t))
	mp.SetMapIndex(reflect.ValueOf("k"), rv)
	out = append(out, item{e.Idx, "r-map(" + e.Kind + ")", "", mp.Interface()})
	// [2]t (by pointer, so that the array is addressable)
	ar := reflect.New(reflect.ArrayOf(2, t))
	ar.Elem().Index(0).Set(rv)
	ar.Elem().Index(1).Set(rv)
	out = append(out, item{e.Idx, "r-array(" + e.Kind + ")", "", ar.Interface()})
	return out
}

func Run(job *wk.Job, w *wk.Worker) error {
	var p Params
	if err := stdjson.Unmarshal(job.Params, &p); err != nil {
		return err
	}
	if len(tyreg.Static) == 0 {
		return fmt.Errorf("c14 needs the many-types binary (tyreg.Static is empty)")
	}
	if p.ReflectEvery <= 0 {
		p.ReflectEvery = 7
	}
	if p.WarmEvery <= 0 {
		p.WarmEvery = 9
	}
	rng := rand.New(rand.NewSource(job.Seed*1000003 + job.Shard))
	var items []item
	for i, e := range tyreg.Static {
		items = append(items, item{e.Idx, e.Kind, "", e.New()})
		if i%p.ReflectEvery == int(job.Shard)%p.ReflectEvery && e.Kind != "M" {
			items = append(items, derived(e)...)
		}
	}
	rng.Shuffle(len(items), func(i, j int) { items[i], items[j] = items[j], items[i] })
	n := len(items)
	for i := 0; i < n; i++ {
		if i%p.WarmEvery == 0 {
			it := items[i]
			it.Pass = "warm"
			items = append(items, it)
		}
	}

	var events []json.VerifCacheEvent
	json.VerifSetCacheTracer(func(e json.VerifCacheEvent) { events = append(events, e) })
	defer json.VerifSetCacheTracer(nil)

	for k := range items {
		idx := int64(k)*job.Shards + job.Shard
		if !w.Mine(idx) {
			continue
		}
		it := items[k]
		if it.Pass == "" {
			it.Pass = "cold"
		}
		w.Begin(idx, func() interface{} { return it })
		w.Nontrivial()
		check(w, &p, it)
	}
	return writeTrace(w, &p, job, events)
}

func check(w *wk.Worker, p *Params, it item) {
	v := it.v
	want, werr := stdjson.Marshal(v)
	var got []byte
	var gerr error
	if r := wk.Guard(func() { got, gerr = json.Marshal(v) }); r != nil {
		w.DivFine("encode|panic|"+wk.PanicClass(r), it.Kind, true, fmt.Sprint(r), it)
		return
	}
	w.Count("calls", 2)
	if (werr != nil) != (gerr != nil) || (werr == nil && !bytes.Equal(want, got)) {
		w.DivFine("encode|other-document|"+kindClass(it.Kind), it.Kind, true,
			fmt.Sprintf("Marshal gives %s (err %v); encoding/json gives %s (err %v)", clip(got), gerr, clip(want), werr), it)
	}
	if werr != nil {
		return
	}
	if w.WantSample() {
		w.Sample(map[string]interface{}{"kind": it.Kind, "family": it.Idx, "pass": it.Pass, "build": p.Label, "document": string(want)})
	}
	t := reflect.TypeOf(v)
	a, b := reflect.New(t), reflect.New(t)
	var aerr error
	if r := wk.Guard(func() { aerr = json.Unmarshal(want, a.Interface()) }); r != nil {
		w.DivFine("decode|panic|"+wk.PanicClass(r), it.Kind, true, fmt.Sprint(r), it)
		return
	}
	berr := stdjson.Unmarshal(want, b.Interface())
	if (aerr != nil) != (berr != nil) || !reflect.DeepEqual(a.Elem().Interface(), b.Elem().Interface()) {
		ga, _ := stdjson.Marshal(a.Elem().Interface())
		w.DivFine("decode|other-value|"+kindClass(it.Kind), it.Kind, true,
			fmt.Sprintf("Unmarshal of %s gives %s (err %v); encoding/json gives the original (err %v)", clip(want), clip(ga), aerr, berr), it)
	}
}

func kindClass(k string) string {
	if len(k) > 2 && k[:2] == "r-" {
		return "reflect-created"
	}
	return "static"
}

func clip(b []byte) string {
	if len(b) > 160 {
		return string(b[:160]) + "..."
	}
	return string(b)
}

// writeTrace numbers types and programs, classifies each requested descriptor against the window and
// writes two sorted sections (by slot / type, then by program): the rules TLC evaluates are
// order-independent and then need only the previous event.
func writeTrace(w *wk.Worker, p *Params, job *wk.Job, raw []json.VerifCacheEvent) error {
	if p.TraceDir == "" || job.Only >= 0 {
		return nil
	}
	tids := map[uintptr]int64{}
	progs := map[string]int64{}
	tid := func(a uintptr) int64 {
		if id, ok := tids[a]; ok {
			return id
		}
		tids[a] = int64(len(tids) + 1)
		return tids[a]
	}
	evs := make([]event, 0, len(raw))
	minPitch := int64(1) << 40
	var inWin []uintptr
	for i, r := range raw {
		e := event{Ev: "ret", Side: r.Side, Path: r.Path, Index: int64(r.Index), Tid: tid(r.TypePtr), Ptid: -1,
			Range: int64(r.Max - r.Base), Shift: int64(r.Shift), Seq: int64(i)}
		switch {
		case r.TypePtr < r.Base:
			e.Zone = "below"
		case r.TypePtr > r.Max:
			e.Zone = "above"
		default:
			e.Zone = "in"
			e.Rel = int64(r.TypePtr - r.Base)
			inWin = append(inWin, r.TypePtr)
		}
		if r.ProgType != 0 {
			e.Ptid = tid(r.ProgType)
		}
		pk := fmt.Sprintf("%s/%x", r.Side, r.Prog)
		if id, ok := progs[pk]; ok {
			e.Prog = id
		} else {
			progs[pk] = int64(len(progs) + 1)
			e.Prog = progs[pk]
		}
		e.Fast = r.Path != "slow"
		evs = append(evs, e)
		w.Count("lookup-"+r.Side+"-"+r.Path, 1)
		w.Count("zone-"+e.Zone, 1)
	}
	sort.Slice(inWin, func(i, j int) bool { return inWin[i] < inWin[j] })
	for i := 1; i < len(inWin); i++ {
		if d := int64(inWin[i] - inWin[i-1]); d > 0 && d < minPitch {
			minPitch = d
		}
	}
	if len(raw) > 0 {
		w.Note("window", map[string]interface{}{"label": p.Label, "range": raw[0].Max - raw[0].Base, "shift": raw[0].Shift,
			"types_seen": len(tids), "min_pitch_bytes": minPitch, "base": fmt.Sprintf("%#x", raw[0].Base)})
	}
	f, err := os.Create(filepath.Join(p.TraceDir, fmt.Sprintf("cache-%s-%03d-%d.ndjson", p.Label, job.Shard, job.Resume)))
	if err != nil {
		return err
	}
	defer f.Close()
	enc := stdjson.NewEncoder(f)
	key := func(e event) int64 {
		if e.Fast {
			return e.Index
		}
		return e.Tid
	}
	sort.SliceStable(evs, func(i, j int) bool {
		a, b := evs[i], evs[j]
		if a.Side != b.Side {
			return a.Side < b.Side
		}
		if a.Fast != b.Fast {
			return a.Fast
		}
		if key(a) != key(b) {
			return key(a) < key(b)
		}
		return a.Seq < b.Seq
	})
	_ = enc.Encode(map[string]string{"ev": "begin"})
	for _, e := range evs {
		_ = enc.Encode(e)
	}
	sort.SliceStable(evs, func(i, j int) bool {
		a, b := evs[i], evs[j]
		if a.Side != b.Side {
			return a.Side < b.Side
		}
		if a.Prog != b.Prog {
			return a.Prog < b.Prog
		}
		return a.Seq < b.Seq
	})
	_ = enc.Encode(map[string]string{"ev": "begin"})
	for _, e := range evs {
		_ = enc.Encode(e)
	}
	return nil
}
