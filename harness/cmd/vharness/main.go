// vharness: worker binary of the verification harness.  One sub-command per property (see vmain).
package main

import "verifharness/vmain"

func main() { vmain.Main() }
